"""F01 (C06): RK4 stages must be evaluated at t, t+dt/2, t+dt/2, t+dt.
Exit 0 if the real code behaves correctly, 1 if the defect manifests."""
import sys
import numpy as np
from kawin.solver.Iterators import RK4Iterator

times = []
def f(t, X, getDt=False):
    times.append(t)
    d = np.array([np.cos(t)])
    return (d, 0.5) if getDt else d
upd = lambda x, d, h: x + d*h
X, dt = RK4Iterator(f, 0.0, np.array([0.0]), upd)
print('stage times', times, 'X', X, 'exact', np.sin(0.5))
ok = np.allclose(times, [0, 0.25, 0.25, 0.5]) and abs(X[0]-np.sin(0.5)) < 1e-4
sys.exit(0 if ok else 1)
