"""F02 (C13): on a slow ramp (per-step change below maxTempChange) the binary
lookup table must still be rebuilt once the accumulated drift exceeds the limit.
Uses the real PrecipitateModel._growthRateBinary; only the table builder and the
per-phase growth are stubbed (they need a thermodynamic database)."""
import sys
import numpy as np
from kawin.precipitation.KWNEuler import PrecipitateModel

class M(PrecipitateModel):
    builds = []
    def _createLookupBinary(self, T):
        self.builds.append(float(T))
        z = np.zeros((1, len(self.phases), self.numberOfElements))
        return z, z.copy()
    def _singleGrowthBinary(self, p, Y):
        return np.zeros(self.PBM[p].bins + 1)

m = M(phases=['beta'], elements=['B'])
m.constraints.maxTempChange = 1.0
m.pData.temperature[0] = 500.0
tableT = 500.0                    # table assumed built at 500 K
worst = 0.0
for k in range(1, 41):            # 40 steps of +0.3 K: slow ramp, 12 K in total
    T = 500.0 + 0.3*k
    Y = m.pData.copySlice(m.pData.n)
    Y.time = np.array([float(k)]); Y.temperature = np.array([T])
    _, Y = m._growthRateBinary(Y)
    if m.builds: tableT = m.builds[-1]
    worst = max(worst, abs(T - tableT))
    m.pData.appendToArrays(Y)
print('rebuilds:', len(m.builds), 'worst |T - T_table| =', round(worst, 3))
sys.exit(0 if worst <= m.constraints.maxTempChange + 0.3 + 1e-9 else 1)
