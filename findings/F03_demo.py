"""F03 (C13): a schedule given to the TemperatureParameters constructor must be
treated like the same schedule given to the setter (non-isothermal flag)."""
import sys, io, contextlib
from kawin.precipitation.PrecipitationParameters import TemperatureParameters
with contextlib.redirect_stdout(io.StringIO()):
    a = TemperatureParameters([0, 1], [500, 600])
    b = TemperatureParameters(); b.setTemperatureParameters([0, 1], [500, 600])
    c = TemperatureParameters(lambda t: 500 + t)
    d = TemperatureParameters(500)
print(a._isIsothermal, b._isIsothermal, c._isIsothermal, d._isIsothermal)
ok = (a._isIsothermal is False) and (b._isIsothermal is False) and (c._isIsothermal is False) and (d._isIsothermal is True)
sys.exit(0 if ok else 1)
