"""F04 (C11): the volume-change step limit must not depend on the order in which
the precipitate phases are listed."""
import sys
import numpy as np
from types import SimpleNamespace as NS
from kawin.precipitation.PrecipitationParameters import Constraints

def pbm(psd):
    b = np.linspace(1e-10, 1e-9, 11)
    return NS(PSD=np.array(psd, float), PSDsize=0.5*(b[1:]+b[:-1]), PSDbounds=b)
c = Constraints()
gb = NS(areaFactor=4*np.pi, volumeFactor=4*np.pi/3)
A = dict(pbm=pbm([1e20]*10), growth=np.full(11, 1e-9), nuc=1e20, rn=5e-10)   # fast-growing phase
B = dict(pbm=pbm([0]*10),    growth=np.zeros(11),      nuc=0.0,  rn=0.0)      # inert phase
def run(order):
    n = 0
    nucRate = np.array([[o['nuc'] for o in order]]); nucRad = np.array([[o['rn'] for o in order]])
    return c.computeDTfromVolume(n, nucRate, nucRad, [o['pbm'] for o in order], [o['growth'] for o in order],
                                 1e-5, [1e-5, 1e-5], [gb, gb], ['a', 'b'], 1e15)
d1, d2 = run([A, B]), run([B, A])
print('dt (A,B)=', d1, ' dt (B,A)=', d2)
sys.exit(0 if d1 == d2 else 1)
