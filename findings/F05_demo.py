"""F05 (C08): every *FromN moment depends only on the supplied distribution."""
import sys
import numpy as np
from kawin.precipitation.PopulationBalance import PopulationBalanceModel
pbm = PopulationBalanceModel()
N = np.ones(pbm.bins)
v = pbm.CumulativeWeightedMomentFromN(N, 0, np.ones(pbm.bins))
print('last cumulative value', v[-1], 'expected', float(pbm.bins))
sys.exit(0 if v[-1] == pbm.bins else 1)
