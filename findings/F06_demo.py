"""F06 (C04): setup() is called by every solve(); calling it again must not change
the mesh content of any component nor add records."""
import sys
import numpy as np
from kawin.diffusion import SinglePhaseModel
from kawin.diffusion.DiffusionParameters import CompositionProfile
cp = CompositionProfile()
cp.addLinearCompositionStep('CR', 0.077, 0.359)
cp.addLinearCompositionStep('AL', 0.054, 0.062)
m = SinglePhaseModel([-1e-3, 1e-3], 20, ['NI', 'CR', 'AL'], ['FCC_A1'], compositionProfile=cp)
m.constraints.minComposition = 1e-4
m.setup()
s0 = m.x.sum(axis=1).copy(); n0 = len(m._recordedTime)
for _ in range(3):
    m.setup()
s1 = m.x.sum(axis=1)
print('component sums before', s0, 'after 3 more setup() calls', s1, 'drift', s1 - s0)
sys.exit(0 if (np.array_equal(s0, s1) and len(m._recordedTime) == n0) else 1)
