"""F07 (C09): the composition cache of the diffusion models can be switched off."""
import sys
import numpy as np
from kawin.diffusion.DiffusionParameters import HashTable
h = HashTable()
h.enableCaching(False)
h.addToHashTable(np.array([0.1, 0.2]), 1000.0, 'stored')
r = h.retrieveFromHashTable(np.array([0.1, 0.2]), 1000.0)
print('retrieved with caching off:', r, ' entries:', len(h.cachedData))
h.enableCaching(True)
h.addToHashTable(np.array([0.1, 0.2]), 1000.0, 'stored')
r2 = h.retrieveFromHashTable(np.array([0.1, 0.2]), 1000.0)
sys.exit(0 if (r is None and len(h.cachedData) == 1 and r2 == 'stored') else 1)
