"""F08 (C09): getInterfacialComposition must not modify the Gibbs-Thomson array
passed by the caller."""
import sys
import numpy as np
from kawin.thermo import BinaryThermodynamics
from kawin.tests.datasets import ALZR_TDB
therm = BinaryThermodynamics(ALZR_TDB, ['AL', 'ZR'], ['FCC_A1', 'AL3ZR'], drivingForceMethod='tangent')
g = np.array([100.0, 200.0, 300.0]); g0 = g.copy()
a1 = therm.getInterfacialComposition(673.15, g)
a2 = therm.getInterfacialComposition(673.15, g)
print('caller array after two calls:', g)
ok = np.array_equal(g, g0) and np.array_equal(a1[0], a2[0])
sys.exit(0 if ok else 1)
