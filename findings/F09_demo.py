"""F09 (C15): aspect ratios below 1 are treated as 1 without modifying the caller's array."""
import sys
import numpy as np
from kawin.precipitation.parameters.ShapeFactors import NeedleDescription, PlateDescription, CuboidalDescription
ok = True
for D in (NeedleDescription, PlateDescription, CuboidalDescription):
    d = D()
    for fn in (d.normalRadii, d.eqRadiusFactor, d.kineticFactor, d.thermoFactor):
        ar = np.array([0.5, 2.0]); ar0 = ar.copy()
        out = fn(ar)
        ref = fn(np.array([1.0, 2.0]))
        if not np.array_equal(ar, ar0):
            print(D.__name__, fn.__name__, 'modified caller array ->', ar); ok = False
        if not np.allclose(out, ref):
            print(D.__name__, fn.__name__, 'value differs from ar=1'); ok = False
sys.exit(0 if ok else 1)
