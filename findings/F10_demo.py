"""F10 (C17): post-processing options act on the phase the user named and work
in single-phase regions. FCC_A1/BCC_A2 Fe-Cr-Ni database from the test data."""
import sys
import numpy as np
from kawin.thermo import GeneralThermodynamics
from kawin.tests.datasets import FECRNI_DB
from kawin.diffusion.DiffusionParameters import computeMobility
from kawin.diffusion.HomogenizationParameters import HomogenizationParameters, computeHomogenizationFunction

therm = GeneralThermodynamics(FECRNI_DB, ['FE', 'CR', 'NI'], ['FCC_A1', 'BCC_A2'])
T = 1100 + 273.15
x_bcc = [0.60, 0.02]       # single-phase BCC_A2
x_two = [0.30, 0.10]       # FCC_A1 + BCC_A2
ok = True
for x in (x_bcc, x_two):
    md = computeMobility(therm, x, T)
    print('stable phases at', x, ':', md.phases[0] if hasattr(md.phases[0], '__len__') and not isinstance(md.phases[0], str) else md.phases)
ref, _ = computeHomogenizationFunction(therm, x_bcc, T, HomogenizationParameters('wiener upper'))
try:
    a, _ = computeHomogenizationFunction(therm, x_bcc, T, HomogenizationParameters('wiener upper', postProcessFunction='predefined', postProcessArgs='BCC_A2'))
    print('predefined BCC_A2 at single-phase BCC point:', a, 'reference', ref)
    ok &= bool(np.allclose(a, ref))
except IndexError as e:
    print('predefined: IndexError', e); ok = False
try:
    b, _ = computeHomogenizationFunction(therm, x_bcc, T, HomogenizationParameters('wiener upper', postProcessFunction='exclude', postProcessArgs=['FCC_A1']))
    print('exclude FCC_A1 (absent) at single-phase BCC point:', b)
    ok &= bool(np.allclose(b, ref))      # excluding an absent phase must change nothing
    c, _ = computeHomogenizationFunction(therm, x_bcc, T, HomogenizationParameters('wiener upper', postProcessFunction='exclude', postProcessArgs=['BCC_A2']))
    print('exclude BCC_A2 at single-phase BCC point:', c)
    ok &= bool(np.all(c == 0))           # the only phase present is excluded
except IndexError as e:
    print('exclude: IndexError', e); ok = False
sys.exit(0 if ok else 1)
