"""F11 (C19): a stopping condition polled by the precipitation model must read the
model's step index and time (they live on model.pData) and latch with an
interpolated time."""
import sys
import numpy as np
from kawin.precipitation.KWNEuler import PrecipitateModel
from kawin.precipitation.StoppingConditions import VolumeFractionCondition, CompositionCondition, Inequality

m = PrecipitateModel(phases=['beta'], elements=['B'])
m.pData.time[0] = 0.0; m.pData.volFrac[0, 0] = 0.0
Y = m.pData.copySlice(0); Y.time[0] = 10.0; Y.volFrac[0, 0] = 0.02; Y.composition[0, 0] = 0.001
m.pData.appendToArrays(Y)
c = VolumeFractionCondition(Inequality.GREATER_THAN, 0.01)
d = CompositionCondition(Inequality.LESSER_THAN, -1.0)
try:
    c.testCondition(m); d.testCondition(m)
except AttributeError as e:
    print('internal error:', e); sys.exit(1)
print(c.isSatisfied(), c.satisfiedTime(), d.isSatisfied())
sys.exit(0 if (c.isSatisfied() and abs(c.satisfiedTime() - 5.0) < 1e-12 and not d.isSatisfied()) else 1)
