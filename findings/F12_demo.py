"""F12 (C16): the strain energy must not depend on the order in which the rotation
and the stiffness were supplied."""
import sys
import numpy as np
from kawin.precipitation.parameters.ElasticFactors import StrainEnergy
c = np.cos(np.pi/6); s = np.sin(np.pi/6)
rot = [[c, -s, 0], [s, c, 0], [0, 0, 1]]
def make(order):
    se = StrainEnergy(); se.setEllipsoidal(); se.setEigenstrain(0.01)
    for step in order:
        if step == 'R': se.setRotationMatrix(rot)
        if step == 'C': se.setElasticConstants(168.4e9, 121.4e9, 75.4e9)
        if step == 'P': se.setElasticConsantsPrecipitate(200e9, 130e9, 80e9)
        if step == 'Q': se.setRotationPrecipitate(rot)
    return se
a, b = make('RC'), make('CR')
print('C11 rotation->constants', a.params.cMatrix_2nd[0, 0], ' constants->rotation', b.params.cMatrix_2nd[0, 0])
ok = np.allclose(a.params.cMatrix_2nd, b.params.cMatrix_2nd)
r = np.array([2e-9, 1e-9, 1e-9])
ea, eb = a.compute(r), b.compute(r)
print('energies', ea, eb); ok &= bool(np.isclose(ea, eb))
a, b = make('QCP'), make('CPQ')
ok &= bool(np.allclose(a.params.cPrec_2nd, b.params.cPrec_2nd))
print('prec C11', a.params.cPrec_2nd[0, 0], b.params.cPrec_2nd[0, 0])
sys.exit(0 if ok else 1)
