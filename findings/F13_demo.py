"""F13 (C18): every strength contribution and the combined precipitate strength
are non-negative, also for radii below half the dislocation core radius."""
import sys
import numpy as np
from kawin.precipitation.coupling import StrengthModel
sm = StrengthModel()
G, b, nu = 79.3e9, 0.25e-9, 1/3
sm.setDislocationParameters(G, b, nu, 2*b, theta=90, psi=120)
sm.setCoherencyParameters(0.001)
sm.setTaylorFactor(2.24)
r = np.array([0.05e-9, 1e-9]); Ls = np.array([20e-9, 20e-9])
weak, strong, oro, _ = sm.getStrengthContributions(r, Ls)
total = sm.combineStrengthContributions(weak, strong, oro)
print('orowan', oro, 'combined', total)
sys.exit(0 if (np.all(oro >= 0) and np.all(total >= 0)) else 1)
