"""F14 (C20): an untrained surrogate returns exactly what the underlying
thermodynamics returns for the same quantity (here: tracer diffusivity)."""
import sys
import numpy as np
from kawin.thermo import BinaryThermodynamics, BinarySurrogate
from kawin.tests.datasets import ALZR_TDB
therm = BinaryThermodynamics(ALZR_TDB, ['AL', 'ZR'], ['FCC_A1', 'AL3ZR'], drivingForceMethod='approximate')
surr = BinarySurrogate(therm)
a = surr.getTracerDiffusivity(0.004, 673.15)
b = therm.getTracerDiffusivity(0.004, 673.15)
print('surrogate', a, 'thermodynamics', b)
sys.exit(0 if (np.shape(a) == np.shape(b) and np.array_equal(a, b)) else 1)
