"""F15 (C03): if the growth/equilibrium query transiently returns None at a
positive driving force, the multicomponent growth routine must fall back to the
previous values (as its comments document) instead of raising an internal error.
Real PrecipitateModel._singleGrowthMulti; thermodynamics stubbed to fail once."""
import sys
import numpy as np
from kawin.precipitation.KWNEuler import PrecipitateModel

class Therm:
    numElements = 3
    def getGrowthAndInterfacialComposition(self, *a, **k):
        return None

m = PrecipitateModel(phases=['beta'], elements=['B', 'C'], thermodynamics=Therm())
m.precipitateParameters[0].gamma = 0.1
m.precipitateParameters[0].volume.Vm = 1e-5
m.PSDXalpha = [None]; m.PSDXbeta = [None]
m.growth = [np.full(m.PBM[0].bins + 1, 1e-12)]
Y = m.pData.copySlice(0)
Y.drivingForce[0, 0] = 5e7; Y.precipitateDensity[0, 0] = 1e18
Y.xEqAlpha[0, 0] = [0.01, 0.02]; Y.xEqBeta[0, 0] = [0.2, 0.3]
try:
    g, xa, xb = m._singleGrowthMulti(0, Y)
except UnboundLocalError as e:
    print('internal error:', e); sys.exit(1)
print(g[:2], xa, xb)
ok = np.all(g == 1e-12) and np.allclose(xa, [0.01, 0.02]) and np.allclose(xb, [0.2, 0.3])
sys.exit(0 if ok else 1)
