"""F16 (C14/C02): when the driving force is negative the nucleation rate (and the
barrier, critical radius, impingement, nucleation radius) recorded for the step
must be zero, not the values left in the reused slice from the previous step.
Real KWNBase._calcNucleationRate; the thermodynamics object is a stub that
reports a negative chemical driving force."""
import sys
import numpy as np
from kawin.precipitation.KWNEuler import PrecipitateModel

class Therm:
    numElements = 2
    def getDrivingForce(self, x, T, precPhase=None, removeCache=False):
        return np.array([-1000.0]), np.array([0.25])

m = PrecipitateModel(phases=['beta'], elements=['B'], thermodynamics=Therm())
m.precipitateParameters[0].gamma = 0.1
m.precipitateParameters[0].volume.Vm = 1e-5
m.matrixParameters.volume.Vm = 1e-5
Y = m.pData.copySlice(0)
Y.composition[0] = 0.01; Y.temperature[0] = 700
# values of the previous step (supersaturated state)
Y.Rcrit[0, 0] = 1e-9; Y.Gcrit[0, 0] = 1e-19; Y.impingement[0, 0] = 10.0; Y.nucRate[0, 0] = 1.25e23; Y.Rnuc[0, 0] = 1.1e-9
Y = m._calcNucleationRate(1.0, [np.zeros(m.PBM[0].bins)], Y)
print('dG', Y.drivingForce[0, 0], 'nucRate', Y.nucRate[0, 0], 'Rcrit', Y.Rcrit[0, 0], 'Gcrit', Y.Gcrit[0, 0], 'beta', Y.impingement[0, 0], 'Rnuc', Y.Rnuc[0, 0])
ok = Y.drivingForce[0, 0] < 0 and all(v == 0 for v in (Y.nucRate[0, 0], Y.Rcrit[0, 0], Y.Gcrit[0, 0], Y.impingement[0, 0], Y.Rnuc[0, 0]))
sys.exit(0 if ok else 1)
