"""F17 (C20): a diffusion model saved with recording switched off can be loaded
into a freshly constructed model of the same configuration."""
import sys, os, tempfile
import numpy as np
from kawin.diffusion import SinglePhaseModel
from kawin.diffusion.DiffusionParameters import CompositionProfile
def make():
    cp = CompositionProfile()
    cp.addLinearCompositionStep('CR', 0.077, 0.359)
    cp.addLinearCompositionStep('AL', 0.054, 0.062)
    return SinglePhaseModel([-1e-3, 1e-3], 20, ['NI', 'CR', 'AL'], ['FCC_A1'], compositionProfile=cp, record=False)
m = make(); m.setup(); m.t = 12.5
d = tempfile.mkdtemp(); f = os.path.join(d, 'diff')
m.save(f)
m2 = make()
try:
    m2.load(f)
except ValueError as e:
    print('cannot load:', e); sys.exit(1)
finally:
    os.remove(f + '.npz'); os.rmdir(d)
print('t', m2.t, 'x equal', np.array_equal(m.x, m2.x))
sys.exit(0 if (m2.t == 12.5 and np.array_equal(m.x, m2.x)) else 1)
