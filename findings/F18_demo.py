"""F18 (C12, known finding): with a non-zero elastic strain energy the multicomponent growth law does not change sign at the
critical radius used for nucleation.  Uses the real kawin functions of the chain (volumetricDrivingForce, nucleationBarrier,
computeGibbsThomsonContribution, _growthRateOutputFromCurvature); only the thermodynamic backend is a stub returning a
fixed chemical driving force.  Exit 0 if growth changes sign at Rcrit, 1 otherwise."""
import sys
import numpy as np
from kawin.precipitation.PrecipitationParameters import PrecipitateParameters
from kawin.precipitation import NucleationRate as nuc
from kawin.thermo.MultiTherm import _growthRateOutputFromCurvature, CurvatureOutput

class Therm:
    numElements = 3
    def getDrivingForce(self, x, T, precPhase=None, removeCache=False):
        return np.array([500.0]), np.array([[0.2, 0.1]])         # J/mol

ok = True
for Eel in (0.0, 1e7):
    prec = PrecipitateParameters('beta')
    prec.gamma = 0.023
    prec.volume.Vm = 1e-5
    prec.strainEnergy.setConstantElasticEnergy(Eel)
    _, volDG, _ = nuc.volumetricDrivingForce(Therm(), [0.1, 0.05], 1073.0, prec)
    Rcrit, _ = nuc.nucleationBarrier(volDG, prec)
    R = np.linspace(0.5*Rcrit, 4*Rcrit, 200001)
    curv = CurvatureOutput(dc=np.zeros(2), mc=1e-20, gba=np.zeros((2, 2)), beta=1.0, c_eq_alpha=np.array([0.1, 0.05]), c_eq_beta=np.array([0.2, 0.1]))
    out = _growthRateOutputFromCurvature([0.1, 0.05], volDG*prec.volume.Vm, R, prec.computeGibbsThomsonContribution(R), curv)
    g = out.growth_rate
    i = np.argmax(g > 0)
    R0 = R[i]
    print(f'E_el = {Eel:.1e} J/m3: Rcrit = {float(Rcrit):.4e} m, growth changes sign at {R0:.4e} m = {R0/float(Rcrit):.3f} * Rcrit')
    ok &= abs(R0/float(Rcrit) - 1) < 1e-3
sys.exit(0 if ok else 1)
