"""F19 (C06): an iterator never modifies the state vector it was given - also for a
right-hand side that returns (a view of) its own argument, e.g. dy/dt = y written as
`lambda t, y: y`.  Direct use of the public iterator API."""
import sys
import numpy as np
from kawin.solver.Iterators import RK4Iterator, ExplicitEulerIterator

def f(t, X, getDt=False):
    return (X, 0.1) if getDt else X          # dy/dt = y, returned without copying
upd = lambda x, d, h: x + d*h
ok = True
for it in (ExplicitEulerIterator, RK4Iterator):
    X = np.array([1.0, 2.0]); X0 = X.copy()
    Xn, dt = it(f, 0.0, X, upd)
    print(it.__name__, 'state given:', X0, 'state after the call:', X, 'new state:', Xn, 'exact:', X0*np.exp(0.1))
    ok &= bool(np.array_equal(X, X0)) and bool(np.allclose(Xn, X0*np.exp(0.1), rtol=1e-2))
sys.exit(0 if ok else 1)
