"""F20 (C15): every factor of every shape (including cuboidal) is continuous at aspect ratio 1."""
import sys
import numpy as np
from kawin.precipitation.parameters.ShapeFactors import CuboidalDescription, NeedleDescription, PlateDescription
ok = True
for D in (NeedleDescription, PlateDescription, CuboidalDescription):
    d = D()
    for fn in (d.eqRadiusFactor, d.kineticFactor, d.thermoFactor):
        a, b = float(fn(1.0)), float(fn(1.0 + 1e-6))
        if abs(a - b) > 1e-3 * max(abs(a), abs(b)):
            print(f'{D.__name__}.{fn.__name__}: value at 1 is {a:.5f}, just above 1 it is {b:.5f}'); ok = False
sys.exit(0 if ok else 1)
