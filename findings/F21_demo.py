"""F21 (C16): the sphere quadrature integrates polynomials up to its stated order exactly
(checked here on low-degree monomials whose sphere averages are known in closed form)."""
import sys
import numpy as np
from kawin.precipitation.parameters.LebedevNodes import loadPoints
ok = True
for order in (53, 83, 131):
    phi, theta, w = loadPoints(order)
    x, y, z = np.sin(theta)*np.cos(phi), np.sin(theta)*np.sin(phi), np.cos(theta)
    exact = {'1': 1.0, 'x^2': 1/3, 'z^2': 1/3, 'x^2 y^2': 1/15, 'x^2 z^2': 1/15, 'z^4': 1/5, 'x^2 y^2 z^2': 1/105, 'x^4 y^2': 1/35, 'z^6': 1/7}
    vals = {'1': np.sum(w), 'x^2': np.sum(w*x**2), 'z^2': np.sum(w*z**2), 'x^2 y^2': np.sum(w*x**2*y**2), 'x^2 z^2': np.sum(w*x**2*z**2),
            'z^4': np.sum(w*z**4), 'x^2 y^2 z^2': np.sum(w*x**2*y**2*z**2), 'x^4 y^2': np.sum(w*x**4*y**2), 'z^6': np.sum(w*z**6)}
    for k in exact:
        err = abs(vals[k] - exact[k])
        if err > 1e-10:
            print(f'order {order}: <{k}> = {vals[k]:.12f}, exact {exact[k]:.12f}, error {err:.2e}'); ok = False
    # all points distinct
    pts = np.round(np.stack([x, y, z], axis=1), 9)
    if len(np.unique(pts, axis=0)) != len(pts):
        print(f'order {order}: {len(pts) - len(np.unique(pts, axis=0))} duplicated quadrature points'); ok = False
sys.exit(0 if ok else 1)
