"""F22 (C20): a MulticomponentSurrogate whose diffusivity model was trained cannot be rebuilt from its JSON file:
json returns lists, and _fitDiffusivity reads dnkj.shape for more than two components.
Run from the repository root: PYTHONPATH=<tree> /venv/bin/python F22_demo.py ; exits 0 if the rebuilt surrogate gives the
predictions of the original, 1 otherwise."""
import os, sys, tempfile
import numpy as np
from kawin.thermo import MulticomponentThermodynamics
from kawin.thermo.Surrogate import MulticomponentSurrogate
from kawin.tests.datasets import NICRAL_TDB

therm = MulticomponentThermodynamics(NICRAL_TDB, ['NI', 'CR', 'AL'], ['FCC_A1', 'FCC_L12'])
surr = MulticomponentSurrogate(therm)
T = [1073.15, 1123.15]
x = [[0.06, 0.08], [0.06, 0.1], [0.06, 0.12], [0.08, 0.08], [0.08, 0.1], [0.08, 0.12], [0.1, 0.08], [0.1, 0.1], [0.1, 0.12]]
surr.trainDiffusivity(x, T)
xq = np.array([[0.08, 0.1]])
d1 = surr.getInterdiffusivity(xq, T[0] + 25)
fn = os.path.join(tempfile.mkdtemp(), 'nicral_diff')
surr.toJson(fn)
surr2 = MulticomponentSurrogate(therm)
try:
    surr2.fromJson(fn)
    d2 = surr2.getInterdiffusivity(xq, T[0] + 25)
except Exception as e:
    print('rebuilding the surrogate from its file failed:', type(e).__name__, e)
    sys.exit(1)
ok = np.allclose(d1, d2, rtol=1e-8, atol=0)
print('original', np.ravel(d1), 'rebuilt', np.ravel(d2), 'equal' if ok else 'DIFFERENT')
sys.exit(0 if ok else 1)
