"""F23 (C20): once its diffusivity model is trained, a multicomponent surrogate rejects the documented single-point input
forms (a list or a 1-D array of shape (e,)) that the untrained surrogate - the underlying thermodynamics - accepts:
getInterdiffusivity / getTracerDiffusivity index x.shape[1] of the argument as given.  A trained surrogate can therefore
not even be asked for its own training points one at a time.
Run: PYTHONPATH=<tree> /venv/bin/python F23_demo.py ; exits 0 if all documented input forms work and agree, 1 otherwise."""
import sys
import numpy as np
from kawin.thermo import MulticomponentThermodynamics
from kawin.thermo.Surrogate import MulticomponentSurrogate
from kawin.tests.datasets import NICRAL_TDB

therm = MulticomponentThermodynamics(NICRAL_TDB, ['NI', 'CR', 'AL'], ['FCC_A1', 'FCC_L12'])
surr = MulticomponentSurrogate(therm)
T = [1073.15, 1123.15]
x = [[0.06, 0.08], [0.06, 0.1], [0.06, 0.12], [0.08, 0.08], [0.08, 0.1], [0.08, 0.12], [0.1, 0.08], [0.1, 0.1], [0.1, 0.12]]
surr.getInterdiffusivity([0.08, 0.1], 1100)        # untrained: a list is fine
surr.trainDiffusivity(x, T)
bad = 0
for fn in ('getInterdiffusivity', 'getTracerDiffusivity'):
    ref = getattr(surr, fn)(np.array([[0.08, 0.1]]), 1100)
    for q in ([0.08, 0.1], np.array([0.08, 0.1])):
        try:
            r = getattr(surr, fn)(q, 1100)
            if not np.allclose(r, ref, rtol=1e-12, atol=0):
                print(fn, type(q).__name__, 'differs from the (1, e) query')
                bad += 1
        except Exception as e:
            print(fn, type(q).__name__, np.shape(q), 'raised', type(e).__name__, e)
            bad += 1
sys.exit(1 if bad else 0)
