"""F24 (C08, also C03): with adaptive binning switched off and recording switched on, PopulationBalanceModel.record pads the
recorded arrays (initial width maxBins) to the *current* number of classes, which is smaller: np.pad gets a negative width
and every update raises ValueError.  (The method carries a TODO 'make sure this works when adaptive bins is False'.)
Run: PYTHONPATH=<tree> /venv/bin/python F24_demo.py ; exits 0 if updates are recorded in both modes, 1 otherwise."""
import sys
import numpy as np
from kawin.precipitation.PopulationBalance import PopulationBalanceModel

bad = 0
for adaptive in (True, False):
    pbm = PopulationBalanceModel(1e-10, 1e-8, 75)
    pbm.setAdaptiveBinSize(adaptive)
    pbm.enableRecording()
    try:
        pbm.UpdatePBMEuler(1.0, np.ones(75) * 5)
        pbm.addSizeClasses(10)                                   # the grid may still be extended when adaptive is off
        pbm.UpdatePBMEuler(2.0, np.ones(85) * 6)
        rows = pbm._recordedPSD.shape[0]
        ok = rows == 3 and np.all(pbm._recordedPSD[1][:75] == 5) and np.all(pbm._recordedPSD[2][:85] == 6) \
            and np.allclose(pbm._recordedBins[2][:86], pbm.PSDbounds) and list(pbm._recordedTime) == [0, 1, 2]
        print('adaptive', adaptive, 'recorded', pbm._recordedPSD.shape, 'ok' if ok else 'WRONG CONTENT')
        bad += 0 if ok else 1
    except Exception as e:
        print('adaptive', adaptive, 'update raised', type(e).__name__, e)
        bad += 1
sys.exit(1 if bad else 0)
