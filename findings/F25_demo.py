"""F25 (C14): for grain-boundary, edge and corner sites the nucleation barrier becomes negative (and passes through exactly 0,
which the rate code reads as 'no nucleation') once the critical radius is raised to the minimum radius at high driving
force: NucleationBarrierParameters.Gcrit evaluates R^2*(A - c*dG*R) at the clamped radius, while the bulk/dislocation
branch evaluates the barrier of the clamped radius as (4*pi/3)*gamma*R^2, which stays positive.  With the geometric
identity A = 3*c*gamma both should be c*gamma*R^2 = spherical barrier * volumeFactor/(4*pi/3).
Run: PYTHONPATH=<tree> /venv/bin/python F25_demo.py ; exits 0 if the barrier is non-negative and equals the spherical barrier
times volumeFactor/(4 pi/3) for every site type and driving force, 1 otherwise."""
import sys
import numpy as np
from kawin.precipitation.PrecipitationParameters import PrecipitateParameters
from kawin.precipitation import NucleationRate as nr

dG = np.array([1e8, 5e8, 1e9, 3e9, 1e10])
ref = PrecipitateParameters('beta')
ref.gamma = 0.1
ref.volume.setVolume(1e-5, 'VM', 4)
Rb, Gb = nr.nucleationBarrier(dG, ref)
bad = 0
for site in ('grain boundaries', 'grain edges', 'grain corners'):
    p = PrecipitateParameters('beta')
    p.gamma = 0.1
    p.volume.setVolume(1e-5, 'VM', 4)
    p.nucleation.setNucleationType(site)
    p.nucleation.gbEnergy = 0.1
    p.nucleation.gamma = 0.1
    R, G = nr.nucleationBarrier(dG, p)
    want = Gb * p.nucleation.volumeFactor / (4 * np.pi / 3)
    ok = np.all(G > 0) and np.allclose(G, want, rtol=1e-9, atol=0) and np.allclose(R, Rb)
    print(site, 'Gcrit', G, 'expected', want, 'ok' if ok else 'VIOLATION')
    bad += 0 if ok else 1
sys.exit(1 if bad else 0)
