"""F26 (C08): reset() - and through it changeSizeClasses() - overwrites the backup buffers with zeros, so any sequence that
reaches revert() afterwards (backup -> re-mesh -> revert, or reset -> revert) leaves a grid whose boundaries are all zero:
not increasing, min == max == 0, centres zero.
Run: PYTHONPATH=<tree> /venv/bin/python F26_demo.py ; exits 0 if after every sequence the grid is consistent (boundaries
strictly increasing from min to max, centres are midpoints, lengths match the class count), 1 otherwise."""
import sys
import numpy as np
from kawin.precipitation.PopulationBalance import PopulationBalanceModel


def consistent(p):
    b = p.PSDbounds
    return (len(b) == p.bins + 1 and len(p.PSD) == p.bins and len(p.PSDsize) == p.bins and np.all(np.diff(b) > 0)
            and b[0] == p.min and b[-1] == p.max and np.allclose(p.PSDsize, 0.5 * (b[1:] + b[:-1])) and np.all(p.PSD >= 0))


bad = 0
for name, ops in (('backup, re-mesh, revert', ['backup', 'remesh', 'revert']), ('reset, revert', ['reset', 'revert']),
                  ('backup, extend, re-mesh, revert', ['backup', 'extend', 'remesh', 'revert']), ('construct, revert', ['revert'])):
    p = PopulationBalanceModel(1e-10, 1e-8, 50)
    p.PSD = np.exp(-((p.PSDsize - 4e-9) / 1e-9)**2)
    for op in ops:
        if op == 'backup':
            p.createBackup()
        elif op == 'remesh':
            p.changeSizeClasses(1e-10, 2e-8, 80)
        elif op == 'extend':
            p.addSizeClasses(5)
        elif op == 'reset':
            p.reset()
        elif op == 'revert':
            p.revert()
    ok = consistent(p)
    print(f'{name}: bounds [{p.PSDbounds[0]:.3g} .. {p.PSDbounds[-1]:.3g}], bins {p.bins} ->', 'consistent' if ok else 'VIOLATION')
    bad += 0 if ok else 1
sys.exit(1 if bad else 0)
