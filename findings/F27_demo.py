"""F27 (C16): the 6x6 (Voigt) variants of the Eshelby strain energy disagree with the fourth-rank ones as soon as the eigenstrain
has a shear component: convert2rankToVec stores the tensor shear strains e23, e13, e12 (not the engineering shears 2*e_ij), so
the 6x6 products count every shear term once where the fourth-rank contraction counts it twice.
Run: PYTHONPATH=<tree> /venv/bin/python F27_demo.py ; exits 0 if strainEnergyEllipsoid == strainEnergyEllipsoid2ndRank and
strainEnergyBohm == strainEnergyBohm2ndRank for diagonal and for sheared eigenstrains, 1 otherwise."""
import sys
import numpy as np
from kawin.precipitation.parameters.ElasticFactors import StrainEnergy

bad = 0
for name, eig in (('dilatational', 0.01 * np.eye(3)),
                  ('diagonal, unequal', np.diag([0.01, 0.02, -0.005])),
                  ('with shear', np.array([[0.01, 0.004, 0.0], [0.004, 0.01, 0.002], [0.0, 0.002, 0.01]])),
                  ('pure shear', np.array([[0.0, 0.01, 0.0], [0.01, 0.0, 0.0], [0.0, 0.0, 0.0]]))):
    se = StrainEnergy()
    se.setEllipsoidal()
    se.setElasticConstants(168.4e9, 121.4e9, 75.4e9)
    se.setElasticConsantsPrecipitate(200e9, 130e9, 90e9)
    se.setEigenstrain(eig)
    se.update()
    r = np.array([2e-9, 3e-9, 5e-9])
    d = se.description
    e4, e2 = d.strainEnergyEllipsoid(r), d.strainEnergyEllipsoid2ndRank(r)
    b4, b2 = d.strainEnergyBohm(r), d.strainEnergyBohm2ndRank(r)
    ok = np.isclose(e4, e2, rtol=1e-9, atol=0) and np.isclose(b4, b2, rtol=1e-9, atol=0)
    print(f'{name}: ellipsoid 4th {e4:.6e} / 6x6 {e2:.6e}; Bohm 4th {b4:.6e} / 6x6 {b2:.6e} ->', 'equal' if ok else 'VIOLATION')
    bad += 0 if ok else 1
sys.exit(1 if bad else 0)
