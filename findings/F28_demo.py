"""F28 (C19): a stopping condition that already holds at the state before the step on which it is first tested (true at
the initial state, or registered mid-run) gets its time by *extra*polation: testCondition interpolates between the previous
and the current value although the threshold does not lie between them, so the reported time falls outside the step
(hours of difference, negative or infinite values).
Run: PYTHONPATH=<tree> /venv/bin/python F28_demo.py ; exits 0 if every reported time lies in [t_prev, t_curr] of the step
on which the condition was latched, 1 otherwise."""
import sys
import numpy as np
from kawin.precipitation.PrecipitationParameters import PrecipitationData
from kawin.precipitation.StoppingConditions import VolumeFractionCondition, DrivingForceCondition, Inequality


class Model:
    """the part of the precipitation model a stopping condition reads"""
    def __init__(self, times, volFrac, dG):
        self.phases = np.array(['beta'])
        self.elements = ['A']
        self.pData = PrecipitationData(self.phases, self.elements, N=len(times))
        self.pData.time[:] = times
        self.pData.volFrac[:, 0] = volFrac
        self.pData.drivingForce[:, 0] = dG
        self.pData.n = 0

    def phaseIndex(self, phase=None):
        return 0


bad = 0
cases = [('volume fraction already above the threshold at t0', VolumeFractionCondition(Inequality.GREATER_THAN, 0.01), [0.0, 10.0, 20.0], [0.02, 0.0201, 0.03], [5.0, 5.0, 5.0]),
         ('driving force positive from the start', DrivingForceCondition(Inequality.GREATER_THAN, 0), [0.0, 1.0, 2.0], [0, 0, 0], [1000.0, 1000.0 + 1e-9, 900.0]),
         ('ordinary crossing inside the second step', VolumeFractionCondition(Inequality.GREATER_THAN, 0.01), [0.0, 10.0, 20.0], [0.0, 0.005, 0.015], [5.0, 5.0, 5.0])]
for name, cond, t, fv, dg in cases:
    m = Model(t, fv, dg)
    latched = None
    for n in range(1, len(t)):
        m.pData.n = n
        cond.testCondition(m)
        if cond.isSatisfied() and latched is None:
            latched = n
    ts = cond.satisfiedTime()
    ok = latched is not None and t[latched - 1] <= ts <= t[latched]
    print(f'{name}: latched on step {latched} [{t[latched - 1] if latched else "-"}, {t[latched] if latched else "-"}], reported time {ts} ->', 'inside the step' if ok else 'VIOLATION')
    bad += 0 if ok else 1
sys.exit(1 if bad else 0)
