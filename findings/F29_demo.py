"""F29 (C17, also C09): the post-process functions of the homogenization model write into the arrays they are given; those arrays
belong to the mobility record that is kept in the cache (HashTable) of the diffusion models.  After one evaluation of a point
with 'majority' / 'predefined' / 'exclude', every later evaluation of the *same point* through that table - with any other
post-processing, or computeMobility itself - starts from the modified data: evaluating the same point twice gives different
answers and the cached phase fractions no longer sum to one.
Run: PYTHONPATH=<tree> /venv/bin/python F29_demo.py ; exits 0 if a point evaluated again after an intervening evaluation with
another post-processing mode returns what it returned before (and the cached record is unchanged), 1 otherwise."""
import sys
import warnings
warnings.filterwarnings('ignore')
import numpy as np
from kawin.thermo import GeneralThermodynamics
from kawin.tests.datasets import NICRAL_TDB
from kawin.diffusion.DiffusionParameters import computeMobility, HashTable
from kawin.diffusion.HomogenizationParameters import HomogenizationParameters as HP, computeHomogenizationFunction

T = 1073
therm = GeneralThermodynamics(NICRAL_TDB, ['NI', 'CR', 'AL'], ['FCC_A1', 'BCC_A2'])
x = [0.45, 0.05]          # two-phase point, BCC_A2 has an undefined (-1) mobility entry
bad = 0
for mode, args in (('majority', []), ('predefined', ['FCC_A1']), ('exclude', ['BCC_A2'])):
    table = HashTable()
    first = np.array(computeHomogenizationFunction(therm, x, T, HP(HP.WIENER_UPPER), table)[0])
    rec0 = computeMobility(therm, x, T, table)
    mob0, frac0 = np.array(rec0.mobility[0]), np.array(rec0.phase_fractions[0])
    computeHomogenizationFunction(therm, x, T, HP(HP.WIENER_UPPER, postProcessFunction=mode, postProcessArgs=args), table)
    again = np.array(computeHomogenizationFunction(therm, x, T, HP(HP.WIENER_UPPER), table)[0])
    rec1 = computeMobility(therm, x, T, table)
    same_value = np.array_equal(first, again)
    same_record = np.array_equal(mob0, rec1.mobility[0]) and np.array_equal(frac0, rec1.phase_fractions[0])
    print(f'{mode:10s}: upper Wiener before {first}, after one {mode} evaluation of the same point {again}; '
          f'cached fractions {frac0} -> {np.array(rec1.phase_fractions[0])} :', 'same' if same_value and same_record else 'VIOLATION')
    bad += 0 if same_value and same_record else 1
sys.exit(1 if bad else 0)
