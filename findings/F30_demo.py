"""F30 (C14): the factor evaluator computes the geometric factors only for energy ratios k < maxRatio and leaves the sentinel -1
elsewhere, while the validator of NucleationBarrierParameters rejects only k > maxRatio.  At k == maxRatio exactly (gamma =
gbEnergy / 2 on grain boundaries, i.e. gamma = 0.15 with the default gbEnergy 0.3) the validation passes and the sentinel is
used as area / volume / removal factor: the factors are negative (and the Zeldovich factor and rate computed from them are nan).
Run: PYTHONPATH=<tree> /venv/bin/python F30_demo.py ; exits 0 if for every site type and k at the limit the parameters are
either rejected (ValueError) or give non-negative factors and a finite non-negative critical radius and barrier, 1 otherwise."""
import sys
import warnings
warnings.filterwarnings('ignore')
import numpy as np
from kawin.precipitation.parameters.Nucleation import (NucleationBarrierParameters, GrainBoundaryDescription, GrainEdgeDescription,
                                                       GrainCornerDescription)

bad = 0
for desc in (GrainBoundaryDescription(), GrainEdgeDescription(), GrainCornerDescription()):
    # a grain-boundary energy for which the ratio computed by the class equals the limit exactly (not one rounding below it)
    gb = next(g for g in (0.3, 0.2, 0.25, 0.4, 0.5, 0.6, 0.35, 0.45) if g / (2 * (g / (2 * desc.maxRatio))) == desc.maxRatio)
    gamma = gb / (2 * desc.maxRatio)
    nb = NucleationBarrierParameters(site=desc, gamma=gamma, gbEnergy=gb)
    k = gb / (2 * gamma)
    try:
        fs = [float(nb.areaFactor), float(nb.volumeFactor), float(nb.gbRemoval)]
        Rc = nb.Rcrit(1e9)
        Gc = nb.Gcrit(1e9, Rc)
        ok = all(f >= 0 for f in fs) and np.isfinite(Gc) and Gc >= 0 and np.isfinite(Rc) and Rc >= 0
        print(f'{desc.name}: k = {k!r} (limit {desc.maxRatio!r}) accepted; area/volume/removal factors {fs}, Rcrit {float(np.squeeze(Rc)):.3g}, Gcrit {float(np.squeeze(Gc)):.3g} ->',
              'ok' if ok else 'VIOLATION')
        bad += 0 if ok else 1
    except ValueError as e:
        print(f'{desc.name}: k = {k!r} rejected: {str(e)[:60]}... -> ok')
sys.exit(1 if bad else 0)
