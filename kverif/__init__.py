"""kverif - repository-specific static analysis deciding the kawin properties C01..C20.

Nothing in this package imports or executes kawin: every rule works on the
abstract syntax trees of /repo's current working tree (or of an in-memory
overlay of it, used by the self-test).
"""
