"""Command line: python3-vt -m kverif check <Cxx> [--tier quick|thorough] [--root DIR]"""
from __future__ import annotations
import argparse
import importlib
import json
import os
import sys
import time
import traceback

from .source import Repo, AnalysisError
from .index import Index
from .purity import Purity
from . import report

LEVELS = {
    'C05': 'proof',
    'C06': 'proof',
}
CHECKER_CMD = 'python3-vt -m kverif check {id} --tier {tier}'
TRUSTED = ['CPython ast parser', 'kverif rule engine (this repository, /verif/kverif)', 'sympy 1.x exact rational arithmetic']


def run_property(pid, tier, root=None, overlay=None, write=True, quiet=False, seed=0):
    t0 = time.time()
    repo = Repo(root, overlay)
    ctx = report.Ctx(pid, repo, tier=tier, seed=seed)
    try:
        index = Index(repo)
        purity = Purity(repo, index)
        mod = importlib.import_module(f'kverif.rules.{pid}')
        mod.check(repo, ctx, index, purity)
        ctx.analysed['call_sites'] = purity.resolved_calls
        shared_templates(pid, repo, ctx)
        ctx.extra['normalisation'] = {'steps': len(getattr(repo, 'norm_log', []) or []), 'error': getattr(repo, 'norm_error', None)}
        if getattr(repo, 'norm_error', None):
            ctx.advisory(f'normalisation pass failed ({repo.norm_error}); the rules ran on the tree as written')
    except AnalysisError as e:
        ctx.undecided('engine', '', '', 0, f'{type(e).__name__}: {e}')
    except Exception as e:                       # a traceback must never look like a violation
        ctx.undecided('engine', '', '', 0, f'internal error {type(e).__name__}: {e} :: ' + traceback.format_exc().splitlines()[-3].strip())
    level = LEVELS.get(pid, 'other')
    extra = {}
    if level == 'proof':
        extra = {'checker_cmd': CHECKER_CMD.format(id=pid, tier=tier), 'trusted_base': TRUSTED}
    code = report.finish(ctx, level, t0, extra, write=write, quiet=quiet)
    return code, ctx


_PROPS = None


def anchor_files(pid):
    """the files the property is anchored in (from /verif/properties.jsonl, which is given and fixed)"""
    global _PROPS
    if _PROPS is None:
        _PROPS = {}
        pth = os.path.join(os.path.dirname(os.path.dirname(os.path.abspath(__file__))), 'properties.jsonl')
        with open(pth) as fh:
            for line in fh:
                if line.strip():
                    d = json.loads(line)
                    _PROPS[d['id']] = [f for f in d.get('anchors', {}).get('files', []) if f.endswith('.py')]
    return _PROPS.get(pid, [])


def shared_templates(pid, repo, ctx):
    """rule templates applied to every property over the files it is anchored in"""
    from .effects import Effects
    from . import argrole
    from .normalise import func_quals
    eff = Effects(repo.modules)
    rule = f'R{int(pid[1:])}.A'
    n = 0
    for path in anchor_files(pid):
        if not repo.has_module(path) or '/tests/' in path:
            continue
        for q, f, cls in func_quals(repo.module(path).tree):
            out, k = argrole.check_function(eff, f, cls)
            n += k
            for c, msg in out:
                ctx.violation(rule, path, q, c, msg + ': the callee computes with a quantity in the wrong role', construct=ast_src(c))
    if n:
        ctx.ok(rule, '', '', 0, f'T-ARGROLE: {n} resolved call sites in the anchored files pass every named argument in the position of the parameter it is named after',
               construct=f'{n} call sites')
    ctx.analysed['call_sites'] = ctx.analysed.get('call_sites', 0) + n
    # T-NAMEINDEX: positions looked up by equality are guarded by a membership test
    from . import nameindex
    rule_n = f'R{int(pid[1:])}.N'
    n_look, n_fun = 0, 0
    for path in anchor_files(pid):
        if not repo.has_module(path) or '/tests/' in path:
            continue
        for q, f, cls in func_quals(repo.module(path).tree):
            n_fun += 1
            out, k = nameindex.check_function(f)
            n_look += k
            for c, msg in out:
                n_bad_lookup = True
                ctx.violation(rule_n, path, q, c, msg, construct=ast_src(c))
    if not any(f_.rule == rule_n for f_ in ctx.findings):
        ctx.ok(rule_n, '', '', 0, f'T-NAMEINDEX: {n_fun} functions of the anchored files scanned; {n_look} equality position lookups (np.argmax(A == key) and the like), each guarded by a membership test',
               construct=f'{n_look} lookups')
    # T-MEMO: a memo field that is new relative to the reference tree is cleared by every method that changes one of its inputs
    from . import memo
    from .normalise import load_baseline
    base_ = (load_baseline() or {}).get('modules', {})
    base_attrs = set()
    for m_ in base_.values():
        base_attrs |= set(m_.get('attrs', ()))
    if base_attrs:
        memo.check(repo, ctx, f'R{int(pid[1:])}.M', sorted(p_ for p_ in anchor_files(pid) if repo.has_module(p_) and '/tests/' not in p_), base_attrs)
    # T-SHARED for default arguments: one mutable object per definition, shared by all calls
    from . import sharedstate
    files = {p_ for p_ in anchor_files(pid) if repo.has_module(p_) and '/tests/' not in p_}
    hits, n_def = sharedstate.mutable_default_hits(repo, files)
    rule_s = f'R{int(pid[1:])}.S'
    for p_, q_, node, msg in hits:
        ctx.violation(rule_s, p_, q_, node, msg, construct=ast_src(node))
    # T-SHARED for class bodies: a mutable object created in a class body of an anchored file and modified in place anywhere
    shared = sharedstate.class_level_mutables(repo, files)
    if shared:
        for p_, q_, node, text in sharedstate.inplace_uses(repo, shared):
            owners = sorted({c_ for a_ in shared if a_ in text for (_p, c_, _n) in shared[a_]})
            hits.append((p_, q_, node, text))
            ctx.violation(rule_s, p_, q_, node, f'{text}: the object is created once in the class body of {", ".join(owners) or "a class"} and shared by every instance that has not rebound the attribute, '
                          'so a change made through one instance is seen by all others', construct=ast_src(node))
    if not hits:
        nfun = sum(1 for p_, _q, _f in repo.all_functions() if p_ in files)
        ctx.ok(rule_s, '', '', 0, f'T-SHARED: none of the {nfun} functions in the anchored files keeps or modifies a mutable default argument ({n_def} mutable defaults present)',
               construct=f'{nfun} functions')


def ast_src(node):
    import ast
    try:
        return ast.unparse(node)[:160]
    except Exception:
        return ''


def main(argv=None):
    try:
        import signal
        signal.signal(signal.SIGPIPE, signal.SIG_DFL)
    except Exception:
        pass
    ap = argparse.ArgumentParser(prog='kverif')
    sub = ap.add_subparsers(dest='cmd', required=True)
    c = sub.add_parser('check')
    c.add_argument('property')
    c.add_argument('--tier', default=os.environ.get('VERIF_TIER', 'quick'), choices=['quick', 'thorough'])
    c.add_argument('--root', default=None)
    r = sub.add_parser('replay')
    r.add_argument('path')
    sub.add_parser('selfcheck')
    a = ap.parse_args(argv)
    seed = int(os.environ.get('VERIF_SEED', '0') or 0)
    if a.cmd == 'check':
        try:
            code, ctx = run_property(a.property, a.tier, a.root, seed=seed, write=not os.environ.get('KVERIF_NOWRITE'))
            if a.tier == 'thorough' and code == 0:
                from . import selftest
                code = selftest.thorough(a.property, ctx, a.root, seed)
        except Exception as e:
            print(f'ANALYSIS-ERROR property={a.property} internal error {type(e).__name__}: {e}')
            traceback.print_exc()
            return 2
        return code
    if a.cmd == 'replay':
        with open(a.path) as fh:
            rep = json.load(fh)
        code, ctx = run_property(rep['property'], 'quick', None, write=False, quiet=True)
        hit = [f for f in ctx.by(report.VIOLATION) if f.rule == rep['rule'] and f.file == rep['file'] and f.function == rep['function']]
        for f in hit:
            print(f'REPRODUCED {f.rule} {f.loc()} - {f.what}')
            print(f'VIOLATION property={rep["property"]} replay={a.path}')
        if not hit:
            print(f'not reproduced on the current tree: {rep["rule"]} {rep["file"]} {rep["function"]}')
        return 1 if hit else 0
    if a.cmd == 'selfcheck':
        repo = Repo()
        Index(repo)
        print(f'kverif selfcheck: parsed {len(repo.modules)} modules of {repo.root}, digest {repo.digest()}')
        return 0
    return 2


if __name__ == '__main__':
    sys.exit(main())
