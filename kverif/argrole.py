"""T-ARGROLE: positional arguments whose name says they belong to another parameter of the callee.

For every call that resolves to package function definitions agreeing on their parameter list, a positional argument
whose role name (the variable name, the base name of a subscript, the last attribute of a path) equals the name of a
*different* parameter of the callee is reported: `Gcrit(Rcrit[indices], dG)` against `def Gcrit(self, dG, Rcrit)`,
`getInterdiffusivity(x, T, phase)` against `def getInterdiffusivity(self, x, T, removeCache=True, phase=None)`.
The rule needs an exact (case-sensitive) cross match, so it is silent on ordinary calls; it is a necessary condition of
"the callee receives the quantity it documents", not a proof of it.
"""
from __future__ import annotations
import ast
from . import astutil as U


def role_name(e):
    if isinstance(e, ast.Name):
        return e.id
    if isinstance(e, ast.Subscript):
        return role_name(e.value)
    if isinstance(e, ast.Attribute):
        return e.attr
    if isinstance(e, ast.Call) and isinstance(e.func, ast.Name) and e.func.id in ('int', 'float', 'abs') and len(e.args) == 1:
        return role_name(e.args[0])
    if isinstance(e, ast.Call) and (U.call_name(e) or '') in ('np.array', 'np.asarray', 'np.atleast_1d', 'np.squeeze') and e.args:
        return role_name(e.args[0])
    return None


def _local_defs(func):
    counts, ldefs = {}, {}
    for n in ast.walk(func):
        if isinstance(n, ast.Name) and isinstance(n.ctx, ast.Store):
            counts[n.id] = counts.get(n.id, 0) + 1
    for n in ast.walk(func):
        if isinstance(n, ast.Assign) and len(n.targets) == 1 and isinstance(n.targets[0], ast.Name) and counts.get(n.targets[0].id) == 1:
            ldefs[n.targets[0].id] = n.value
    return ldefs


def check_function(effects, func, cls):
    """[(call node, message)] for one function"""
    out = []
    a = func.args.posonlyargs + func.args.args
    sname = a[0].arg if (cls and a) else 'self'
    ldefs = _local_defs(func)
    n_calls = 0
    for c in ast.walk(func):
        if not isinstance(c, ast.Call) or not c.args:
            continue
        pos = []
        for x in c.args:            # positional arguments before the first *args
            if isinstance(x, ast.Starred):
                break
            pos.append(x)
        if not pos:
            continue
        cands = effects.resolve(c, cls, ldefs, sname)
        cands = [f for f in (cands or []) if f is not func]      # a delegating wrapper does not call itself through another object
        if not cands:
            continue
        sigs = set()
        for f in cands:
            ps = [x.arg for x in f.args.posonlyargs + f.args.args]
            owner = effects._owner.get(id(f))
            decs = {d.id if isinstance(d, ast.Name) else getattr(d, 'attr', '?') for d in f.decorator_list}
            if owner and 'staticmethod' not in decs:
                ps = ps[1:]
            sigs.add(tuple(ps))
        n_calls += 1
        per_sig = []
        for params in sigs:
            hits = {}
            for i, arg in enumerate(pos):
                if i >= len(params):
                    break
                rn = role_name(arg)
                if rn is None or rn == params[i]:
                    continue
                if rn in params:
                    j = params.index(rn)
                    # the slot the name belongs to must not be served by the same name (f(x, x) style calls are not swaps)
                    served = (j < len(pos) and role_name(pos[j]) == rn) or any(k.arg == rn for k in c.keywords)
                    if not served or (j < len(pos) and role_name(pos[j]) == params[i]):
                        hits[i] = (f'argument {U.src(arg)[:40]} is passed as parameter `{params[i]}` (position {i + 1}) of {cands[0].name}(), '
                                   f'which has a parameter named `{rn}` at position {j + 1}')
            per_sig.append(hits)
        # reported only when the argument is misplaced under every definition the call may reach
        common = set(per_sig[0]) if per_sig else set()
        for h in per_sig[1:]:
            common &= set(h)
        for i in sorted(common):
            out.append((c, per_sig[0][i]))
    return out, n_calls
