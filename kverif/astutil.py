"""Small AST helpers shared by the rules."""
from __future__ import annotations
import ast


def dump(node) -> str:
    """structural key of an expression (contexts and positions ignored)"""
    if node is None:
        return 'None'
    return ast.dump(_strip_ctx(node), annotate_fields=False, include_attributes=False)


class _Strip(ast.NodeTransformer):
    def generic_visit(self, node):
        node = super().generic_visit(node)
        if hasattr(node, 'ctx'):
            node.ctx = ast.Load()
        return node


def _strip_ctx(node):
    import copy
    return _Strip().visit(copy.deepcopy(node))


def same(a, b) -> bool:
    return dump(a) == dump(b)


def src(node) -> str:
    try:
        return ast.unparse(node)
    except Exception:
        return '<?>'


def chain(node):
    """('self','pData','time') for self.pData.time ; subscripts appear as '[]';
    None when the expression is not a pure name/attribute/subscript chain."""
    parts = []
    while True:
        if isinstance(node, ast.Attribute):
            parts.append(node.attr)
            node = node.value
        elif isinstance(node, ast.Subscript):
            parts.append('[]')
            node = node.value
        elif isinstance(node, ast.Name):
            parts.append(node.id)
            break
        else:
            return None
    return tuple(reversed(parts))


def chain_noidx(node):
    c = chain(node)
    return None if c is None else tuple(p for p in c if p != '[]')


def call_name(call) -> str | None:
    """dotted name of the callee: 'np.amin', 'self._x', 'super().reset', 'f'"""
    if not isinstance(call, ast.Call):
        return None
    f = call.func
    parts = []
    while True:
        if isinstance(f, ast.Attribute):
            parts.append(f.attr)
            f = f.value
        elif isinstance(f, ast.Name):
            parts.append(f.id)
            break
        elif isinstance(f, ast.Call) and isinstance(f.func, ast.Name) and f.func.id == 'super':
            parts.append('super()')
            break
        elif isinstance(f, ast.Subscript):
            parts.append('[]')
            f = f.value
        else:
            parts.append('?')
            break
    return '.'.join(reversed(parts))


def call_attr(call) -> str | None:
    """last component of the callee name"""
    if not isinstance(call, ast.Call):
        return None
    f = call.func
    if isinstance(f, ast.Attribute):
        return f.attr
    if isinstance(f, ast.Name):
        return f.id
    return None


def calls(node):
    for n in ast.walk(node):
        if isinstance(n, ast.Call):
            yield n


def walk_no_nested(node):
    """ast.walk that does not descend into nested function/class/lambda definitions"""
    todo = [node]
    first = True
    while todo:
        n = todo.pop()
        if not first and isinstance(n, (ast.FunctionDef, ast.AsyncFunctionDef, ast.ClassDef, ast.Lambda)):
            continue
        first = False
        yield n
        todo.extend(ast.iter_child_nodes(n))


def seq(root) -> dict:
    """id(node) -> position in program order (depth-first, fields in source order).  Used instead of line numbers:
    nodes inlined by the normaliser keep the line numbers of the helper they came from."""
    out = {}
    n = 0
    stack = [root]
    while stack:
        x = stack.pop()
        out[id(x)] = n
        n += 1
        stack.extend(reversed(list(ast.iter_child_nodes(x))))
    return out


def inside(node, container) -> bool:
    return any(n is node for n in ast.walk(container))


def names_loaded(node) -> set:
    return {n.id for n in ast.walk(node) if isinstance(n, ast.Name) and isinstance(n.ctx, ast.Load)}


def names_in(node) -> set:
    return {n.id for n in ast.walk(node) if isinstance(n, ast.Name)}


def target_names(target) -> set:
    """names bound by an assignment target (tuples unpacked; attribute/subscript targets bind nothing)"""
    out = set()
    if isinstance(target, ast.Name):
        out.add(target.id)
    elif isinstance(target, (ast.Tuple, ast.List)):
        for e in target.elts:
            out |= target_names(e)
    elif isinstance(target, ast.Starred):
        out |= target_names(target.value)
    return out


def assign_targets(stmt):
    """list of target expressions of an assignment-like statement"""
    if isinstance(stmt, ast.Assign):
        return list(stmt.targets)
    if isinstance(stmt, (ast.AugAssign, ast.AnnAssign)):
        return [stmt.target]
    return []


def flat_targets(stmt):
    out = []
    def rec(t):
        if isinstance(t, (ast.Tuple, ast.List)):
            for e in t.elts:
                rec(e)
        elif isinstance(t, ast.Starred):
            rec(t.value)
        else:
            out.append(t)
    for t in assign_targets(stmt):
        rec(t)
    return out


def const_value(node):
    """numeric/bool/None/str constant, handling unary minus; raises ValueError otherwise"""
    if isinstance(node, ast.Constant):
        return node.value
    if isinstance(node, ast.UnaryOp) and isinstance(node.op, ast.USub):
        v = const_value(node.operand)
        return -v
    if isinstance(node, ast.UnaryOp) and isinstance(node.op, ast.UAdd):
        return const_value(node.operand)
    raise ValueError('not a constant')


def is_const(node, value=None) -> bool:
    try:
        v = const_value(node)
    except ValueError:
        return False
    if value is None:
        return True
    return v == value and type(v) is not bool or (isinstance(value, bool) and v is value)


def params(func: ast.FunctionDef):
    a = func.args
    names = [x.arg for x in a.posonlyargs + a.args]
    if a.vararg:
        names.append('*' + a.vararg.arg)
    names += [x.arg for x in a.kwonlyargs]
    if a.kwarg:
        names.append('**' + a.kwarg.arg)
    return names


def body_without_docstring(func):
    body = list(func.body)
    if body and isinstance(body[0], ast.Expr) and isinstance(body[0].value, ast.Constant) and isinstance(body[0].value.value, str):
        body = body[1:]
    return body


def kwarg(call, name):
    for k in call.keywords:
        if k.arg == name:
            return k.value
    return None


def find_calls(node, pred):
    return [c for c in calls(node) if pred(c)]


def namedtuple_types(trees) -> dict:
    """class name -> field names, for collections.namedtuple(...) assignments and typing.NamedTuple classes at module level"""
    out = {}
    for tree in trees:
        for node in tree.body:
            if isinstance(node, ast.Assign) and len(node.targets) == 1 and isinstance(node.targets[0], ast.Name) and isinstance(node.value, ast.Call):
                fn = node.value.func
                nm = fn.id if isinstance(fn, ast.Name) else fn.attr if isinstance(fn, ast.Attribute) else ''
                if nm.lstrip('_') == 'namedtuple' and len(node.value.args) >= 2:
                    flds = node.value.args[1]
                    names = None
                    if isinstance(flds, (ast.List, ast.Tuple)) and all(isinstance(e, ast.Constant) and isinstance(e.value, str) for e in flds.elts):
                        names = [e.value for e in flds.elts]
                    elif isinstance(flds, ast.Constant) and isinstance(flds.value, str):
                        names = flds.value.replace(',', ' ').split()
                    if names:
                        out[node.targets[0].id] = names
            elif isinstance(node, ast.ClassDef) and any((isinstance(b, ast.Name) and b.id == 'NamedTuple') or (isinstance(b, ast.Attribute) and b.attr == 'NamedTuple') for b in node.bases):
                out[node.name] = [st.target.id for st in node.body if isinstance(st, ast.AnnAssign) and isinstance(st.target, ast.Name)]
    return out


def call_arg(call, pos, name):
    """the argument bound to the parameter at position `pos` (0-based, not counting self) named `name`: positional or keyword"""
    if len(call.args) > pos and not any(isinstance(a, ast.Starred) for a in call.args[:pos + 1]):
        return call.args[pos]
    for k in call.keywords:
        if k.arg == name:
            return k.value
    return None


def assign_pairs(stmt):
    """(target, value) pairs of an assignment; a parallel assignment `a, b = x, y` gives (a, x), (b, y)"""
    if not isinstance(stmt, ast.Assign):
        return []
    out = []
    for t in stmt.targets:
        if isinstance(t, (ast.Tuple, ast.List)) and isinstance(stmt.value, (ast.Tuple, ast.List)) and len(t.elts) == len(stmt.value.elts) \
                and not any(isinstance(e, ast.Starred) for e in list(t.elts) + list(stmt.value.elts)):
            out += list(zip(t.elts, stmt.value.elts))
        else:
            out.append((t, stmt.value))
    return out


def first_action_on(func, receiver='self'):
    """the first top-level statement of func that mentions `receiver`; the statements before it (logging, assertions on the
    arguments, context set-up that does not involve the object) cannot observe or change its state.  None when a statement
    before it can leave the function or nests statements that mention the receiver only partly."""
    for st in body_without_docstring(func):
        if is_raise_guard(st) or is_inert_output(st):
            continue            # reads at most; on the path that continues nothing was changed
        if any(isinstance(n, ast.Name) and n.id == receiver for n in ast.walk(st)):
            return st
        if any(isinstance(n, (ast.Return, ast.Yield, ast.YieldFrom)) for n in ast.walk(st)):
            return None         # (a `raise` ahead of it - argument validation - ends the call before anything happened)
    return None


def core_body(func):
    """body without the docstring and without inert statements (pass, assert, bare constants): what decides whether a method
    is a plain getter / an abstract stub"""
    return [st for st in body_without_docstring(func) if not isinstance(st, (ast.Pass, ast.Assert))
            and not (isinstance(st, ast.Expr) and isinstance(st.value, ast.Constant))]


def dead_callfree_store(func, st):
    """True for `name = <expression without calls>` whose name is never read in func: the statement cannot influence anything
    an analysis of func computes (used by interpreters to skip values outside their fragment instead of giving up)"""
    if not (isinstance(st, ast.Assign) and len(st.targets) == 1 and isinstance(st.targets[0], ast.Name)):
        return False
    if any(isinstance(n, (ast.Call, ast.Await, ast.Yield, ast.YieldFrom, ast.NamedExpr)) for n in ast.walk(st.value) if not isinstance(n, ast.Lambda)) and not isinstance(st.value, ast.Lambda):
        return False
    name = st.targets[0].id
    return not any(isinstance(n, ast.Name) and n.id == name and isinstance(n.ctx, ast.Load) for n in ast.walk(func))


def is_inert_output(st):
    """print(..) / warnings.warn(..) / logging calls whose arguments contain no further calls: they change no value of the program"""
    if not (isinstance(st, ast.Expr) and isinstance(st.value, ast.Call)):
        return False
    nm = call_name(st.value) or ''
    if not (nm in ('print', 'warnings.warn', 'warn') or nm.split('.')[0] in ('logging', 'logger', 'log')):
        return False
    inner = [n for a in list(st.value.args) + [k.value for k in st.value.keywords] for n in ast.walk(a) if isinstance(n, (ast.Call, ast.NamedExpr, ast.Yield, ast.Await))]
    return all(isinstance(n, ast.Call) and (call_name(n) or '') in ('str', 'repr', 'len', 'format', 'float', 'int') or (isinstance(n, ast.Call) and isinstance(n.func, ast.Attribute) and n.func.attr == 'format') for n in inner)


def is_raise_guard(st):
    """`if <call-free test>: raise ..` (argument validation): on the paths that continue, nothing was changed"""
    return isinstance(st, ast.If) and not st.orelse and st.body and all(isinstance(x, ast.Raise) for x in st.body) \
        and not any(isinstance(n, (ast.Call, ast.NamedExpr, ast.Await, ast.Yield)) and not (isinstance(n, ast.Call) and (call_name(n) or '') in ('len', 'isinstance', 'np.isfinite', 'np.isnan', 'callable', 'np.any', 'np.all'))
                    for n in ast.walk(st.test))
