from ..selftest import Entry
K = 'kawin/precipitation/KWNEuler.py'
B = 'kawin/precipitation/KWNBase.py'
ENTRIES = [
    Entry('volume-ratio-inverted', K, [('volRatio = self.matrixParameters.volume.Vm / precParams.volume.Vm', 'volRatio = precParams.volume.Vm / self.matrixParameters.volume.Vm')], 'R1.2'),
    Entry('content-without-volume-factor', K, [('Y.fconc[0,p,e] = volRatio * precParams.nucleation.volumeFactor * self.PBM[p].WeightedMomentFromN(x[p], 3, compAvg[:,e])',
                                               'Y.fconc[0,p,e] = volRatio * self.PBM[p].WeightedMomentFromN(x[p], 3, compAvg[:,e])')], 'R1.2'),
    Entry('content-sphere-factor', K, [('Y.fconc[0,p,e] = volRatio * precParams.nucleation.volumeFactor * self.PBM[p].WeightedMomentFromN(x[p], 3, compAvg[:,e])',
                                        'Y.fconc[0,p,e] = volRatio * (4*np.pi/3) * self.PBM[p].WeightedMomentFromN(x[p], 3, compAvg[:,e])')], 'R1.2'),
    Entry('volfrac-from-stored-psd', K, [('self.PBM[p].ThirdMomentFromN(x[p]), 1])', 'self.PBM[p].ThirdMoment(), 1])')], 'R1.2'),
    Entry('volfrac-second-moment', K, [('self.PBM[p].ThirdMomentFromN(x[p]), 1])', 'self.PBM[p].SecondMomentFromN(x[p]), 1])')], 'R1.2'),
    Entry('volfrac-other-phase-volume', K, [('precParams.nucleation.volumeFactor * self.PBM[p].ThirdMomentFromN(x[p])', 'self.precipitateParameters[0].nucleation.volumeFactor * self.PBM[p].ThirdMomentFromN(x[p])')], 'R1.2'),
    Entry('increment-without-difference', K, [('np.sum((self.PBM[p].PSDsize**3*(x[p] - self.PBM[p].PSD))*midX[:,e])', 'np.sum((self.PBM[p].PSDsize**3*x[p])*midX[:,e])')], 'R1.2'),
    Entry('weights-from-matrix-side', K, [('compAvg = 0.5 * (self.PSDXbeta[p][:-1] + self.PSDXbeta[p][1:])', 'compAvg = 0.5 * (self.PSDXalpha[p][:-1] + self.PSDXalpha[p][1:])')], 'R1.4'),
    Entry('weights-one-face', K, [('midX = (self.PSDXbeta[p][1:] + self.PSDXbeta[p][:-1]) / 2', 'midX = (self.PSDXbeta[p][1:] + self.PSDXbeta[p][1:]) / 2')], 'R1.4'),
    Entry('balance-first-phase-only', K, [('/ (1 - np.sum(Y.volFrac[0]))', '/ (1 - Y.volFrac[0,0])')], 'R1.1'),
    Entry('balance-no-volume-correction', K, [('Y.composition[0] = (self.pData.composition[0] - np.sum(Y.fconc[0], axis=0)) / (1 - np.sum(Y.volFrac[0]))', 'Y.composition[0] = (self.pData.composition[0] - np.sum(Y.fconc[0], axis=0))')], 'R1.1'),
    Entry('balance-from-last-record', K, [('Y.composition[0] = (self.pData.composition[0] - np.sum', 'Y.composition[0] = (self.pData.composition[self.pData.n] - np.sum')], 'R1.1'),
    Entry('extra-clamp-above', K, [('            Y.composition[0,Y.composition[0] < 0] = self.constraints.minComposition\n', '            Y.composition[0,Y.composition[0] < 0] = self.constraints.minComposition\n            Y.composition[0,Y.composition[0] > 0.5] = 0.5\n')], 'R1.6'),
    Entry('append-before-recompute', B, [('        self._calculateDependentTerms(t, x)\n        self._appendArrays(self._currY)', '        self._appendArrays(self._currY)\n        self._calculateDependentTerms(t, x)')], 'R1.5'),
    Entry('psd-update-before-append', B, [('        self._calculateDependentTerms(t, x)\n        self._appendArrays(self._currY)\n\n        #Update particle size distribution (this includes adding bins, resizing bins, etc)\n        #Should be agnostic of eulerian or lagrangian implementations\n        self._updateParticleSizeDistribution(t, x)',
                                         '        self._calculateDependentTerms(t, x)\n        self._updateParticleSizeDistribution(t, x)\n        self._appendArrays(self._currY)')], 'R1.5'),
    Entry('recompute-from-stored-psd', B, [('        self._calculateDependentTerms(t, x)\n        self._appendArrays(self._currY)', '        self._calculateDependentTerms(t, self.getCurrentX()[1])\n        self._appendArrays(self._currY)')], 'R1.5'),
    Entry('growth-before-mass-balance', B, [('            self._currY = self._calcMassBalance(t, x, self._currY)\n            self._currY = self._calcNucleationRate(t, x, self._currY)\n            self.growth, self._currY = self._growthRate(self._currY)',
                                           '            self.growth, self._currY = self._growthRate(self._currY)\n            self._currY = self._calcMassBalance(t, x, self._currY)\n            self._currY = self._calcNucleationRate(t, x, self._currY)')], 'R1.5'),
    # benign
    Entry('benign-hoisted-prefactor', K, [('            volRatio = self.matrixParameters.volume.Vm / precParams.volume.Vm\n', '            volRatio = self.matrixParameters.volume.Vm / precParams.volume.Vm\n            pref = volRatio * precParams.nucleation.volumeFactor\n'),
                                          ('Y.fconc[0,p,e] = volRatio * precParams.nucleation.volumeFactor * self.PBM[p].WeightedMomentFromN(x[p], 3, compAvg[:,e])', 'Y.fconc[0,p,e] = pref * self.PBM[p].WeightedMomentFromN(x[p], 3, compAvg[:,e])')], kind='benign'),
    Entry('benign-generic-moment', K, [('self.PBM[p].ThirdMomentFromN(x[p]), 1])', 'self.PBM[p].MomentFromN(x[p], 3), 1])')], kind='benign'),
    Entry('benign-weights-div2', K, [('compAvg = 0.5 * (self.PSDXbeta[p][:-1] + self.PSDXbeta[p][1:])', 'compAvg = (self.PSDXbeta[p][1:] + self.PSDXbeta[p][:-1]) / 2')], kind='benign'),
    Entry('benign-rename-loop-index', K, [('Y.Ravg[0,p] = self.PBM[p].MomentFromN(x[p], 1) / Y.precipitateDensity[0,p]', 'Y.Ravg[0,p] = self.PBM[p].FirstMomentFromN(x[p]) / Y.precipitateDensity[0,p]')], kind='benign'),
]
