from ..selftest import Entry
K = 'kawin/precipitation/KWNEuler.py'
B = 'kawin/precipitation/KWNBase.py'
P = 'kawin/precipitation/PopulationBalance.py'
ENTRIES = [
    Entry('density-first-moment', K, [('Y.precipitateDensity[0,p] = self.PBM[p].ZeroMomentFromN(x[p])', 'Y.precipitateDensity[0,p] = self.PBM[p].FirstMomentFromN(x[p])')], 'R2.1'),
    Entry('density-from-stored-psd', K, [('Y.precipitateDensity[0,p] = self.PBM[p].ZeroMomentFromN(x[p])', 'Y.precipitateDensity[0,p] = self.PBM[p].ZeroMoment()')], 'R2.1'),
    Entry('mean-radius-second-moment', K, [('Y.Ravg[0,p] = self.PBM[p].MomentFromN(x[p], 1) / Y.precipitateDensity[0,p]', 'Y.Ravg[0,p] = self.PBM[p].MomentFromN(x[p], 2) / Y.precipitateDensity[0,p]')], 'R2.1'),
    Entry('mean-radius-not-normalised', K, [('Y.Ravg[0,p] = self.PBM[p].MomentFromN(x[p], 1) / Y.precipitateDensity[0,p]', 'Y.Ravg[0,p] = self.PBM[p].MomentFromN(x[p], 1)')], 'R2.1'),
    Entry('empty-phase-keeps-stale-stats', K, [('                Y.Ravg[0,p] = 0\n                Y.ARavg[0,p] = 0\n                Y.fconc[0,p] = np.zeros(Y.fconc[0,p].shape)\n                Y.volFrac[0,p] = 0\n                continue', '                continue')], 'R2.1'),
    Entry('empty-phase-keeps-volfrac', K, [('                Y.fconc[0,p] = np.zeros(Y.fconc[0,p].shape)\n                Y.volFrac[0,p] = 0\n                continue', '                Y.fconc[0,p] = np.zeros(Y.fconc[0,p].shape)\n                continue')], 'R2.1'),
    Entry('record-before-truncation', P, [('        self.PSD = newN\n        self.PSD[self.PSD < 1] = 0\n        self.record(time)', '        self.PSD = newN\n        self.record(time)\n        self.PSD[self.PSD < 1] = 0')], 'R2.2'),
    Entry('no-truncation', P, [('        self.PSD = newN\n        self.PSD[self.PSD < 1] = 0\n        self.record(time)', '        self.PSD = newN\n        self.record(time)')], 'R2.2'),
    Entry('record-time-not-padded', P, [('            self._recordedTime = np.pad(self._recordedTime, (0,1))\n            self._recordedBins[-1]', '            self._recordedBins[-1]'),
                                        ('            self._recordedTime[-1] = time\n', '')], 'R2.2'),
    Entry('rebreak-F16', B, [('            Y.Rcrit[0,p] = 0\n            Y.Gcrit[0,p] = 0\n            Y.impingement[0,p] = 0\n            Y.nucRate[0,p] = 0\n            Y.Rnuc[0,p] = 0\n            if volDG < 0:', '            if volDG < 0:')], 'R2.4'),
    Entry('rebreak-F16-rate-only', B, [('            Y.nucRate[0,p] = 0\n            Y.Rnuc[0,p] = 0\n            if volDG < 0:', '            Y.Rnuc[0,p] = 0\n            if volDG < 0:'), ('            Y.nucRate[0,p] = nucRate\n', '            Y.nucRate[0,p] = nucRate if beta != 0 else Y.nucRate[0,p]\n')], None),
    Entry('zeroing-after-first-exit', B, [('            Y.Rcrit[0,p] = 0\n            Y.Gcrit[0,p] = 0\n            Y.impingement[0,p] = 0\n            Y.nucRate[0,p] = 0\n            Y.Rnuc[0,p] = 0\n            if volDG < 0:\n                continue\n',
                                           '            if volDG < 0:\n                continue\n            Y.Rcrit[0,p] = 0\n            Y.Gcrit[0,p] = 0\n            Y.impingement[0,p] = 0\n            Y.nucRate[0,p] = 0\n            Y.Rnuc[0,p] = 0\n')], 'R2.4'),
    Entry('fixed-grid-never-extends', P, [('        change = False\n        newIndices = None\n        if self.PSD[-1] > 1:', '        change = False\n        newIndices = None\n        if not self._adaptiveBinSize:\n            return change, newIndices\n        if self.PSD[-1] > 1:')], 'R2.5'),
    Entry('extension-only-when-adaptive', P, [('        if self.PSD[-1] > 1:\n            #print', '        if self.PSD[-1] > 1 and self._adaptiveBinSize:\n            #print')], None),
    Entry('nuclei-class-off-by-one', P, [('        nRad = np.argmax(self.PSDbounds > nucRadius) - 1\n        dXdt[nRad] += nucRate\n\n        return dXdt\n    \n    def correctdXdtEuler', '        nRad = np.argmax(self.PSDbounds > nucRadius)\n        dXdt[nRad] += nucRate\n\n        return dXdt\n    \n    def correctdXdtEuler')], 'R2.3/R7.3'),
    Entry('top-face-gains-particles', P, [('self._netFlux[1:] += flux[1:] * psd * fluxSign[1:] / dR', 'self._netFlux[1:] += flux[1:] * psd * (1-fluxSign[1:]) / dR')], 'R2.3/R7.2'),
    Entry('removal-mismatch', K, [('            x[p][self.PBM[p].PSDsize < self.constraints.minRadius] = 0\n', '')], 'R2.7'),
    # benign
    Entry('benign-density-generic-moment', K, [('Y.precipitateDensity[0,p] = self.PBM[p].ZeroMomentFromN(x[p])', 'Y.precipitateDensity[0,p] = self.PBM[p].MomentFromN(x[p], 0)')], kind='benign'),
    Entry('benign-mean-radius-named-moment', K, [('Y.Ravg[0,p] = self.PBM[p].MomentFromN(x[p], 1) / Y.precipitateDensity[0,p]', 'Y.Ravg[0,p] = self.PBM[p].FirstMomentFromN(x[p]) / Y.precipitateDensity[0,p]')], kind='benign'),
    Entry('benign-zero-record-order', K, [('                Y.Ravg[0,p] = 0\n                Y.ARavg[0,p] = 0\n', '                Y.ARavg[0,p] = 0\n                Y.Ravg[0,p] = 0\n')], kind='benign'),
    Entry('benign-nuc-zeroing-as-defaults', B, [('            Y.Rcrit[0,p] = 0\n            Y.Gcrit[0,p] = 0\n            Y.impingement[0,p] = 0\n            Y.nucRate[0,p] = 0\n            Y.Rnuc[0,p] = 0\n',
                                                 '            Y.Rcrit[0,p], Y.Gcrit[0,p] = 0, 0\n            Y.impingement[0,p], Y.nucRate[0,p], Y.Rnuc[0,p] = 0, 0, 0\n')], kind='benign'),
]
