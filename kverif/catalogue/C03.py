from ..selftest import Entry
K = 'kawin/precipitation/KWNEuler.py'
B = 'kawin/precipitation/KWNBase.py'
PP = 'kawin/precipitation/PrecipitationParameters.py'
MT = 'kawin/thermo/MultiTherm.py'
S = 'kawin/solver/Solver.py'
ENTRIES = [
    Entry('rebreak-F15', K, [('                growthRate = self.growth[p]\n                xEqAlpha = Y.xEqAlpha[0,p]\n                xEqBeta = Y.xEqBeta[0,p]\n', '                growthRate = self.growth[p]\n')], 'R3.3'),
    Entry('attribute-missing-from-table', PP, [("        'Rnuc',  'Ravg', 'ARavg', 'volFrac', 'fconc'", "        'Ravg', 'ARavg', 'volFrac', 'fconc'")], 'R3.1'),
    Entry('append-skips-last-attribute', PP, [('        for name in self.ATTRIBUTES:\n            setattr(self, name, np.concatenate(', '        for name in self.ATTRIBUTES[:-1]:\n            setattr(self, name, np.concatenate(')], 'R3.1'),
    Entry('index-not-rederived', PP, [("            setattr(self, name, np.concatenate([getattr(self, name), getattr(newData, name)], axis=0))\n        self.n = len(self.time) - 1", "            setattr(self, name, np.concatenate([getattr(self, name), getattr(newData, name)], axis=0))\n        self.n += 1")], 'R3.1'),
    Entry('history-created-too-long', PP, [('        self.fconc = np.zeros((N, len(self.phases), len(self.elements)))', '        self.fconc = np.zeros((N+1, len(self.phases), len(self.elements)))')], 'R3.1'),
    Entry('history-rebound-outside', B, [('        self.pData.composition[0] = self.matrixParameters.initComposition', '        self.pData.composition = np.array([np.atleast_1d(self.matrixParameters.initComposition)])')], 'R3.2'),
    Entry('setup-unpacks-none', K, [('                if growth_result is not None:\n                    _, _, _, c_eq_alpha, c_eq_beta = growth_result\n                    self.pData.xEqAlpha[self.pData.n,p] = c_eq_alpha\n                    self.pData.xEqBeta[self.pData.n,p] = c_eq_beta',
                                    '                _, _, _, c_eq_alpha, c_eq_beta = growth_result\n                self.pData.xEqAlpha[self.pData.n,p] = c_eq_alpha\n                self.pData.xEqBeta[self.pData.n,p] = c_eq_beta')], 'R3.4'),
    Entry('curvature-unpacks-none', MT, [("        if eq_results is None:\n            return _process_invalid_eq('cached')\n        \n", '')], 'R3.4'),
    Entry('search-unpacks-none', MT, [('            if eq_results is None:\n                return None\n            chemical_potentials, cs_matrix, cs_precip = eq_results\n            # If matrix and precipitate are both stable', '            chemical_potentials, cs_matrix, cs_precip = eq_results\n            # If matrix and precipitate are both stable')], 'R3.4'),
    Entry('growth-fallback-test-inverted', K, [('        if growth_result is None:\n            #If driving force is negative, then precipitates are unstable', '        if growth_result is not None:\n            #If driving force is negative, then precipitates are unstable')], 'R3.4'),
    Entry('volfrac-unbounded', K, [('Y.volFrac[0,p] = np.amin([volRatio * precParams.nucleation.volumeFactor * self.PBM[p].ThirdMomentFromN(x[p]), 1])', 'Y.volFrac[0,p] = volRatio * precParams.nucleation.volumeFactor * self.PBM[p].ThirdMomentFromN(x[p])')], 'R3.5'),
    Entry('sites-unbounded', K, [('        return np.amax([nucleationSites, 0])', '        return nucleationSites')], 'R3.5'),
    Entry('growth-array-not-resized', K, [('                self.growth[p] = np.zeros(len(self.PBM[p].PSDbounds))\n                if self.numberOfElements == 1:', '                if self.numberOfElements == 1:')], 'R3.6'),
    Entry('composition-table-not-resized', K, [('                else:\n                    self.PSDXalpha[p] = np.zeros((self.PBM[p].bins + 1, self.numberOfElements))\n                    self.PSDXbeta[p] = np.zeros((self.PBM[p].bins + 1, self.numberOfElements))\n                self.growth, _ = self._growthRate', '                self.growth, _ = self._growthRate')], 'R3.6'),
    Entry('clamp-order-swapped', S, [('            dt = dt if dt > self._dtmin else self._dtmin\n            dt = dt if dt < self._dtmax else self._dtmax', '            dt = dt if dt < self._dtmax else self._dtmax\n            dt = dt if dt > self._dtmin else self._dtmin')], 'R3.7/R5.1'),
    Entry('unbound-in-new-branch', B, [('            if nucRate*dt >= self.constraints.minNucleateDensity and Rcrit >= self.precipitateParameters[p].Rmin:\n                Rnuc = nucfuncs.nucleationRadius(T, Rcrit, precParams)\n            else:\n                Rnuc = 0',
                                       '            if nucRate*dt >= self.constraints.minNucleateDensity and Rcrit >= self.precipitateParameters[p].Rmin:\n                Rnuc = nucfuncs.nucleationRadius(T, Rcrit, precParams)\n            elif nucRate == 0:\n                Rnuc = 0')], 'R3.3'),
    # benign
    Entry('benign-none-test-negated', K, [('                if growth_result is not None:\n                    _, _, _, c_eq_alpha, c_eq_beta = growth_result', '                if not (growth_result is None):\n                    _, _, _, c_eq_alpha, c_eq_beta = growth_result')], kind='benign'),
    Entry('benign-rename-result', K, [('growth_result = self.therm.getGrowthAndInterfacialComposition(self.pData.composition[self.pData.n]', 'gres = self.therm.getGrowthAndInterfacialComposition(self.pData.composition[self.pData.n]'),
                                      ('                if growth_result is not None:\n                    _, _, _, c_eq_alpha, c_eq_beta = growth_result', '                if gres is not None:\n                    _, _, _, c_eq_alpha, c_eq_beta = gres')], kind='benign'),
    Entry('benign-early-continue', K, [('                if growth_result is not None:\n                    _, _, _, c_eq_alpha, c_eq_beta = growth_result\n                    self.pData.xEqAlpha[self.pData.n,p] = c_eq_alpha\n                    self.pData.xEqBeta[self.pData.n,p] = c_eq_beta',
                                       '                if growth_result is None:\n                    continue\n                _, _, _, c_eq_alpha, c_eq_beta = growth_result\n                self.pData.xEqAlpha[self.pData.n,p] = c_eq_alpha\n                self.pData.xEqBeta[self.pData.n,p] = c_eq_beta')], kind='benign'),
    Entry('benign-sites-python-max', K, [('        return np.amax([nucleationSites, 0])', '        return max(nucleationSites, 0)')], kind='benign'),
]
