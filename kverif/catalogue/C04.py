from ..selftest import Entry
D = 'kawin/diffusion/Diffusion.py'
SP = 'kawin/diffusion/SinglePhase.py'
HM = 'kawin/diffusion/Homogenization.py'
DP = 'kawin/diffusion/DiffusionParameters.py'
ENTRIES = [
    Entry('rebreak-F06', D, [('            xsum = np.sum(self.x, axis=0)\n            if any(xsum > 1):', '        xsum = np.sum(self.x, axis=0)\n        if True:\n            if any(xsum > 1):'),
                             ('            self.isSetup = True\n            self.record(self.t) #Record at t = 0', '            self.isSetup = True\n            self.record(self.t) #Record at t = 0')], 'R4.3'),
    Entry('record-outside-guard', D, [('            self.isSetup = True\n            self.record(self.t) #Record at t = 0', '            self.isSetup = True\n        self.record(self.t) #Record at t = 0')], 'R4.3'),
    Entry('flag-never-set', D, [('            self.isSetup = True\n            self.record(self.t) #Record at t = 0', '            self.record(self.t) #Record at t = 0')], 'R4.3'),
    Entry('rate-not-a-difference', D, [('return [-(fluxes[:,1:] - fluxes[:,:-1])/self.dz]', 'return [-(fluxes[:,1:] - fluxes[:,:-1] + 0*fluxes[:,1:]**2)/self.dz]')], 'R4.1'),
    Entry('rate-sign-flipped', D, [('return [-(fluxes[:,1:] - fluxes[:,:-1])/self.dz]', 'return [(fluxes[:,1:] - fluxes[:,:-1])/self.dz]')], 'R4.1'),
    Entry('rate-shifted-stencil', D, [('return [-(fluxes[:,1:] - fluxes[:,:-1])/self.dz]', 'return [-(fluxes[:,2:] - fluxes[:,:-2])/(2*self.dz)]')], 'R4.1'),
    Entry('bc-left-uses-right-value', DP, [('fluxes[i,0] = self.leftBC[e] if self.leftBCtype[e] == self.FLUX_BC else fluxes[i,1]', 'fluxes[i,0] = self.rightBC[e] if self.leftBCtype[e] == self.FLUX_BC else fluxes[i,1]')], 'R4.2'),
    Entry('bc-composition-zero-flux', DP, [('fluxes[i,-1] = self.rightBC[e] if self.rightBCtype[e] == self.FLUX_BC else fluxes[i,-2]', 'fluxes[i,-1] = self.rightBC[e] if self.rightBCtype[e] == self.FLUX_BC else 0')], 'R4.2'),
    Entry('bc-initial-profile-wrong-node', DP, [('                x[i,-1] = self.rightBC[e]', '                x[i,0] = self.rightBC[e]')], 'R4.2'),
    Entry('single-phase-bc-not-applied', SP, [('        self.boundaryConditions.applyBoundaryConditionsToFluxes(self.elements, fluxes)\n', '')], 'R4.2'),
    Entry('homogenization-end-face-written', HM, [('        vfluxes[:,1:-1] = fluxes[1:,:]', '        vfluxes[:,1:] = np.pad(fluxes[1:,:], ((0,0),(0,1)))')], 'R4.2'),
    Entry('single-phase-write-after-bc', SP, [('        #Time step from von Neumann analysis', '        fluxes[:,0] = 0\n        #Time step from von Neumann analysis')], 'R4.2'),
    Entry('no-clip', D, [('        self.x = np.clip(self.x, self.constraints.minComposition, 1-self.constraints.minComposition)\n', '')], 'R4.4'),
    Entry('clip-after-record', D, [('        self.x = np.clip(self.x, self.constraints.minComposition, 1-self.constraints.minComposition)\n        self.record(self.t)', '        self.record(self.t)\n        self.x = np.clip(self.x, self.constraints.minComposition, 1-self.constraints.minComposition)')], 'R4.4'),
    Entry('shared-default-boundary-conditions', D, [('                 boundaryConditions = None,\n                 compositionProfile = None,\n                 constraints = None,\n                 record = True):\n        super().__init__()\n        if isinstance(phases, str):',
                                                    '                 boundaryConditions = BoundaryConditions(),\n                 compositionProfile = None,\n                 constraints = None,\n                 record = True):\n        super().__init__()\n        if isinstance(phases, str):')], 'R4.6'),
    Entry('x-rescaled-in-getter', D, [('        fluxes = self._getFluxes(t, x)\n', '        self.x = x[0] / np.sum(x[0], axis=0).clip(1)\n        fluxes = self._getFluxes(t, x)\n')], 'R4.5'),
    # benign
    Entry('benign-rate-other-orientation', D, [('return [-(fluxes[:,1:] - fluxes[:,:-1])/self.dz]', 'return [(fluxes[:,:-1] - fluxes[:,1:])/self.dz]')], kind='benign'),
    Entry('benign-guard-early-return', D, [('        if not self.isSetup:\n            if self.therm is not None:\n                self.therm.clearCache()\n', '        if not self.isSetup:\n            if self.therm is not None:\n                self.therm.clearCache()\n            pass\n')], kind='benign'),
    Entry('benign-rate-named-difference', D, [('        return [-(fluxes[:,1:] - fluxes[:,:-1])/self.dz]', '        dJ = fluxes[:,1:] - fluxes[:,:-1]\n        return [-dJ/self.dz]')], kind='benign'),
]
