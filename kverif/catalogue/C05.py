from ..selftest import Entry
S = 'kawin/solver/Solver.py'
I = 'kawin/solver/Iterators.py'
G = 'kawin/GenericModel.py'
ENTRIES = [
    Entry('loop-iteration-cap-in-test', S, [('        while currTime < tf and not stop:', '        while currTime < tf and not stop and i < 100000000:')], 'R5.2'),
    Entry('loop-iteration-cap-break', S, [('            i += 1\n\n        if verbose:', '            i += 1\n            if i >= 100000000:\n                break\n\n        if verbose:')], 'R5.2'),
    Entry('loop-iteration-cap-return', S, [('            i += 1\n\n        if verbose:', '            i += 1\n            if i >= 100000000:\n                return\n\n        if verbose:')], 'R5.2'),
    Entry('clamp-min-max-nan', S, [('            dt = dt if dt > self._dtmin else self._dtmin\n            dt = dt if dt < self._dtmax else self._dtmax', '            dt = min(max(dt, self._dtmin), self._dtmax)')], 'R5.1'),
    Entry('clamp-order-swapped', S, [('            dt = dt if dt > self._dtmin else self._dtmin\n            dt = dt if dt < self._dtmax else self._dtmax', '            dt = dt if dt < self._dtmax else self._dtmax\n            dt = dt if dt > self._dtmin else self._dtmin')], 'R5.1'),
    Entry('clamp-upper-dropped', S, [('            dt = dt if dt < self._dtmax else self._dtmax\n', '')], 'R5.1'),
    Entry('clamp-lower-dropped', S, [('            dt = dt if dt > self._dtmin else self._dtmin\n', '')], 'R5.1'),
    Entry('clamp-np-clip', S, [('            dt = dt if dt > self._dtmin else self._dtmin\n            dt = dt if dt < self._dtmax else self._dtmax', '            dt = np.clip(dt, self._dtmin, self._dtmax)')], 'R5.1'),
    Entry('no-shrink-to-remaining', S, [('            if self._dtmax > tf - currTime:\n                self._dtmax = tf - currTime\n', '')], 'R5.2'),
    Entry('shrink-after-iterator', S, [('            if self._dtmax > tf - currTime:\n                self._dtmax = tf - currTime\n', ''), ('            currTime += dt\n', '            if self._dtmax > tf - currTime:\n                self._dtmax = tf - currTime\n            currTime += dt\n')], 'R5.2'),
    Entry('loop-nonstrict', S, [('        while currTime < tf and not stop:', '        while currTime <= tf and not stop:')], 'R5.2'),
    Entry('stop-ignored', S, [('        while currTime < tf and not stop:', '        while currTime < tf:')], 'R5.2'),
    Entry('clock-before-iterator', S, [('            currTime += dt\n            X0, stop = self.postProcess(currTime, X0)', '            X0, stop = self.postProcess(currTime, X0)\n            currTime += dt')], 'R5.2'),
    Entry('clock-default-dt', S, [('            currTime += dt\n', '            currTime += self.dt\n')], 'R5.2'),
    Entry('reference-state-once', S, [('            self._X0 = X0\n            X0_flat, dt = self.iterator(', '            X0_flat, dt = self.iterator(')], 'R5.2'),
    Entry('bounds-of-final-time', S, [('        self._dtmin = self.dtmin * (tf - t0)', '        self._dtmin = self.dtmin * tf')], 'R5.2'),
    Entry('iterator-halves-dt', I, [('    return updateX(X_old, dxdt, dt), dt', '    return updateX(X_old, dxdt, dt), dt/2')], 'R5.3'),
    Entry('cursor-not-advanced', G, [('                X_new[i] = X_flat[n]\n                n += 1', '                X_new[i] = X_flat[n]')], 'R5.4'),
    Entry('cursor-wrong-length', G, [('            ind += s\n', '            ind += 1\n')], 'R5.4'),
    Entry('sizes-recorded-once', G, [('        self._sizeRef = [len(xi) for xi in X_new]', '        if getattr(self, "_sizeRef", None) is None:\n            self._sizeRef = [len(xi) for xi in X_new]')], 'R5.4'),
    Entry('window-from-zero', G, [('        self.finalTime = currTime+simTime', '        self.finalTime = simTime')], 'R5.5'),
    Entry('benign-clamp-if-statements', S, [('            dt = dt if dt > self._dtmin else self._dtmin\n            dt = dt if dt < self._dtmax else self._dtmax', '            if not (dt > self._dtmin):\n                dt = self._dtmin\n            if not (dt < self._dtmax):\n                dt = self._dtmax')], kind='benign'),
    Entry('benign-shrink-min', S, [('            if self._dtmax > tf - currTime:\n                self._dtmax = tf - currTime', '            self._dtmax = min(self._dtmax, tf - currTime)')], kind='benign'),
    Entry('benign-clock-explicit-add', S, [('            currTime += dt\n', '            currTime = currTime + dt\n')], kind='benign'),
    Entry('benign-rename-stop', S, [('        stop = False\n        while currTime < tf and not stop:', '        halt = False\n        while currTime < tf and not halt:'), ('            X0, stop = self.postProcess(currTime, X0)', '            X0, halt = self.postProcess(currTime, X0)'), ('            if stop:\n                print', '            if halt:\n                print')], kind='benign'),
]
