from ..selftest import Entry
I = 'kawin/solver/Iterators.py'
S = 'kawin/solver/Solver.py'
ENTRIES = [
    Entry('rebreak-F01-stage2-time', I, [('k2 = f(t + dt/2, X_k1)', 'k2 = f(t, X_k1)')], 'R6.1'),
    Entry('rebreak-F01-stage4-time', I, [('k4 = f(t + dt, X_k3)', 'k4 = f(t, X_k3)')], 'R6.1'),
    Entry('stage3-time-full-step', I, [('k3 = f(t + dt/2, X_k2)', 'k3 = f(t + dt, X_k2)')], 'R6.1'),
    Entry('weight-k3', I, [('dxdtsum += 2*k3', 'dxdtsum += k3')], 'R6.1'),
    Entry('divisor', I, [('updateX(X_old, dxdtsum/6, dt), dt', 'updateX(X_old, dxdtsum/5, dt), dt')], 'R6.1'),
    Entry('stage3-state-half-step', I, [('X_k3 = updateX(X_old, k3, dt)', 'X_k3 = updateX(X_old, k3, dt/2)')], 'R6.1'),
    Entry('stage2-from-wrong-base', I, [('X_k2 = updateX(X_old, k2, dt/2)', 'X_k2 = updateX(X_k1, k2, dt/2)')], 'R6.1'),
    Entry('rebreak-F19-inplace-accumulator', I, [('dxdtsum = k1 + 2*k2', 'dxdtsum = k1\n    dxdtsum += 2*k2')], 'R6.3',
          why='k1 may be (a view of) X_old when the derivative function returns its argument'),
    Entry('coupler-own-time', 'kawin/GenericModel.py', [('dxdts.append(m.getdXdt(t, xsub))', 'dxdts.append(m.getdXdt(m.getCurrentX()[0], xsub))')], 'R6.4'),
    Entry('kwn-time-dropped', 'kawin/precipitation/KWNBase.py', [('self._calculateDependentTerms(t, x)\n        return self._getdXdt', 'self._calculateDependentTerms(self.pData.time[self.pData.n], x)\n        return self._getdXdt')], 'R6.4'),
    Entry('euler-half-step', I, [('return updateX(X_old, dxdt, dt), dt', 'return updateX(X_old, dxdt, dt/2), dt')], 'R6.1'),
    Entry('inplace-state', I, [('    dxdt, dt = f(t, X_old, True)\n\n    k1 = dxdt', '    dxdt, dt = f(t, X_old, True)\n    X_old += 0*dxdt\n\n    k1 = dxdt')], 'R6.3'),
    Entry('updateX-inplace', S, [('return x + self._flattenX(unflatdxdt)*dt', 'x += self._flattenX(unflatdxdt)*dt\n        return x')], 'R6.3'),
    Entry('updateX-second-order-term', S, [('return x + self._flattenX(unflatdxdt)*dt', 'return x + self._flattenX(unflatdxdt)*dt*dt')], 'R6.2'),
    Entry('wrapper-time-shift', S, [('dXdt = self._f(t, unflatX)', 'dXdt = self._f(self._dtmin, unflatX)')], 'R6.2'),
    Entry('flatten-returns-view', 'kawin/GenericModel.py', [('        return np.hstack(X)\n', '        if len(X) == 1:\n            return np.ravel(X[0])\n        return np.hstack(X)\n')], 'R6.5'),
    # behaviour-preserving variants
    Entry('benign-rename-locals', I, [('k3 = f(t + dt/2, X_k2)\n    dxdtsum += 2*k3\n    X_k3 = updateX(X_old, k3, dt)', 'slope3 = f(t + dt/2, X_k2)\n    dxdtsum += 2*slope3\n    X_k3 = updateX(X_old, slope3, dt)')], kind='benign'),
    Entry('benign-half-literal', I, [('k3 = f(t + dt/2, X_k2)', 'k3 = f(t + 0.5*dt, X_k2)')], kind='benign'),
    Entry('benign-no-accumulator', I, [('return updateX(X_old, dxdtsum/6, dt), dt', 'return updateX(X_old, (dxdtsum)*(1/6), dt), dt')], kind='benign'),
    Entry('benign-updateX-order', S, [('return x + self._flattenX(unflatdxdt)*dt', 'return dt*self._flattenX(unflatdxdt) + x')], kind='benign'),
]
