from ..selftest import Entry
T = 'kawin/thermo/Thermodynamics.py'
BT = 'kawin/thermo/BinTherm.py'
MT = 'kawin/thermo/MultiTherm.py'
LE = 'kawin/thermo/LocalEquilibrium.py'
DP = 'kawin/diffusion/DiffusionParameters.py'
SP = 'kawin/diffusion/SinglePhase.py'
UT = 'kawin/thermo/utils.py'
ENTRIES = [
    Entry('rebreak-F08', BT, [('        gExtra = np.atleast_1d(gExtra) + self.gOffset\n', '        gExtra = np.atleast_1d(gExtra)\n        gExtra += self.gOffset\n')], 'R9.1'),
    Entry('rebreak-F07', DP, [('        if not self._cache:\n            return None', '        if self._cache is None:\n            return None'), ('        if self._cache:\n            hash_value', '        if self._cache is not None:\n            hash_value')], 'R9.2'),
    Entry('lookup-guard-dropped', DP, [('        if not self._cache:\n            return None\n        else:\n            hash_value = self._hashingFunction(x, T)\n            return self.cachedData.get(hash_value, None)', '        hash_value = self._hashingFunction(x, T)\n        return self.cachedData.get(hash_value, None)')], 'R9.2'),
    Entry('insert-guard-dropped', DP, [('        if self._cache:\n            hash_value = self._hashingFunction(x, T)\n            self.cachedData[hash_value] = value', '        hash_value = self._hashingFunction(x, T)\n        self.cachedData[hash_value] = value')], 'R9.2'),
    Entry('key-ignores-temperature', DP, [('return hash(tuple((np.concatenate((x, [T]))*self.hash_sensitivity).astype(np.int32)))', 'return hash(tuple((np.asarray(x)*self.hash_sensitivity).astype(np.int32)))')], 'R9.3'),
    Entry('key-ignores-precision', DP, [('return hash(tuple((np.concatenate((x, [T]))*self.hash_sensitivity).astype(np.int32)))', 'return hash(tuple((np.concatenate((x, [T]))*1000).astype(np.int32)))')], 'R9.3'),
    Entry('insert-under-other-point', SP, [('self.hashTable.addToHashTable(x[:,i], T[i], inter_diff)', 'self.hashTable.addToHashTable(x[:,i], T[0], inter_diff)')], 'R9.3'),
    Entry('x-scaled-in-place', UT, [('    x = np.atleast_2d(x)\n    #For binary', '    x = np.atleast_2d(x)\n    x[x < 0] = 0\n    #For binary')], 'R9.1'),
    Entry('searchdir-normalised-in-place', MT, [('        searchDir = np.array(searchDir)\n        currX', '        searchDir = np.asarray(searchDir)\n        searchDir /= np.sum(searchDir) if np.sum(searchDir) > 1 else 1\n        currX')], 'R9.1'),
    Entry('growth-R-clamped-in-place', MT, [('    R = np.atleast_1d(R)\n    gExtra = np.atleast_1d(gExtra)\n\n    # Eq 28', '    R = np.atleast_1d(R)\n    R[R <= 0] = 1e-12\n    gExtra = np.atleast_1d(gExtra)\n\n    # Eq 28')], 'R9.1'),
    Entry('compsets-not-refreshed', LE, [('        for cs in composition_sets:\n            cs.dof[:state_variables.shape[0]] = state_variables\n', '        pass\n')], 'R9.4'),
    Entry('samples-reused-at-any-temperature', T, [('        if precPoints is None or prevT != T:', '        if precPoints is None:')], 'R9.4'),
    Entry('sample-cache-without-temperature', T, [('SampledPointsCache(temperature=T, samples=precPoints, ordered_samples=orderedPoints)', 'SampledPointsCache(samples=precPoints, ordered_samples=orderedPoints)')], 'R9.4'),
    Entry('tangent-skips-reset', T, [('        self._resetDrivingForceCache(precPhase, removeCache)\n        return np.squeeze(dg), np.squeeze(xb[unsortIndices[1:]])', '        return np.squeeze(dg), np.squeeze(xb[unsortIndices[1:]])')], 'R9.5'),
    Entry('approx-reset-only-when-cached', T, [('        self._resetDrivingForceCache(precPhase, removeCache)\n        return np.squeeze(dg), np.squeeze(xP[unsortIndices[1:]])', '        if self._matrix_cs is None:\n            self._resetDrivingForceCache(precPhase, removeCache)\n        return np.squeeze(dg), np.squeeze(xP[unsortIndices[1:]])')], 'R9.5'),
    Entry('reset-keeps-points', T, [('            self._matrix_cs = None\n            self._points_cache[phase] = SampledPointsCache()', '            self._matrix_cs = None')], 'R9.5'),
    Entry('batch-guard-endpoints', BT, [('        if len(np.unique(T)) == 1:', '        if T[0] == T[-1]:')], 'R9.6'),
    Entry('batch-guard-inverted', BT, [('        if len(np.unique(T)) == 1:', '        if len(np.unique(T)) != 1:')], 'R9.6'),
    Entry('batch-guard-more-than-one', BT, [('        if len(np.unique(T)) == 1:', '        if len(np.unique(T)) >= 1:')], 'R9.6'),
    # benign
    Entry('benign-batch-guard-swapped', BT, [('        if len(np.unique(T)) == 1:\n            caArray, cbArray = self._interfacialComposition(T[0], gExtra, precPhase)\n        else:\n            caArray, cbArray = zip(*[self._interfacialComposition(T[i], gExtra[i], precPhase) for i in range(len(T))])',
                                               '        if len(np.unique(T)) > 1:\n            caArray, cbArray = zip(*[self._interfacialComposition(T[i], gExtra[i], precPhase) for i in range(len(T))])\n        else:\n            caArray, cbArray = self._interfacialComposition(T[0], gExtra, precPhase)')], kind='benign'),
    Entry('benign-batch-guard-all', BT, [('        if len(np.unique(T)) == 1:', '        if np.all(T == T[0]):')], kind='benign'),
    Entry('benign-cache-flag-explicit', DP, [('        if not self._cache:\n            return None', '        if self._cache is False:\n            return None')], kind='benign'),
    Entry('benign-offset-copy', BT, [('        gExtra = np.atleast_1d(gExtra) + self.gOffset\n', '        gExtra = np.array(gExtra, dtype=np.float64, ndmin=1)\n        gExtra += self.gOffset\n')], kind='benign'),
    Entry('benign-samples-eq-test', T, [('        if precPoints is None or prevT != T:', '        if precPoints is None or not (prevT == T):')], kind='benign'),
    Entry('hash-table-shared-default', DP, [('    def __init__(self):\n        self._cache = True\n        self.cachedData = {}', '    def __init__(self, cachedData = {}):\n        self._cache = True\n        self.cachedData = cachedData')], 'R9.S'),
    Entry('benign-hash-table-none-default', DP, [('    def __init__(self):\n        self._cache = True\n        self.cachedData = {}', '    def __init__(self, cachedData = None):\n        self._cache = True\n        self.cachedData = {} if cachedData is None else cachedData')], kind='benign'),
    Entry('batch-per-point-sorted', BT, [('for i in range(len(T))])', 'for i in np.argsort(T)])')], 'R9.6'),
]
