from ..selftest import Entry
T = 'kawin/thermo/Thermodynamics.py'
M = 'kawin/thermo/MultiTherm.py'
DP = 'kawin/diffusion/DiffusionParameters.py'
HP = 'kawin/diffusion/HomogenizationParameters.py'
PP = 'kawin/precipitation/PrecipitationParameters.py'
K = 'kawin/precipitation/KWNEuler.py'
B = 'kawin/precipitation/KWNBase.py'
ENTRIES = [
    Entry('rebreak-F04', PP, [('                dV[p] = VmAlpha / VmBeta[p]', '                dV = VmAlpha / VmBeta[p]'), ('                if dV[p] != 0:\n                    dtVol[p] = self.maxVolumeChange / (2 * np.abs(dV[p]))', '                if dV != 0:\n                    dtVol[p] = self.maxVolumeChange / (2 * np.abs(dV))')], 'R11.2'),
    Entry('tracer-not-unsorted', T, [('        Dtrace = Dtrace[unsortIndices]\n', '')], 'R11.1'),
    Entry('interdiffusivity-rows-only', T, [('            Dnkj = Dnkj[unsortIndices,:]\n            Dnkj = Dnkj[:,unsortIndices]', '            Dnkj = Dnkj[unsortIndices,:]')], 'R11.1'),
    Entry('interdiffusivity-sort-instead-of-unsort', T, [('            Dnkj = Dnkj[unsortIndices,:]\n            Dnkj = Dnkj[:,unsortIndices]', '            Dnkj = Dnkj[sortIndices,:]\n            Dnkj = Dnkj[:,sortIndices]')], 'R11.1'),
    Entry('sampling-composition-alphabetical', T, [('        beta_x = beta_x[unsortIndices]\n', '')], 'R11.1'),
    Entry('approx-composition-alphabetical', T, [('return np.squeeze(dg), np.squeeze(xP[unsortIndices[1:]])', 'return np.squeeze(dg), np.squeeze(xP[1:])')], 'R11.1'),
    Entry('curvature-user-x-not-sorted', T, [('        x = x[sortIndices]\n        xD = np.array([x - xM])', '        xD = np.array([x - xM])')], 'R11.1'),
    Entry('unsort-is-sort', T, [('        sortIndices = np.argsort(self.elements[:-1])\n        unsortIndices = np.argsort(sortIndices)\n        Dtrace', '        sortIndices = np.argsort(self.elements[:-1])\n        unsortIndices = np.argsort(self.elements[:-1])\n        Dtrace')], 'R11.1'),
    Entry('sort-includes-vacancy', T, [('        sortIndices = np.argsort(self.elements[:-1])\n        unsortIndices = np.argsort(sortIndices)\n        Dtrace', '        sortIndices = np.argsort(self.elements)\n        unsortIndices = np.argsort(sortIndices)\n        Dtrace')], 'R11.1'),
    Entry('multi-eq-composition-alphabetical', M, [('            return xM[unsortIndices], xP[unsortIndices]', '            return xM, xP[unsortIndices]')], 'R11.1'),
    Entry('curvature-gba-columns-only', M, [('            Gba = Gba[unsortIndices,:]\n            Gba = Gba[:,unsortIndices]', '            Gba = Gba[:,unsortIndices]')], 'R11.1'),
    Entry('curvature-dc-alphabetical', M, [('CurvatureOutput(dc=num[unsortIndices]/den,', 'CurvatureOutput(dc=num/den,')], 'R11.1'),
    Entry('curvature-ceq-alphabetical', M, [('c_eq_alpha=xM[unsortIndices],', 'c_eq_alpha=xM,')], 'R11.1'),
    Entry('mobility-chempot-alphabetical', DP, [('chemical_potentials = np.squeeze(wks.eq.MU)[unsortIndices]', 'chemical_potentials = np.squeeze(wks.eq.MU)')], 'R11.1'),
    Entry('mobility-rows-alphabetical', DP, [("mob[p,:] = mobility_from_composition_set(cs, therm.mobCallables[phases[p]], therm.mobility_correction)[unsortIndices]", "mob[p,:] = mobility_from_composition_set(cs, therm.mobCallables[phases[p]], therm.mobility_correction)")], 'R11.1'),
    Entry('bc-by-insertion-order', DP, [('        for i, e in enumerate(elements):\n            fluxes[i,0] = self.leftBC[e] if self.leftBCtype[e] == self.FLUX_BC else fluxes[i,1]\n            fluxes[i,-1] = self.rightBC[e] if self.rightBCtype[e] == self.FLUX_BC else fluxes[i,-2]',
                                         '        for i, (e, t) in enumerate(self.leftBCtype.items()):\n            fluxes[i,0] = self.leftBC[e] if t == self.FLUX_BC else fluxes[i,1]\n        for i, (e, t) in enumerate(self.rightBCtype.items()):\n            fluxes[i,-1] = self.rightBC[e] if t == self.FLUX_BC else fluxes[i,-2]')], 'R11.4'),
    Entry('bc-row-zero', DP, [('                x[i,0] = self.leftBC[e]', '                x[0,0] = self.leftBC[e]')], 'R11.4'),
    Entry('closure-late-binding', K, [('arFunc = lambda R, p1=p : self._interpolateAspectRatio(R, p1)', 'arFunc = lambda R: self._interpolateAspectRatio(R, p)')], 'R11.3'),
    Entry('nucleation-first-phase-params', B, [('            precParams = self.precipitateParameters[p]\n\n            # Compute driving force', '            precParams = self.precipitateParameters[0]\n\n            # Compute driving force')], 'R11.2'),
    Entry('psd-dt-breaks-at-first', PP, [('                for p in range(len(phases)):\n                    if nRateCurr[p] > self.minNucleationRate and nRatePrev[p] > self.minNucleationRate and nRatePrev[p] != nRateCurr[p]:\n                        dtNuc[p] =',
                                         '                for p in range(len(phases)):\n                    if nRateCurr[p] <= self.minNucleationRate:\n                        break\n                    if nRateCurr[p] > self.minNucleationRate and nRatePrev[p] > self.minNucleationRate and nRatePrev[p] != nRateCurr[p]:\n                        dtNuc[p] =')], 'R11.2'),
    Entry('stop-flag-last-wins', 'kawin/GenericModel.py', [('            stop = stop or s\n', '            stop = s\n')], 'R11.2'),
    # benign
    Entry('benign-both-axes-at-once', T, [('            Dnkj = Dnkj[unsortIndices,:]\n            Dnkj = Dnkj[:,unsortIndices]', '            Dnkj = Dnkj[unsortIndices,:][:,unsortIndices]')], kind='benign'),
    Entry('benign-columns-first', M, [('            Gba = Gba[unsortIndices,:]\n            Gba = Gba[:,unsortIndices]', '            Gba = Gba[:,unsortIndices]\n            Gba = Gba[unsortIndices,:]')], kind='benign'),
    Entry('benign-closure-default-bound', K, [('arFunc = lambda R, p1=p : self._interpolateAspectRatio(R, p1)', 'arFunc = lambda R, phaseIndex=p : self._interpolateAspectRatio(R, phaseIndex)')], kind='benign'),
    Entry('benign-reduction-min', PP, [('                if dV[p] != 0:\n                    dtVol[p] = self.maxVolumeChange / (2 * np.abs(dV[p]))\n            return np.amin(dtVol)', '                if dV[p] != 0:\n                    dtVol[p] = self.maxVolumeChange / (2 * np.abs(dV[p]))\n            return min(dtVol)')], kind='benign'),
]
