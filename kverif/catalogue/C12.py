from ..selftest import Entry
N = 'kawin/precipitation/NucleationRate.py'
P = 'kawin/precipitation/PrecipitationParameters.py'
M = 'kawin/thermo/MultiTherm.py'
K = 'kawin/precipitation/KWNEuler.py'
T = 'kawin/thermo/Thermodynamics.py'
ENTRIES = [
    Entry('growth-sign', M, [('    Rdiff = (dG - gExtra)', '    Rdiff = (gExtra - dG)')], 'R12.1'),
    Entry('growth-square-radius', M, [('    gr = (curvature.mc / R) * Rdiff', '    gr = (curvature.mc / R**2) * Rdiff')], 'R12.1'),
    Entry('gibbs-thomson-factor', P, [('        return vmbeta * (strain + 2*thermoFactor*self.gamma / r)', '        return vmbeta * (strain + thermoFactor*self.gamma / r)')], 'R12.2'),
    Entry('gibbs-thomson-no-vm', P, [('        return vmbeta * (strain + 2*thermoFactor*self.gamma / r)', '        return (strain + 2*thermoFactor*self.gamma / r)')], 'R12.2'),
    Entry('driving-force-not-scaled', K, [('self.therm.getGrowthAndInterfacialComposition(xComp, T, dGs[p] * self.precipitateParameters[p].volume.Vm, self.PBM[p].PSDbounds', 'self.therm.getGrowthAndInterfacialComposition(xComp, T, dGs[p], self.PBM[p].PSDbounds')], 'R12.2'),
    Entry('driving-force-matrix-volume', K, [('self.therm.getGrowthAndInterfacialComposition(xComp, T, dGs[p] * self.precipitateParameters[p].volume.Vm, self.PBM[p].PSDbounds', 'self.therm.getGrowthAndInterfacialComposition(xComp, T, dGs[p] * self.matrixParameters.volume.Vm, self.PBM[p].PSDbounds')], 'R12.2'),
    Entry('volumetric-adds-strain', N, [('    volDGs -= precipitate.strainEnergy.compute(', '    volDGs += precipitate.strainEnergy.compute(')], 'R12.2'),
    Entry('rcrit-no-factor-two', N, [('RcritProposal = 2*precipitate.shapeFactor.description.thermoFactor(aspectRatio) * precipitate.gamma / volumeDrivingForce[indices]', 'RcritProposal = precipitate.shapeFactor.description.thermoFactor(aspectRatio) * precipitate.gamma / volumeDrivingForce[indices]')], 'R12.2'),
    Entry('lookup-other-gibbs', K, [('self.therm.getInterfacialComposition(T, self.particleGibbs(self.PBM[p].PSDbounds, self.precipitateParameters[p].phase), precPhase=self.precipitateParameters[p].phase)', 'self.therm.getInterfacialComposition(T, self.particleGibbs(self.PBM[p].PSDbounds, self.precipitateParameters[0].phase), precPhase=self.precipitateParameters[p].phase)')], 'R12.3'),
    Entry('aspect-ratio-as-radius', N, [('2*precipitate.shapeFactor.description.thermoFactor(aspectRatio)', '2*precipitate.shapeFactor.thermoFactor(aspectRatio)')], 'R12.4'),
    Entry('samples-any-temperature', T, [('        if precPoints is None or prevT != T:', '        if precPoints is None:')], 'R12.5/R9.4'),
    Entry('benign-growth-regrouped', M, [('    gr = (curvature.mc / R) * Rdiff', '    gr = curvature.mc * Rdiff / R')], kind='benign'),
    Entry('benign-gibbs-distributed', P, [('        return vmbeta * (strain + 2*thermoFactor*self.gamma / r)', '        return vmbeta * strain + 2*vmbeta*thermoFactor*self.gamma / r')], kind='benign'),
    Entry('benign-beta-exit-not', 'kawin/precipitation/KWNBase.py', [('            if beta == 0:\n                continue\n', '            if not beta:\n                continue\n')], kind='benign'),
    Entry('early-exit-small-rate', 'kawin/precipitation/KWNBase.py', [('            # Zeldovich factor\n', '            if beta < 1e-30:\n                continue\n            # Zeldovich factor\n')], 'R12.7'),
]
