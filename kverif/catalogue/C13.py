from ..selftest import Entry
K = 'kawin/precipitation/KWNEuler.py'
B = 'kawin/precipitation/KWNBase.py'
PP = 'kawin/precipitation/PrecipitationParameters.py'
DP = 'kawin/diffusion/DiffusionParameters.py'
ENTRIES = [
    Entry('rebreak-F03', PP, [('        self._isIsothermal = True\n        self.setTemperatureParameters(*args)', '        self.setTemperatureParameters(*args)\n        self._isIsothermal = True')], 'R13.1'),
    Entry('rebreak-F02', K, [('            xEqAlpha, xEqBeta = self._createLookupBinary(T)\n            self.dTemp = 0\n        else:\n            xEqAlpha, xEqBeta = np.array([self.pData.xEqAlpha[self.pData.n]]), np.array([self.pData.xEqBeta[self.pData.n]])',
                             '            xEqAlpha, xEqBeta = self._createLookupBinary(T)\n        else:\n            xEqAlpha, xEqBeta = np.array([self.pData.xEqAlpha[self.pData.n]]), np.array([self.pData.xEqBeta[self.pData.n]])\n            self.dTemp = 0')], 'R13.3'),
    Entry('rebuild-never-resets', K, [('            xEqAlpha, xEqBeta = self._createLookupBinary(T)\n            self.dTemp = 0\n', '            xEqAlpha, xEqBeta = self._createLookupBinary(T)\n')], 'R13.3'),
    Entry('reset-every-step', K, [('        Y.xEqAlpha = xEqAlpha\n        Y.xEqBeta = xEqBeta\n        \n        return [self._singleGrowthBinary', '        Y.xEqAlpha = xEqAlpha\n        Y.xEqBeta = xEqBeta\n        self.dTemp = 0\n        \n        return [self._singleGrowthBinary')], 'R13.3'),
    Entry('heating-only-test', K, [('        if np.abs(self.dTemp) > self.constraints.maxTempChange:', '        if self.dTemp > self.constraints.maxTempChange:')], 'R13.3'),
    Entry('rebuild-at-old-temperature', K, [('            xEqAlpha, xEqBeta = self._createLookupBinary(T)\n            self.dTemp = 0', '            xEqAlpha, xEqBeta = self._createLookupBinary(self.pData.temperature[self.pData.n])\n            self.dTemp = 0')], 'R13.3'),
    Entry('accumulator-not-incremented', K, [('        self.dTemp += T - self.pData.temperature[self.pData.n]\n', '        self.dTemp = T - self.pData.temperature[self.pData.n]\n')], 'R13.3'),
    Entry('array-setter-flag-true', PP, [('    def setTemperatureArray(self, times: list[float], temperatures: list[float]):\n        self._isIsothermal = False', '    def setTemperatureArray(self, times: list[float], temperatures: list[float]):\n        self._isIsothermal = True')], 'R13.2'),
    Entry('function-setter-no-flag', PP, [('    def setTemperatureFunction(self, func):\n        self._isIsothermal = False\n', '    def setTemperatureFunction(self, func):\n')], 'R13.2'),
    Entry('incubation-selection-inverted', B, [('            if self.temperatureParameters._isIsothermal:\n                tau = nucfuncs.incubationTime(beta, Z, self.matrixParameters)', '            if not self.temperatureParameters._isIsothermal:\n                tau = nucfuncs.incubationTime(beta, Z, self.matrixParameters)')], 'R13.2'),
    Entry('stage-temperature-at-last-step', B, [('            self._currY.temperature = np.array([self.temperatureParameters(t)])', '            self._currY.temperature = np.array([self.temperatureParameters(self.pData.time[self.pData.n])])')], 'R13.4'),
    Entry('setup-temperature-at-zero', K, [('        Y.temperature = np.array([self.temperatureParameters(Y.time[0])])', '        Y.temperature = np.array([self.temperatureParameters(0)])')], 'R13.4'),
    Entry('seconds-not-hours', PP, [('self.Tfunction = lambda t: np.interp(t/3600, self.Tparameters[0]', 'self.Tfunction = lambda t: np.interp(t, self.Tparameters[0]')], 'R13.5'),
    Entry('diffusion-fill-swapped', DP, [('self.Tparameters[1], self.Tparameters[1][0], self.Tparameters[1][-1]) * np.ones(len(z))', 'self.Tparameters[1], self.Tparameters[1][-1], self.Tparameters[1][0]) * np.ones(len(z))')], 'R13.5'),
    Entry('diffusion-ctor-default-after-setter', DP, [('        else:\n            self.Tparameters = None\n            self.Tfunction = None\n\n    def setIsothermalTemperature(self, T: float):\n        \'\'\'\n        Sets isothermal temperature',
                                                      '        else:\n            self.Tparameters = None\n            self.Tfunction = None\n        self.Tparameters = args[0] if args else None\n\n    def setIsothermalTemperature(self, T: float):\n        \'\'\'\n        Sets isothermal temperature')], 'R13.1'),
    Entry('temperature-only-when-non-isothermal', B, [('            self._currY.temperature = np.array([self.temperatureParameters(t)])', '            if not self.temperatureParameters._isIsothermal:\n                self._currY.temperature = np.array([self.temperatureParameters(t)])')], 'R13.4'),
    Entry('accumulator-reset-on-partial-update', K, [('                self.growth, _ = self._growthRate(self.pData.copySlice(self.pData.n))', '                if self.numberOfElements == 1:\n                    self.dTemp = 0\n                self.growth, _ = self._growthRate(self.pData.copySlice(self.pData.n))')], 'R13.3'),
    # benign
    Entry('benign-reset-before-rebuild', K, [('            xEqAlpha, xEqBeta = self._createLookupBinary(T)\n            self.dTemp = 0', '            self.dTemp = 0\n            xEqAlpha, xEqBeta = self._createLookupBinary(T)')], kind='benign'),
    Entry('benign-ctor-explicit-default', PP, [('        self._isIsothermal = True\n        self.setTemperatureParameters(*args)', '        self._isIsothermal = True\n        self.Tparameters = None\n        self.setTemperatureParameters(*args)')], kind='benign'),
    Entry('benign-test-ge', K, [('        if np.abs(self.dTemp) > self.constraints.maxTempChange:', '        if np.abs(self.dTemp) >= self.constraints.maxTempChange:')], kind='benign'),
    Entry('benign-temperature-from-record-time', B, [('            self._currY.temperature = np.array([self.temperatureParameters(t)])', '            self._currY.temperature = np.array([self.temperatureParameters(self._currY.time[0])])')], kind='benign'),
]
