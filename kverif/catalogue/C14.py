from ..selftest import Entry
N = 'kawin/precipitation/parameters/Nucleation.py'
R = 'kawin/precipitation/NucleationRate.py'
K = 'kawin/precipitation/KWNEuler.py'
B = 'kawin/precipitation/KWNBase.py'
PP = 'kawin/precipitation/PrecipitationParameters.py'
ENTRIES = [
    Entry('rebreak-F30', N, [("        if self.GBk >= self.description.maxRatio:", "        if self.GBk > self.description.maxRatio:")], 'R14.9'),
    Entry('evaluator-mask-inclusive-only', N, [("        if self.GBk >= self.description.maxRatio:", "        if self.description.maxRatio < self.GBk:")], 'R14.9'),
    Entry('benign-validator-swapped-operands', N, [("        if self.GBk >= self.description.maxRatio:", "        if self.description.maxRatio <= self.GBk:")], kind='benign'),
    Entry('benign-validator-negated', N, [("        if self.GBk >= self.description.maxRatio:", "        if not (self.GBk < self.description.maxRatio):")], kind='benign'),
    Entry('benign-both-inclusive', N, [("        if self.GBk >= self.description.maxRatio:", "        if self.GBk > self.description.maxRatio:"), ("        indices = gbk < self.maxRatio", "        indices = gbk <= self.maxRatio")], kind='benign'),
    Entry('gamma-setter-no-reset', N, [('        self._gamma = value\n        self._resetFactors()', '        self._gamma = value')], 'R14.1'),
    Entry('gbenergy-setter-no-reset', N, [('        self._gbEnergy = value\n        self._resetFactors()', '        self._gbEnergy = value')], 'R14.1'),
    Entry('description-setter-no-reset', N, [('        self._description = value\n        self._resetFactors()\n        for callback', '        self._description = value\n        for callback')], 'R14.1'),
    Entry('reset-forgets-volume-factor', N, [('        self._areaFactor = None\n        self._volumeFactor = None\n', '        self._areaFactor = None\n')], 'R14.1'),
    Entry('reset-before-write', N, [('        self._gbEnergy = value\n        self._resetFactors()', '        self._resetFactors()\n        self._areaFactor = self.areaFactor\n        self._gbEnergy = value')], 'R14.1'),
    Entry('new-cache-not-cleared', N, [('    def Rcrit(self, dG):', '    @property\n    def gbTerm(self):\n        if self._gbTerm is None:\n            self._gbTerm = self.gbRemoval * self.gbEnergy\n        return self._gbTerm\n\n    def Rcrit(self, dG):'),
                                      ('        self._gbEnergy = gbEnergy\n        self._gamma = gamma\n', '        self._gbEnergy = gbEnergy\n        self._gamma = gamma\n        self._gbTerm = None\n')], 'R14.1'),
    Entry('gamma-bypasses-setter', PP, [('        self.nucleation.gamma = self.gamma\n', '        self.nucleation._gamma = self.gamma\n')], 'R14.1'),
    Entry('rebreak-F16', B, [('            Y.Rcrit[0,p] = 0\n            Y.Gcrit[0,p] = 0\n            Y.impingement[0,p] = 0\n            Y.nucRate[0,p] = 0\n            Y.Rnuc[0,p] = 0\n            if volDG < 0:', '            if volDG < 0:')], 'R14.2/R2.4'),
    Entry('sites-identity-compare', K, [('bulkPrec = np.sum([self.PBM[p2].ZeroMomentFromN(x[p2]) for p2 in range(len(self.phases)) if isinstance(nucParams[p2].description, BulkDescription)])',
                                         'bulkPrec = np.sum([self.PBM[p2].ZeroMomentFromN(x[p2]) for p2 in range(len(self.phases)) if nucParams[p2].description == nucParams[p].description])')], 'R14.3'),
    Entry('sites-own-phase-only', K, [('cornerPrec = np.sum([self.PBM[p2].ZeroMomentFromN(x[p2]) for p2 in range(len(self.phases)) if isinstance(nucParams[p2].description, GrainCornerDescription)])',
                                       'cornerPrec = self.PBM[p].ZeroMomentFromN(x[p])')], 'R14.3'),
    Entry('sites-wrong-class', K, [('edgePrec = np.sum([np.sqrt(1 - nucParams[p2].GBk**2) * self.PBM[p2].FirstMomentFromN(x[p2]) for p2 in range(len(self.phases)) if isinstance(nucParams[p2].description, GrainEdgeDescription)])',
                                    'edgePrec = np.sum([np.sqrt(1 - nucParams[p2].GBk**2) * self.PBM[p2].FirstMomentFromN(x[p2]) for p2 in range(len(self.phases)) if isinstance(nucParams[p2].description, GrainCornerDescription)])')], 'R14.3'),
    Entry('sites-negative', K, [('        return np.amax([nucleationSites, 0])', '        return nucleationSites')], 'R14.3'),
    Entry('barrier-nonstrict-mask', R, [('    indices = volumeDrivingForce > 0\n', '    indices = volumeDrivingForce >= 0\n')], 'R14.4'),
    Entry('rate-not-zero-initialised', R, [('    nucRate = np.zeros(Gcrit.shape)', '    nucRate = np.ones(Gcrit.shape)')], 'R14.4'),
    Entry('zeldovich-unmasked', R, [('    Z[indices] /= (2 * np.pi * AVOGADROS_NUMBER * Rcrit[indices]**2)', '    Z /= (2 * np.pi * AVOGADROS_NUMBER * Rcrit**2)')], 'R14.4'),
    Entry('incubation-factor-unbounded', R, [('incubationTime = np.amin([np.exp(-tau[indices] / time), np.ones(tau[indices].shape)], axis=0)', 'incubationTime = np.exp(-tau[indices] / time)')], 'R14.4'),
    Entry('boundary-volume-coefficient', N, [('        return (2*np.pi/3) * (2 - 3*gbk + gbk**3)', '        return (2*np.pi/3) * (2 - 3*gbk + gbk**2)')], 'R14.5'),
    Entry('edge-area-coefficient', N, [('        return 12 * (np.pi/2 - alpha - gbk*beta)', '        return 12 * (np.pi/2 - alpha - beta)')], 'R14.5'),
    Entry('corner-removal-coefficient', N, [('        return 3*(2*phi*(1 - gbk**2) - K*(np.sqrt(1 - gbk**2 - K**2 / 4) - K**2 / np.sqrt(8)))', '        return 3*(2*phi*(1 - gbk**2) - K*(np.sqrt(1 - gbk**2 - K**2 / 4) - K**2 / np.sqrt(6)))')], 'R14.5'),
    Entry('rcrit-missing-factor', N, [('return (2 * (self.areaFactor * self.gamma - self.gbRemoval * self.gbEnergy)) / (3 * self.volumeFactor * dG)', 'return (2 * (self.areaFactor * self.gamma - self.gbRemoval * self.gbEnergy)) / (self.volumeFactor * dG)')], 'R14.5'),
    Entry('gcrit-sign', N, [('return Rcrit**2 * ((self.areaFactor * self.gamma - self.gbRemoval * self.gbEnergy) - self.volumeFactor * dG * Rcrit)', 'return Rcrit**2 * ((self.areaFactor * self.gamma + self.gbRemoval * self.gbEnergy) - self.volumeFactor * dG * Rcrit)')], 'R14.5'),
    Entry('bulk-rcrit-no-factor-two', R, [('RcritProposal = 2*precipitate.shapeFactor.description.thermoFactor(aspectRatio) * precipitate.gamma / volumeDrivingForce[indices]', 'RcritProposal = precipitate.shapeFactor.description.thermoFactor(aspectRatio) * precipitate.gamma / volumeDrivingForce[indices]')], 'R14.5'),
    Entry('bulk-rcrit-no-minimum', R, [('        Rcrit[indices] = np.amax([RcritProposal, Rmin[indices]], axis=0)\n        Gcrit[indices] = (4*np.pi/3)', '        Rcrit[indices] = RcritProposal\n        Gcrit[indices] = (4*np.pi/3)')], 'R14.5'),
    # benign
    Entry('benign-boundary-volume-expanded', N, [('        return (2*np.pi/3) * (2 - 3*gbk + gbk**3)', '        return (4*np.pi/3) - 2*np.pi*gbk + (2*np.pi/3)*gbk**3')], kind='benign'),
    Entry('benign-rcrit-regrouped', N, [('return (2 * (self.areaFactor * self.gamma - self.gbRemoval * self.gbEnergy)) / (3 * self.volumeFactor * dG)', 'return (2/3) * (self.areaFactor * self.gamma - self.gbRemoval * self.gbEnergy) / (self.volumeFactor * dG)')], kind='benign'),
    Entry('benign-reset-order', N, [('        self._GBk = None\n        self._areaFactor = None\n', '        self._areaFactor = None\n        self._GBk = None\n')], kind='benign'),
    Entry('benign-edge-area-distributed', N, [('        return 12 * (np.pi/2 - alpha - gbk*beta)', '        return 6*np.pi - 12*alpha - 12*gbk*beta')], kind='benign'),
]
