from ..selftest import Entry
S = 'kawin/precipitation/parameters/ShapeFactors.py'
ENTRIES = [
    Entry('rebreak-F09', S, [('        ar = np.maximum(np.atleast_1d(ar), 1)\n        return ar', '        ar = np.atleast_1d(ar)\n        ar[ar < 1] = 1\n        return ar')], 'R15.1'),
    Entry('rebreak-F20', S, [('        self.eqRadiusFactorMin = self._eqRadius(1)', '        self.eqRadiusFactorMin = self.eqRadiusFactor(1)')], 'R15.3'),
    Entry('rebreak-F20-thermo', S, [('        self.thermoFactorMin = self._thermoFactor(1)', '        self.thermoFactorMin = self.thermoFactor(1)')], 'R15.3'),
    Entry('needle-axes-wrong-volume', S, [('        scale = np.cbrt(1 / ar)\n        return np.cbrt((3 / (4 * np.pi))) * np.array([scale, scale, scale * ar]).T', '        scale = np.sqrt(1 / ar)\n        return np.cbrt((3 / (4 * np.pi))) * np.array([scale, scale, scale * ar]).T')], 'R15.2'),
    Entry('plate-axes-wrong-ratio', S, [('return np.cbrt((3 / (4 * np.pi))) * np.array([scale * ar, scale * ar, scale]).T', 'return np.cbrt((3 / (4 * np.pi))) * np.array([scale * ar, scale * ar**2, scale / ar]).T')], 'R15.2'),
    Entry('sphere-radius-constant', S, [('return np.cbrt((3 / (4 * np.pi))) * np.ones((len(ar), 3))', 'return np.cbrt((3 / (2 * np.pi))) * np.ones((len(ar), 3))')], 'R15.2'),
    Entry('needle-thermo-limit', S, [('return (1 / (2 * ar**(2/3))) * (1 + ar / ecc * np.arcsin(ecc))', 'return (1 / (ar**(2/3))) * (1 + ar / ecc * np.arcsin(ecc))')], 'R15.2'),
    Entry('plate-kinetic-limit', S, [('return ecc * np.cbrt(ar) / (np.pi/2 - np.arccos(ecc))', 'return ecc * np.cbrt(ar) / (np.pi - np.arccos(ecc))')], 'R15.2'),
    Entry('needle-eqradius', S, [('        return np.cbrt(ar)\n', '        return np.cbrt(2*ar)\n')], 'R15.2'),
    Entry('buffer-inherits-int-dtype', S, [('        factor = self.thermoFactorMin * np.ones(ar.shape)', '        factor = np.full_like(ar, self.thermoFactorMin)')], 'R15.4'),
    Entry('scalar-equation-in-place', S, [('        R = np.atleast_1d(R)\n        return np.squeeze(self._aspectRatioScalar * np.ones(R.shape))', '        R = np.atleast_1d(R)\n        R[:] = self._aspectRatioScalar\n        return np.squeeze(R)')], 'R15.1'),
    Entry('stale-scalar-thermo-cache', S, [('            self._aspectRatioScalar = ar\n', '            self._aspectRatioScalar = ar\n            self._thermoScalar = self.description.thermoFactor(ar)\n')], 'R15.5'),
    Entry('bisection-narrowed-bracket', S, [('        maxR = Rmax\n', '        maxR = np.minimum(Rmax, 10*RcritSphere)\n')], 'R15.7'),
    Entry('bisection-both-ends-moved', S, [('            else:\n                maxR = midR\n                fMax = fMid\n', '            else:\n                maxR = midR\n                fMax = fMid\n                minR = RcritSphere\n')], 'R15.7'),
    Entry('bisection-midpoint-not-recomputed', S, [('            midR = (minR + maxR) / 2\n            fMid = midR / (RcritSphere * self.thermoFactor(midR)) - 1\n', '            fMid = midR / (RcritSphere * self.thermoFactor(midR)) - 1\n')], 'R15.7'),
    # benign
    Entry('benign-min-from-formula-above-one', S, [('        self.eqRadiusFactorMin = self._eqRadius(1)', '        self.eqRadiusFactorMin = self.eqRadiusFactor(1.0000001)')], kind='benign'),
    Entry('benign-needle-scale-power', S, [('        scale = np.cbrt(1 / ar)\n        return np.cbrt((3 / (4 * np.pi))) * np.array([scale, scale, scale * ar]).T', '        scale = ar**(-1/3)\n        return np.cbrt((3 / (4 * np.pi))) * np.array([scale, scale, scale * ar]).T')], kind='benign'),
    Entry('benign-clamp-where', S, [('        ar = np.maximum(np.atleast_1d(ar), 1)\n        return ar', '        ar = np.where(np.atleast_1d(ar) < 1, 1, np.atleast_1d(ar))\n        return ar')], kind='benign'),
    Entry('benign-bisection-half', S, [('            midR = (minR + maxR) / 2\n            fMid', '            midR = 0.5 * (minR + maxR)\n            fMid'), ('        midR = (minR + maxR) / 2\n        \n', '        midR = 0.5 * (minR + maxR)\n        \n')], kind='benign'),
]
