from ..selftest import Entry
E = 'kawin/precipitation/parameters/ElasticFactors.py'
L = 'kawin/precipitation/parameters/LebedevNodes.py'
ENTRIES = [
    Entry('rebreak-F12', E, [('        self.rotation = np.array(rot)\n        # Rotated tensors are computed in update(), so refresh them if the elastic constants were already set\n        if self.unrotated_cMatrix_4th.any():\n            self.update()\n', '        self.rotation = np.array(rot)\n')], 'R16.1'),
    Entry('rebreak-F12-prec', E, [('        self.rotationPrec = np.array(rot)\n        if self.unrotated_cMatrix_4th.any():\n            self.update()', '        self.rotationPrec = np.array(rot)')], 'R16.1'),
    Entry('stiffness-setter-no-update', E, [('            raise ValueError("Precipitate tensor must be 2nd rank (6x6) or 4th rank (3x3x3x3)")\n        self.update()', '            raise ValueError("Precipitate tensor must be 2nd rank (6x6) or 4th rank (3x3x3x3)")')], 'R16.1'),
    Entry('rotation-partial-refresh', E, [('        self.rotation = np.array(rot)\n        # Rotated tensors are computed in update(), so refresh them if the elastic constants were already set\n        if self.unrotated_cMatrix_4th.any():\n            self.update()\n',
                                           '        self.rotation = np.array(rot)\n        if self.unrotated_cMatrix_4th.any():\n            self.params.cMatrix_4th = rotateRank4Tensor(self.rotation, self.unrotated_cMatrix_4th)\n            self.params.cMatrix_2nd = convert4To2rankTensor(self.params.cMatrix_4th)\n')], 'R16.1'),
    Entry('moduli-EK-sign', E, [('            G = 3*K*E / (9*K - E)', '            G = 3*K*E / (9*K + E)')], 'R16.3'),
    Entry('moduli-nuM-factor', E, [('            G = M * (1 - 2*nu) / (2 * (1 - nu))', '            G = M * (1 - 2*nu) / (1 - nu)')], 'R16.3'),
    Entry('moduli-Elam-root', E, [('            R = np.sqrt(E**2 + 9*lam**2 + 2*E*lam)', '            R = np.sqrt(E**2 + 9*lam**2 - 2*E*lam)')], 'R16.3'),
    Entry('moduli-GK-missing-nu', E, [('            E = 9*K*G / (3*K + G)\n            nu = (3*K - 2*G) / (2*(3*K + G))', '            E = 9*K*G / (3*K + G)\n            nu = (3*K - 2*G) / (3*K + G)')], 'R16.3'),
    Entry('compliance-shear-E', E, [('    s[3,3], s[4,4], s[5,5] = 1/G, 1/G, 1/G', '    s[3,3], s[4,4], s[5,5] = 1/E, 1/E, 1/E')], 'R16.3'),
    Entry('voigt-shear-swapped', E, [('    vMap = [[0,0], [1,1], [2,2], [1,2], [0,2], [0,1]]', '    vMap = [[0,0], [1,1], [2,2], [0,1], [0,2], [1,2]]')], 'R16.4'),
    Entry('vector-map-swapped', E, [('    return np.array([c[0,0], c[1,1], c[2,2], c[1,2], c[0,2], c[0,1]])', '    return np.array([c[0,0], c[1,1], c[2,2], c[0,1], c[0,2], c[1,2]])')], 'R16.4'),
    Entry('bohm-operator-order', E, [('        stressC = self._multiply(cM4, self._multiply(self._multiply(S, multTerm), eigenstrain))\n        stress0 = self._multiply(cM4, self._multiply(multTerm, eigenstrain))\n        return self._strainEnergy(stressC-stress0, eigenstrain, V)',
                                      '        stressC = self._multiply(cM4, self._multiply(self._multiply(multTerm, S), eigenstrain))\n        stress0 = self._multiply(cM4, self._multiply(multTerm, eigenstrain))\n        return self._strainEnergy(stressC-stress0, eigenstrain, V)')], 'R16.5'),
    Entry('ellipsoid-2nd-rank-missing-identity', E, [('        multTerm = np.matmul(c2, S - np.eye(6))', '        multTerm = np.matmul(c2, S)')], 'R16.5'),
    Entry('weight-digit', L, [("q53 = [ ('A1', 0.000143829419053)", "q53 = [ ('A1', 0.000143829429053)")], 'R16.2'),
    Entry('orbit-multiplicity', L, [('            w = [node[i][1] for n in range(24)]\n            weights = np.concatenate((weights, w))\n\n        #C - (i, i, j)', '            w = [node[i][1] for n in range(20)]\n            weights = np.concatenate((weights, w))\n\n        #C - (i, i, j)')], 'R16.2'),
    Entry('A1-axis-point', L, [('            theta = np.concatenate((theta, [np.pi/2, np.pi/2, np.pi/2, np.pi/2, 0, np.pi]))', '            theta = np.concatenate((theta, [np.pi/2, np.pi/2, np.pi/2, np.pi/2, 0, np.pi/4]))')], 'R16.2'),
    # benign
    Entry('benign-rotation-always-updates', E, [('        self.rotationPrec = np.array(rot)\n        if self.unrotated_cMatrix_4th.any():\n            self.update()', '        self.rotationPrec = np.array(rot)\n        if self.unrotated_cMatrix_4th.any() or self.unrotated_cPrec_4th.any():\n            self.update()')], kind='benign'),
    Entry('benign-moduli-regrouped', E, [('            G = 3*K*E / (9*K - E)', '            G = 3*E / (9 - E/K)')], kind='benign'),
    Entry('benign-bohm-named-intermediate', E, [('        stressC = self._multiply(cM4, self._multiply(self._multiply(S, multTerm), eigenstrain))', '        SA = self._multiply(S, multTerm)\n        stressC = self._multiply(cM4, self._multiply(SA, eigenstrain))')], kind='benign'),
    Entry('benign-beta-negative-power', E, [('endTerm = 1 / self._beta(radius[0], radius[1], radius[2], self.midPhiGrid, self.midThetaGrid)**3', 'endTerm = self._beta(radius[0], radius[1], radius[2], self.midPhiGrid, self.midThetaGrid)**(-3)')], kind='benign'),
    Entry('beta-squared-in-integrand', E, [('endTerm = 1 / self._beta(radius[0], radius[1], radius[2], self.midPhiGrid, self.midThetaGrid)**3', 'endTerm = 1 / self._beta(radius[0], radius[1], radius[2], self.midPhiGrid, self.midThetaGrid)**2')], 'R16.9'),
    Entry('beta-offset-under-root', E, [('return np.sqrt(((a*np.cos(phi))**2 + (b*np.sin(phi))**2)*np.sin(theta)**2 + (c*np.cos(theta))**2)', 'return np.sqrt(((a*np.cos(phi))**2 + (b*np.sin(phi))**2)*np.sin(theta)**2 + (c*np.cos(theta))**2 + 1e-20)')], 'R16.9'),
]
