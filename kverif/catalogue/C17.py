from ..selftest import Entry
H = 'kawin/diffusion/HomogenizationParameters.py'
ENTRIES = [
    Entry('rebreak-F10-predefined', H, [("    phases = list(kwargs.get('phases', therm.phases))\n    if alpha_phase in phases:\n        alpha_mob = mobility[phases.index(alpha_phase)]\n        for i in range(mobility.shape[1]):\n            mobility[:,i][mobility[:,i] == -1] = alpha_mob[i]",
                                        "    alpha_mob = mobility[therm.phases.index(alpha_phase)]\n    for i in range(mobility.shape[1]):\n        mobility[:,i][mobility[:,i] == -1] = alpha_mob[i]")], 'R17.1'),
    Entry('rebreak-F10-exclude', H, [("    for p in range(len(phases)):\n        if phases[p] in excluded_phases:\n            phaseFracs[p] = 0", "    for p in [therm.phases.index(q) for q in excluded_phases]:\n        phaseFracs[p] = 0")], 'R17.1'),
    Entry('names-not-passed', H, [(', *homogenizationParameters.postProcessParameters, phases=mobility_data.phases)', ', *homogenizationParameters.postProcessParameters)')], 'R17.1'),
    Entry('wiener-first-phase-weight', H, [("    avg_mob = np.sum(np.multiply(phaseFracs[:,np.newaxis], modified_mob), axis=0)\n    return avg_mob\n\ndef wienerLower", "    avg_mob = np.sum(np.multiply(phaseFracs[:,np.newaxis], modified_mob), axis=0) + 0*modified_mob[0]\n    return avg_mob\n\ndef wienerLower")], 'R17.2'),
    Entry('hs-map-before-sum', H, [('    Ak = np.sum(Ak, axis=0)\n    avg_mob = extreme_mob + Ak / (1 - Ak / (3*extreme_mob))', '    avg_mob = extreme_mob + np.sum(Ak / (1 - Ak / (3*extreme_mob)), axis=0)')], 'R17.4'),
    Entry('hs-coefficient', H, [('(mobility - extreme_mob) * (3*extreme_mob) / (2*extreme_mob + mobility)', '(mobility - extreme_mob) * (3*extreme_mob) / (extreme_mob + mobility)')], 'R17.4'),
    Entry('wiener-lower-not-harmonic', H, [('avg_mob = 1/np.sum(np.multiply(phaseFracs[:,np.newaxis], 1/(modified_mob)), axis=0)', 'avg_mob = np.sum(np.multiply(phaseFracs[:,np.newaxis], modified_mob), axis=0)')], 'R17.4'),
    Entry('labyrinth-in-place-power', H, [("    avg_mob = np.sum(np.multiply(np.power(phaseFracs[:,np.newaxis], labyrinth_factor), modified_mob), axis=0)", "    w = phaseFracs[:,np.newaxis]\n    np.power(w, labyrinth_factor, out=w)\n    avg_mob = np.sum(np.multiply(w, modified_mob), axis=0)")], 'R17.5'),
    Entry('registry-swapped', H, [('        elif function == self.HASHIN_UPPER:\n            self.homogenizationFunction = hashinShtrikmanUpper', '        elif function == self.HASHIN_UPPER:\n            self.homogenizationFunction = hashinShtrikmanLower')], 'R17.3'),
    Entry('keyword-table-wrong', H, [("            'majority': self.MAJORITY,", "            'majority': self.PREDEFINED,")], 'R17.3'),
    Entry('hs-upper-uses-min', H, [('    max_mob = np.amax(modified_mob, axis=0)    # (p, e) -> (e,)', '    max_mob = np.amin(modified_mob, axis=0)    # (p, e) -> (e,)')], 'R17.4'),
    Entry('benign-sum-by-name-lookup', H, [("        alpha_mob = mobility[phases.index(alpha_phase)]", "        alpha_row = phases.index(alpha_phase)\n        alpha_mob = mobility[alpha_row]")], kind='benign'),
    Entry('benign-wiener-plain-product', H, [("    avg_mob = np.sum(np.multiply(phaseFracs[:,np.newaxis], modified_mob), axis=0)\n    return avg_mob\n\ndef wienerLower", "    avg_mob = np.sum(phaseFracs[:,np.newaxis] * modified_mob, axis=0)\n    return avg_mob\n\ndef wienerLower")], kind='benign'),
    Entry('argmax-name-lookup-unguarded', H, [("    if alpha_phase in phases:\n        alpha_mob = mobility[phases.index(alpha_phase)]", "    if len(phases) > 0:\n        alpha_mob = mobility[np.argmax(np.array(phases) == alpha_phase)]")], 'R17.N'),
    Entry('benign-argmax-name-lookup-guarded', H, [("    if alpha_phase in phases:\n        alpha_mob = mobility[phases.index(alpha_phase)]", "    if np.any(np.array(phases) == alpha_phase):\n        alpha_mob = mobility[np.argmax(np.array(phases) == alpha_phase)]")], kind='benign'),
]
