from ..selftest import Entry
S = 'kawin/precipitation/coupling/Strength.py'
G = 'kawin/precipitation/coupling/GrainGrowth.py'
B = 'kawin/precipitation/KWNBase.py'
ENTRIES = [
    Entry('rebreak-F13', S, [('        tauowo[(tauowo < 0) | ~np.isfinite(tauowo)] = 0\n        return weakContributions', '        tauowo[~np.isfinite(tauowo)] = 0\n        return weakContributions')], 'R18.1'),
    Entry('weak-not-cleaned-of-nan', S, [('        weakContributions[(weakContributions < 0) | ~np.isfinite(weakContributions)] = 0', '        weakContributions[weakContributions < 0] = 0')], 'R18.1'),
    Entry('history-skipped-without-phases', S, [('        self.solidStrength = np.append(self.solidStrength, [self.ssStrength(model, model.pData.n)], axis=0)', '        if len(model.phases) > 1:\n            self.solidStrength = np.append(self.solidStrength, [self.ssStrength(model, model.pData.n)], axis=0)')], 'R18.2'),
    Entry('history-appended-twice', S, [("            self.solidStrength[0] = self.ssStrength(model, 0)\n", "            self.solidStrength[0] = self.ssStrength(model, 0)\n            self.rss = np.append(self.rss, self.rss, axis=0)\n")], 'R18.2'),
    Entry('coupled-update-before-append', B, [('        self._calculateDependentTerms(t, x)\n        self._appendArrays(self._currY)\n', '        self._calculateDependentTerms(t, x)\n        self.updateCoupledModels()\n        self._appendArrays(self._currY)\n'), ('        #Update coupled models\n        self.updateCoupledModels()\n', '')], 'R18.2'),
    Entry('grain-clock-total-time', G, [('self.solve(model.pData.time[model.pData.n] - model.pData.time[model.pData.n-1], solverType=self.solverType)', 'self.solve(model.pData.time[model.pData.n], solverType=self.solverType)')], 'R18.3'),
    Entry('combine-rescales-in-place', S, [('        taumin = np.amin(np.array([tausumweak, tausumstrong, orowan]), axis=0)', '        orowan *= self.M\n        taumin = np.amin(np.array([tausumweak, tausumstrong, orowan / self.M]), axis=0)')], 'R18.4'),
    Entry('combine-max', S, [('        taumin = np.amin(np.array([tausumweak, tausumstrong, orowan]), axis=0)', '        taumin = np.amax(np.array([tausumweak, tausumstrong, orowan]), axis=0)')], 'R18.4'),
    Entry('drag-without-alpha', G, [('        upper = growthRate + self.alpha * self.M * self.gbe * z\n        lower = growthRate - self.alpha * self.M * self.gbe * z', '        drag = self.M * self.gbe * z\n        upper = growthRate + drag\n        lower = growthRate - drag')], 'R18.5'),
    Entry('drag-accelerates', G, [('        cG[growIndices] = lower[growIndices]', '        cG[growIndices] = upper[growIndices]')], 'R18.5'),
    Entry('benign-drag-named', G, [('        upper = growthRate + self.alpha * self.M * self.gbe * z\n        lower = growthRate - self.alpha * self.M * self.gbe * z', '        drag = self.alpha * self.M * self.gbe * z\n        upper = growthRate + drag\n        lower = growthRate - drag')], kind='benign'),
    Entry('benign-min-list', S, [('        taumin = np.amin(np.array([tausumweak, tausumstrong, orowan]), axis=0)', '        taumin = np.amin([tausumweak, tausumstrong, orowan], axis=0)')], kind='benign'),
]
