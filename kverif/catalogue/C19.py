from ..selftest import Entry
S = 'kawin/precipitation/StoppingConditions.py'
B = 'kawin/precipitation/KWNBase.py'
T = 'kawin/precipitation/TimeTemperaturePrecipitation.py'
ENTRIES = [
    Entry('rebreak-F11', S, [('            n = model.pData.n\n', '            n = model.n\n')], 'R19.1'),
    Entry('rebreak-F11-time', S, [('                    self._satisfiedTime = model.pData.time[model.pData.n]', '                    self._satisfiedTime = model.time[model.pData.n]')], 'R19.1'),
    Entry('no-latch', S, [('        if not self._isSatisfied:\n            self._isSatisfied = self._testCondition(model)', '        if True:\n            self._isSatisfied = self._testCondition(model)')], 'R19.2'),
    Entry('time-written-always', S, [('            if self._isSatisfied:\n                if model.pData.n > 0:', '            if True:\n                if model.pData.n > 0:')], 'R19.2'),
    Entry('interpolation-swapped', S, [('self._satisfiedTime = (currTime - prevTime) * (self._value - prevVal) / (currVal - prevVal) + prevTime', 'self._satisfiedTime = (currTime - prevTime) * (self._value - prevVal) / (currVal - prevVal) + currTime')], 'R19.2'),
    Entry('and-short-circuit', B, [('            self._stoppingConditions[i].testCondition(self)\n            if self._stopConditionMode[i]:', '            if self._stopConditionMode[i] or andCondition:\n                self._stoppingConditions[i].testCondition(self)\n            if self._stopConditionMode[i]:')], 'R19.3'),
    Entry('or-accumulator-overwritten', B, [('                orCondition = orCondition or self._stoppingConditions[i].isSatisfied()', '                orCondition = self._stoppingConditions[i].isSatisfied()')], 'R19.3'),
    Entry('empty-and-stops', B, [('        if numAndCondition == 0:\n            andCondition = False\n', '')], 'R19.3'),
    Entry('stop-needs-both', B, [('        stop = orCondition or andCondition', '        stop = orCondition and andCondition')], 'R19.3'),
    Entry('radius-condition-wrong-history', S, [('class AverageRadiusCondition (PrecipitationStoppingCondition):\n    def __init__(self, condition, value, phase = None):\n        super().__init__(condition, value, phase = phase)\n\n    def _getData(self, model):\n        return model.pData.Ravg',
                                                'class AverageRadiusCondition (PrecipitationStoppingCondition):\n    def __init__(self, condition, value, phase = None):\n        super().__init__(condition, value, phase = phase)\n\n    def _getData(self, model):\n        return model.pData.Rcrit')], 'R19.4'),
    Entry('composition-ignores-element', S, [('    def _poll(self, model, n):\n        e = 0 if self._element is None else model.elements.index(self._element)\n        return model.pData.composition[n,e]', '    def _getData(self, model):\n        return model.pData.composition')], 'R19.4'),
    Entry('inequality-swapped', S, [('            return self._poll(model, n) > self._value\n        else:\n            return self._poll(model, n) < self._value', '            return self._poll(model, n) < self._value\n        else:\n            return self._poll(model, n) > self._value')], 'R19.4'),
    Entry('solver-ignores-stop', 'kawin/solver/Solver.py', [('        while currTime < tf and not stop:', '        while currTime < tf:')], 'R19.5/R5.2'),
    Entry('ttp-no-reset', T, [('        self.model.reset()\n        self.model.setTemperature(T)', '        self.model.setTemperature(T)')], 'R19.6'),
    Entry('model-reset-keeps-conditions', B, [('        for sc in self._stoppingConditions:\n            sc.reset()\n', '')], 'R19.6'),
    Entry('benign-latch-early-return', S, [('        if not self._isSatisfied:\n            self._isSatisfied = self._testCondition(model)\n\n            if self._isSatisfied:', '        if self._isSatisfied:\n            return\n        if True:\n            self._isSatisfied = self._testCondition(model)\n\n            if self._isSatisfied:')], kind='benign'),
    Entry('benign-step-index-local', S, [('                if model.pData.n > 0:\n                    currVal, currTime = self._poll(model, model.pData.n), model.pData.time[model.pData.n]', '                if model.pData.n > 0:\n                    currVal, currTime = self._poll(model, model.pData.n), model.pData.time[-1 + model.pData.n + 1]')], kind='benign'),
    Entry('rebreak-F28', S, [('                    if self._testCondition(model, model.pData.n-1):\n                        #Condition was already satisfied before this step (ex. at the initial state), so there is no crossing to interpolate\n                        self._satisfiedTime = prevTime\n                    else:\n                        self._satisfiedTime = (currTime - prevTime) * (self._value - prevVal) / (currVal - prevVal) + prevTime', '                    self._satisfiedTime = (currTime - prevTime) * (self._value - prevVal) / (currVal - prevVal) + prevTime')], 'R19.7'),
    Entry('previous-step-guard-inverted', S, [('                    if self._testCondition(model, model.pData.n-1):\n', '                    if not self._testCondition(model, model.pData.n-1):\n')], 'R19.7'),
]
