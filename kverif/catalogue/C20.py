from ..selftest import Entry
S = 'kawin/thermo/Surrogate.py'
D = 'kawin/diffusion/Diffusion.py'
K = 'kawin/precipitation/KWNEuler.py'
ST = 'kawin/precipitation/coupling/Strength.py'
ENTRIES = [
    Entry('rebreak-F14', S, [('            return self.therm.getTracerDiffusivity(x, T, phase=phase, *args, **kwargs)', '            return self.therm.getInterdiffusivity(x, T, phase=phase, *args, **kwargs)')], 'R20.1'),
    Entry('rebreak-F17-save', D, [("        if self._recordedX is not None and self._recordedTime is not None:\n            data['recordX'] = self._recordedX\n            data['recordTime'] = self._recordedTime", "        data['recordX'] = self._recordedX\n        data['recordTime'] = self._recordedTime")], 'R20.3'),
    Entry('rebreak-F17-load', D, [("        if 'recordX' in data and 'recordTime' in data:\n            self._recordedX = data['recordX']\n            self._recordedTime = data['recordTime']", "        self._recordedX = data['recordX']\n        self._recordedTime = data['recordTime']")], 'R20.3'),
    Entry('save-on-record-flag', D, [('        if self._recordedX is not None and self._recordedTime is not None:', '        if self._record:')], 'R20.3'),
    Entry('driving-force-drops-kwargs', S, [('            return self.therm.getDrivingForce(x, T, precPhase=precPhase, *args, **kwargs)', '            return self.therm.getDrivingForce(x, T, precPhase=precPhase)')], 'R20.1'),
    Entry('interfacial-drops-phase', S, [('            return self.therm.getInterfacialComposition(T, gExtra, precPhase=precPhase)', '            return self.therm.getInterfacialComposition(T, gExtra)')], 'R20.1'),
    Entry('growth-internal-default-phase', S, [('            curvature = self.curvatureFactor(x, T, precPhase)\n            x = _process_x(x, self.numElements)', '            curvature = self.curvatureFactor(x, T)\n            x = _process_x(x, self.numElements)')], 'R20.1'),
    Entry('fallthrough-squeezed', S, [('            return self.therm.impingementFactor(x, T, precPhase, *args, **kwargs)', '            return np.squeeze(self.therm.impingementFactor(x, T, precPhase, *args, **kwargs))')], 'R20.1'),
    Entry('pbm-key-renamed-on-save', K, [("            data['PBM_size_' + self.phases[p]] = self.PBM[p].PSDsize", "            data['PBM_sizes_' + self.phases[p]] = self.PBM[p].PSDsize")], 'R20.2'),
    Entry('load-skips-equilibrium-aspect-ratio', K, [("            eqAR = data['eqAspectRatio_' + self.phases[p]]\n", "            eqAR = self.eqAspectRatio[p]\n")], 'R20.2'),
    Entry('surrogate-data-key', S, [("        self.diffusivityData = data['diffusivity']", "        self.diffusivityData = data['diffusivities']")], 'R20.2'),
    Entry('strength-load-key', ST, [("np.savez_compressed(filename, ssStrength=self.solidStrength, rss = self.rss, ls = self.ls)", "np.savez_compressed(filename, solidStrength=self.solidStrength, rss = self.rss, ls = self.ls)")], None),
    Entry('todict-drops-base-histories', K, [('    def toDict(self):\n        data = super().toDict()\n        for p in range(len(self.phases)):', '    def toDict(self):\n        data = {}\n        for p in range(len(self.phases)):')], 'R20.2'),
    Entry('benign-save-guard-reordered', D, [('        if self._recordedX is not None and self._recordedTime is not None:', '        if self._recordedTime is not None and self._recordedX is not None:')], kind='benign'),
    Entry('benign-fallthrough-keyword-phase', S, [('            return self.therm.impingementFactor(x, T, precPhase, *args, **kwargs)', '            return self.therm.impingementFactor(x, T, precPhase=precPhase, *args, **kwargs)')], kind='benign'),
    Entry('rebreak-F22', S, [("        dnkj, dtracer = np.array(data['dnkj']), np.array(data['dtracer'])", "        dnkj, dtracer = data['dnkj'], data['dtracer']")], 'R20.6'),
    Entry('rebreak-F23', S, [('            numSolutes = self.numElements - 1\n            d = np.power(output[:,numSolutes*numSolutes:],3)', '            numSolutes = x.shape[1]\n            d = np.power(output[:,numSolutes*numSolutes:],3)')], 'R20.7'),
    Entry('benign-fit-asarray', S, [("        dnkj, dtracer = np.array(data['dnkj']), np.array(data['dtracer'])", "        dnkj = np.asarray(data['dnkj'])\n        dtracer = np.asarray(data['dtracer'])")], kind='benign'),
    Entry('fit-on-unique-rows', S, [('        self.drivingForceModels[phase] = self.kernel(xTrain, yTrain, **self.kernelKwargs)', '        xTrain, keep = np.unique(xTrain, axis=0, return_index=True)\n        yTrain = yTrain[keep]\n        self.drivingForceModels[phase] = self.kernel(xTrain, yTrain, **self.kernelKwargs)')], 'R20.9'),
    Entry('benign-fit-float-cast', S, [('        self.drivingForceModels[phase] = self.kernel(xTrain, yTrain, **self.kernelKwargs)', '        xTrain = xTrain.astype(np.float64)\n        self.drivingForceModels[phase] = self.kernel(xTrain, yTrain, **self.kernelKwargs)')], kind='benign'),
]
