"""Statement-level control-flow graph and two generic dataflow engines.

Node kinds: 'entry', 'exit', 'stmt' (a simple statement), 'test' (the test of an
if/while; out-edges labelled True/False), 'for' (binding the next item of a for
loop; out-edges 'iter'/'done'), 'with' (entering a with block), 'except' (entering
an exception handler).  Edges carry a label.  The exit node has in-edges labelled
'return', 'raise', 'fall', and - for regions built from a loop body - 'continue'
and 'break'.
"""
from __future__ import annotations
import ast
from dataclasses import dataclass, field
from .source import AnalysisError


@dataclass
class Node:
    id: int
    kind: str
    ast: object = None
    succ: list = field(default_factory=list)   # (node_id, label)
    pred: list = field(default_factory=list)

    @property
    def lineno(self):
        return getattr(self.ast, 'lineno', 0)


class CFG:
    def __init__(self):
        self.nodes: list[Node] = []
        self.entry = self._new('entry')
        self.exit = self._new('exit')

    def _new(self, kind, a=None):
        n = Node(len(self.nodes), kind, a)
        self.nodes.append(n)
        return n

    def edge(self, a: Node, b: Node, label=None):
        a.succ.append((b.id, label))
        b.pred.append((a.id, label))

    def node(self, i) -> Node:
        return self.nodes[i]

    def stmt_nodes(self):
        return [n for n in self.nodes if n.kind not in ('entry', 'exit')]

    def find(self, pred):
        return [n for n in self.nodes if n.ast is not None and pred(n)]


class _Builder:
    def __init__(self, region=False):
        self.g = CFG()
        self.region = region
        self.loop_stack = []      # (continue_target_node, break_frontier_list)
        self.handler_stack = []   # list of lists of handler entry nodes

    # frontier = list of (node, label) whose next edge is still open
    def seq(self, stmts, frontier):
        for s in stmts:
            frontier = self.stmt(s, frontier)
        return frontier

    def connect(self, frontier, node):
        for n, lab in frontier:
            self.g.edge(n, node, lab)

    def _exc_edges(self, node):
        for handlers in self.handler_stack[-1:]:
            for h in handlers:
                self.g.edge(node, h, 'exc')

    def stmt(self, s, frontier):
        g = self.g
        if isinstance(s, (ast.FunctionDef, ast.AsyncFunctionDef, ast.ClassDef)):
            n = g._new('stmt', s)
            self.connect(frontier, n)
            return [(n, None)]
        if isinstance(s, ast.If):
            t = g._new('test', s)
            self.connect(frontier, t)
            self._exc_edges(t)
            out = self.seq(s.body, [(t, True)])
            out += self.seq(s.orelse, [(t, False)])
            return out
        if isinstance(s, ast.While):
            t = g._new('test', s)
            self.connect(frontier, t)
            self._exc_edges(t)
            brk = []
            self.loop_stack.append((t, brk))
            body_out = self.seq(s.body, [(t, True)])
            self.loop_stack.pop()
            self.connect(body_out, t)
            always = isinstance(s.test, ast.Constant) and bool(s.test.value) is True
            out = [] if always else self.seq(s.orelse, [(t, False)])     # `while True:` is left only by break / return / raise
            return out + brk
        if isinstance(s, (ast.For, ast.AsyncFor)):
            f = g._new('for', s)
            self.connect(frontier, f)
            self._exc_edges(f)
            brk = []
            self.loop_stack.append((f, brk))
            body_out = self.seq(s.body, [(f, 'iter')])
            self.loop_stack.pop()
            self.connect(body_out, f)
            it = s.iter
            infinite = isinstance(it, ast.Call) and ((isinstance(it.func, ast.Attribute) and it.func.attr in ('count', 'cycle', 'repeat') and isinstance(it.func.value, ast.Name)
                                                      and it.func.value.id == 'itertools' and not (it.func.attr == 'repeat' and len(it.args) > 1)))
            out = [] if infinite else self.seq(s.orelse, [(f, 'done')])   # itertools.count(): the iterator is never exhausted
            return out + brk
        if isinstance(s, (ast.With, ast.AsyncWith)):
            w = g._new('with', s)
            self.connect(frontier, w)
            self._exc_edges(w)
            return self.seq(s.body, [(w, None)])
        if isinstance(s, ast.Try) or s.__class__.__name__ == 'TryStar':
            hnodes = [g._new('except', h) for h in s.handlers]
            self.handler_stack.append(hnodes)
            # a statement inside the try body may raise before completing: model the jump from the
            # state *before* each statement as well, by linking the frontier entering the body
            for n, lab in frontier:
                for h in hnodes:
                    g.edge(n, h, 'exc')
            body_out = self.seq(s.body, frontier)
            self.handler_stack.pop()
            out = self.seq(s.orelse, body_out)
            for h, hn in zip(s.handlers, hnodes):
                out += self.seq(h.body, [(hn, None)])
            if s.finalbody:
                out = self.seq(s.finalbody, out)
            return out
        if isinstance(s, ast.Return):
            n = g._new('stmt', s)
            self.connect(frontier, n)
            self._exc_edges(n)
            g.edge(n, g.exit, 'return')
            return []
        if isinstance(s, ast.Raise):
            n = g._new('stmt', s)
            self.connect(frontier, n)
            if self.handler_stack and self.handler_stack[-1]:
                self._exc_edges(n)
            else:
                g.edge(n, g.exit, 'raise')
            return []
        if isinstance(s, ast.Continue):
            n = g._new('stmt', s)
            self.connect(frontier, n)
            if self.loop_stack:
                g.edge(n, self.loop_stack[-1][0], 'continue')
            elif self.region:
                g.edge(n, g.exit, 'continue')
            else:
                raise AnalysisError('continue outside loop')
            return []
        if isinstance(s, ast.Break):
            n = g._new('stmt', s)
            self.connect(frontier, n)
            if self.loop_stack:
                self.loop_stack[-1][1].append((n, 'break'))
            elif self.region:
                g.edge(n, g.exit, 'break')
            else:
                raise AnalysisError('break outside loop')
            return []
        if s.__class__.__name__ == 'Match':
            raise AnalysisError('match statement not supported by the CFG builder')
        # simple statement
        n = g._new('stmt', s)
        self.connect(frontier, n)
        self._exc_edges(n)
        return [(n, None)]


def build(func_or_stmts, region=False) -> CFG:
    """CFG of a function body, or (region=True) of a list of statements such as a loop body,
    in which top-level continue/break leave through the exit node."""
    b = _Builder(region=region)
    stmts = func_or_stmts.body if isinstance(func_or_stmts, (ast.FunctionDef, ast.AsyncFunctionDef)) else list(func_or_stmts)
    out = b.seq(stmts, [(b.g.entry, None)])
    for n, lab in out:
        b.g.edge(n, b.g.exit, 'fall')
    return b.g


# --------------------------------------------------------------------------- engines
def collect(g: CFG, init, transfer, max_states=20000):
    """Collecting semantics over a finite abstract domain.

    transfer(node, state, label_out) -> state | None | list of states (None kills the path).
    States must be hashable.  Returns {node_id: set(states on entry to the node)} and, for the
    exit node, additionally a dict label -> set(states) in `collect.exit_by_label`."""
    at = {n.id: set() for n in g.nodes}
    exit_by_label = {}
    work = [(g.entry.id, init)]
    at[g.entry.id].add(init)
    count = 0
    while work:
        nid, st = work.pop()
        node = g.node(nid)
        for succ, label in node.succ:
            res = transfer(node, st, label)
            if res is None:
                continue
            outs = res if isinstance(res, (list, set)) else [res]
            for o in outs:
                if succ == g.exit.id:
                    exit_by_label.setdefault(label, set()).add(o)
                if o not in at[succ]:
                    at[succ].add(o)
                    count += 1
                    if count > max_states:
                        raise AnalysisError('abstract state space exceeded the bound')
                    work.append((succ, o))
    return at, exit_by_label


def must_forward(g: CFG, gen, universe=None, edge_ok=None):
    """Must (all-paths) forward analysis: facts = frozenset; join = intersection.
    gen(node, label_out) -> set of facts established when leaving node along label_out.
    Returns IN sets per node id (facts that hold on every path reaching the node)."""
    TOP = None
    IN = {n.id: TOP for n in g.nodes}
    IN[g.entry.id] = frozenset()
    work = [g.entry.id]
    while work:
        nid = work.pop()
        node = g.node(nid)
        cur = IN[nid]
        if cur is TOP:
            continue
        for succ, label in node.succ:
            if edge_ok is not None and not edge_ok(node, label):
                continue
            out = cur | frozenset(gen(node, label))
            old = IN[succ]
            new = out if old is TOP else (old & out)
            if old is TOP or new != old:
                IN[succ] = new
                work.append(succ)
    return IN


def reachable_from(g: CFG, start_ids, stop=lambda n: False):
    seen = set()
    work = list(start_ids)
    while work:
        i = work.pop()
        if i in seen:
            continue
        seen.add(i)
        if stop(g.node(i)):
            continue
        for s, _ in g.node(i).succ:
            work.append(s)
    return seen


def dominators(g: CFG):
    ids = [n.id for n in g.nodes]
    dom = {i: set(ids) for i in ids}
    dom[g.entry.id] = {g.entry.id}
    changed = True
    while changed:
        changed = False
        for n in g.nodes:
            if n.id == g.entry.id:
                continue
            preds = [p for p, _ in n.pred]
            if not preds:
                new = {n.id}
            else:
                new = set.intersection(*(dom[p] for p in preds)) | {n.id}
            if new != dom[n.id]:
                dom[n.id] = new
                changed = True
    return dom


def simple_effect_node(n: Node):
    """the AST whose side effects/expressions belong to this node itself (not to nested bodies)"""
    a = n.ast
    if n.kind == 'test':
        return a.test
    if n.kind == 'for':
        return a.iter
    if n.kind == 'with':
        return ast.Tuple(elts=[i.context_expr for i in a.items], ctx=ast.Load())
    if n.kind == 'except':
        return None
    return a
