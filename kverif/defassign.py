"""Definite assignment (T-DEFASSIGN): every read of a local variable is preceded by an assignment on every CFG path."""
from __future__ import annotations
import ast
import builtins
from . import astutil as U
from . import cfg as C

BUILTINS = set(dir(builtins))


def _comprehension_bound(node):
    """names bound by comprehensions/lambdas inside `node` (their own scope)"""
    out = set()
    for n in ast.walk(node):
        if isinstance(n, ast.comprehension):
            out |= U.target_names(n.target)
        if isinstance(n, ast.Lambda):
            a = n.args
            out |= {x.arg for x in a.posonlyargs + a.args + a.kwonlyargs}
            if a.vararg:
                out.add(a.vararg.arg)
            if a.kwarg:
                out.add(a.kwarg.arg)
    return out


def local_names(func):
    names = set()
    declared_global = set()
    comp_targets = set()
    for n in U.walk_no_nested(func):
        if isinstance(n, ast.comprehension):
            for m in ast.walk(n.target):
                comp_targets.add(id(m))
    for n in U.walk_no_nested(func):
        if isinstance(n, ast.Name) and isinstance(n.ctx, (ast.Store, ast.Del)) and id(n) not in comp_targets:
            names.add(n.id)
        elif isinstance(n, (ast.Global, ast.Nonlocal)):
            declared_global |= set(n.names)
        elif isinstance(n, (ast.FunctionDef, ast.ClassDef)) and n is not func:
            names.add(n.name)
        elif isinstance(n, (ast.Import, ast.ImportFrom)):
            for a in n.names:
                names.add((a.asname or a.name).split('.')[0])
        elif isinstance(n, ast.ExceptHandler) and n.name:
            names.add(n.name)
    # comprehension targets are not function locals (unless also assigned outside)
    comp = set()
    outside = set()
    for n in U.walk_no_nested(func):
        if isinstance(n, (ast.ListComp, ast.SetComp, ast.DictComp, ast.GeneratorExp)):
            for g in n.generators:
                comp |= U.target_names(g.target)
    for st in ast.walk(func):
        pass
    return names - declared_global, comp


def _gen(node, label):
    a = node.ast
    out = set()
    if a is None:
        return out
    if node.kind == 'for':
        if label == 'iter':
            out |= U.target_names(a.target)
        return out
    if node.kind == 'with':
        for it in a.items:
            if it.optional_vars is not None:
                out |= U.target_names(it.optional_vars)
        return out
    if node.kind == 'except':
        if a.name:
            out.add(a.name)
        return out
    if node.kind == 'test':
        for n in ast.walk(a.test):
            if isinstance(n, ast.NamedExpr):
                out |= U.target_names(n.target)
        return out
    if isinstance(a, (ast.Assign, ast.AnnAssign, ast.AugAssign)):
        if isinstance(a, ast.AnnAssign) and a.value is None:
            return out
        for t in U.assign_targets(a):
            out |= U.target_names(t)
    elif isinstance(a, (ast.FunctionDef, ast.ClassDef)):
        out.add(a.name)
    elif isinstance(a, (ast.Import, ast.ImportFrom)):
        for al in a.names:
            out.add((al.asname or al.name).split('.')[0])
    for n in ast.walk(a) if not isinstance(a, (ast.FunctionDef, ast.ClassDef)) else []:
        if isinstance(n, ast.NamedExpr):
            out |= U.target_names(n.target)
    return out


def _loads(node):
    """(name, ast node) loaded by the node's own expression(s), excluding nested scopes' private names"""
    a = node.ast
    if a is None:
        return []
    if node.kind == 'test':
        roots = [a.test]
    elif node.kind == 'for':
        roots = [a.iter]
    elif node.kind == 'with':
        roots = [it.context_expr for it in a.items]
    elif node.kind == 'except':
        roots = [a.type] if a.type is not None else []
    elif isinstance(a, (ast.FunctionDef, ast.ClassDef)):
        roots = list(a.decorator_list) + ([d for d in a.args.defaults] if isinstance(a, ast.FunctionDef) else [])
    else:
        roots = [a]
    out = []
    for r in roots:
        private = _comprehension_bound(r)
        for n in ast.walk(r):
            if isinstance(n, ast.Name) and isinstance(n.ctx, ast.Load) and n.id not in private:
                out.append((n.id, n))
            if isinstance(n, ast.AugAssign) and isinstance(n.target, ast.Name):
                out.append((n.target.id, n.target))
    # names inside lambda bodies / nested defs are evaluated later: drop loads that occur only inside a lambda
    lam = set()
    for r in roots:
        for n in ast.walk(r):
            if isinstance(n, ast.Lambda):
                for m in ast.walk(n.body):
                    if isinstance(m, ast.Name):
                        lam.add(id(m))
    return [(nm, n) for nm, n in out if id(n) not in lam]


def _test_key(test):
    """(key, polarity) of a test that is a pure expression over names: `flag`, `not flag`, `n > 0` ...; None otherwise"""
    pol = True
    while isinstance(test, ast.UnaryOp) and isinstance(test.op, ast.Not):
        test, pol = test.operand, not pol
    for n in ast.walk(test):
        if isinstance(n, (ast.Call, ast.Lambda, ast.NamedExpr, ast.Await, ast.Yield, ast.YieldFrom, ast.Subscript)):
            return None
    return U.dump(test), pol, U.names_in(test)


def _bad_reads(func, g, locals_, params, edge_ok=None):
    IN = C.must_forward(g, _gen, edge_ok=edge_ok)
    bad = {}
    for node in g.nodes:
        if node.kind in ('entry', 'exit'):
            continue
        have = IN[node.id]
        if have is None:          # unreachable
            continue
        for name, n in _loads(node):
            if name in params or name not in locals_:
                continue
            if name not in have:
                bad[(name, id(n))] = (name, n)
    return bad


def check_function(func):
    """list of (name, node) read before being definitely assigned.  Path-sensitive in one pure test at a time: for a test
    expression that occurs more than once (a flag, `n > 0`, ...) and whose names are not re-assigned between the tests, the
    analysis is repeated under each truth value with the infeasible edges removed; a read is reported only if it is
    unassigned under every such case split."""
    locals_, comp = local_names(func)
    params = {p.lstrip('*') for p in U.params(func)}
    g = C.build(func)
    bad = _bad_reads(func, g, locals_, params)
    if bad:
        tests = {}
        for node in g.nodes:
            if node.kind == 'test' and isinstance(node.ast, ast.If):
                k = _test_key(node.ast.test)
                if k is not None:
                    tests.setdefault(k[0], []).append((node, k[1], k[2]))
        stores = {}
        for n in U.walk_no_nested(func):
            if isinstance(n, ast.Name) and isinstance(n.ctx, (ast.Store, ast.Del)):
                stores[n.id] = stores.get(n.id, 0) + 1
            if isinstance(n, ast.AugAssign) and isinstance(n.target, ast.Name):
                stores[n.target.id] = stores.get(n.target.id, 0) + 1
        for key, sites in tests.items():
            if len(sites) < 2 or not bad:
                continue
            names = sites[0][2]
            # the value of the test must be the same at every site: its names are parameters never assigned, or locals assigned once
            if any(stores.get(nm, 0) > (0 if nm in params else 1) for nm in names):
                continue
            site = {node.id: pol for node, pol, _ in sites}
            still = None
            for val in (True, False):
                def ok(node, label, val=val):
                    if node.id in site and label in (True, False):
                        return label == (val if site[node.id] else (not val))
                    return True
                b = _bad_reads(func, g, locals_, params, edge_ok=ok)
                still = dict(b) if still is None else {**still, **b}
            bad = {k_: v for k_, v in bad.items() if k_ in still}
    # de-duplicate by (name, line)
    seen, out = set(), []
    for name, n in bad.values():
        k = (name, n.lineno)
        if k not in seen:
            seen.add(k)
            out.append((name, n))
    return out
