"""N0: purely syntactic desugaring of newer statement / expression forms into the forms the engines know.

Every rewrite is an equivalence of the Python semantics under the side conditions checked here; a construct that does not meet
them is left as it is (and then makes the rule that meets it undecided, never silently mis-read).

  match S: case ...      ->  if / elif chain   (literal, or-, wildcard, capture patterns; fixed-length sequence patterns when S is the
                             function's *vararg, whose value is always a tuple; guards with the captures substituted)
  (x := E) in a statement ->  x = E before the statement, when E is the first thing the statement evaluates, or E is pure and
                             everything evaluated before it is a plain read
  x: T = v (in a function) -> x = v
  with np.errstate(..) / nullcontext() / warnings.catch_warnings(): BODY  -> BODY      (inert contexts with literal arguments only)
  try: BODY except ..: raise   -> BODY
  g = partial(f, a, ..)  ->  calls g(b, ..) become f(a, .., b, ..) when g is bound once to a local and the frozen arguments are names that
                             are not rebound afterwards
"""
from __future__ import annotations
import ast
import copy


def _simple_subject(e):
    if isinstance(e, (ast.Name, ast.Constant)):
        return True
    if isinstance(e, ast.Attribute):
        return _simple_subject(e.value)
    if isinstance(e, ast.Subscript):
        return _simple_subject(e.value) and isinstance(e.slice, ast.Constant)
    return False


class _Subst(ast.NodeTransformer):
    def __init__(self, m):
        self.m = m

    def visit_Name(self, node):
        if isinstance(node.ctx, ast.Load) and node.id in self.m:
            return copy.deepcopy(self.m[node.id])
        return node


def _pattern(p, subj, is_tuple):
    """(test expression | None for 'always', [(capture name, expression)]) or None when the pattern is not supported"""
    if isinstance(p, ast.MatchValue):
        return ast.Compare(left=copy.deepcopy(subj), ops=[ast.Eq()], comparators=[p.value]), []
    if isinstance(p, ast.MatchSingleton):
        return ast.Compare(left=copy.deepcopy(subj), ops=[ast.Is()], comparators=[ast.Constant(value=p.value)]), []
    if isinstance(p, ast.MatchAs):
        if p.pattern is None:
            return None, ([(p.name, copy.deepcopy(subj))] if p.name else [])
        r = _pattern(p.pattern, subj, is_tuple)
        if r is None:
            return None
        return r[0], r[1] + ([(p.name, copy.deepcopy(subj))] if p.name else [])
    if isinstance(p, ast.MatchOr):
        tests = []
        for q in p.patterns:
            r = _pattern(q, subj, is_tuple)
            if r is None or r[1] or r[0] is None:
                return None
            tests.append(r[0])
        return ast.BoolOp(op=ast.Or(), values=tests), []
    if isinstance(p, ast.MatchSequence) and is_tuple and not any(isinstance(q, ast.MatchStar) for q in p.patterns):
        tests = [ast.Compare(left=ast.Call(func=ast.Name(id='len', ctx=ast.Load()), args=[copy.deepcopy(subj)], keywords=[]), ops=[ast.Eq()],
                             comparators=[ast.Constant(value=len(p.patterns))])]
        caps = []
        for i, q in enumerate(p.patterns):
            el = ast.Subscript(value=copy.deepcopy(subj), slice=ast.Constant(value=i), ctx=ast.Load())
            r = _pattern(q, el, False)
            if r is None:
                return None
            if r[0] is not None:
                tests.append(r[0])
            caps += r[1]
        return (tests[0] if len(tests) == 1 else ast.BoolOp(op=ast.And(), values=tests)), caps
    return None


def _match_to_if(st: ast.Match, vararg):
    subj = st.subject
    pre = []
    if not _simple_subject(subj):
        return None
    is_tuple = isinstance(subj, ast.Name) and subj.id == vararg
    arms = []
    for c in st.cases:
        r = _pattern(c.pattern, subj, is_tuple)
        if r is None:
            return None
        test, caps = r
        if c.guard is not None:
            g = _Subst({n: e for n, e in caps}).visit(copy.deepcopy(c.guard))
            test = g if test is None else ast.BoolOp(op=ast.And(), values=[test, g])
        binds = [ast.Assign(targets=[ast.Name(id=n, ctx=ast.Store())], value=e, lineno=c.pattern.lineno) for n, e in caps]
        arms.append((test, binds + list(c.body)))
        if test is None:
            break
    # build the chain from the last arm backwards
    orelse = []
    for test, body in reversed(arms):
        if test is None:
            orelse = body
        else:
            node = ast.If(test=test, body=body, orelse=orelse)
            ast.copy_location(node, st)
            orelse = [node]
    if not orelse:
        orelse = [ast.copy_location(ast.Pass(), st)]
    return pre + orelse


def _first_evaluated(e):
    """sub-expressions of e in evaluation order up to (and including) the first NamedExpr on the unconditional spine:
    returns (NamedExpr node, [expressions evaluated before it]) or None"""
    before = []

    def go(x):
        if isinstance(x, ast.NamedExpr):
            return x
        if isinstance(x, (ast.Name, ast.Constant)):
            before.append(x)
            return None
        if isinstance(x, ast.Attribute):
            r = go(x.value)
            if r is None:
                before.append(x)
            return r
        if isinstance(x, ast.UnaryOp):
            return go(x.operand)
        if isinstance(x, ast.BinOp):
            return go(x.left) or go(x.right)
        if isinstance(x, ast.Compare):
            r = go(x.left)
            if r is not None:
                return r
            if len(x.comparators) == 1:       # chained comparisons short-circuit from the second comparator on
                return go(x.comparators[0])
            before.append(x)
            return None
        if isinstance(x, ast.BoolOp):
            r = go(x.values[0])
            if r is None:
                before.append(x)
            return r
        if isinstance(x, ast.Subscript):
            r = go(x.value)
            if r is None and not isinstance(x.slice, ast.Slice):
                r = go(x.slice)
            if r is None:
                before.append(x)
            return r
        if isinstance(x, ast.Call):
            r = go(x.func)
            if r is not None:
                return r
            for a in x.args:
                if isinstance(a, ast.Starred):
                    break
                r = go(a)
                if r is not None:
                    return r
            before.append(x)
            return None
        if isinstance(x, (ast.Tuple, ast.List)):
            for a in x.elts:
                r = go(a)
                if r is not None:
                    return r
            return None
        before.append(x)
        return None

    r = go(e)
    return (r, before) if r is not None else None


def _plain_read(x):
    return isinstance(x, (ast.Name, ast.Constant)) or (isinstance(x, ast.Attribute) and _plain_read(x.value))


def _no_calls(e):
    return not any(isinstance(n, (ast.Call, ast.Await, ast.Yield, ast.YieldFrom, ast.NamedExpr)) for n in ast.walk(e))


class _ReplaceNode(ast.NodeTransformer):
    def __init__(self, old, new):
        self.old, self.new = old, new

    def generic_visit(self, node):
        if node is self.old:
            return self.new
        return super().generic_visit(node)

    def visit(self, node):
        if node is self.old:
            return self.new
        return super().visit(node)


def _hoist_walrus(st):
    """[assignments] to put before st (st is edited in place), for NamedExpr nodes that the statement evaluates first"""
    out = []
    for _ in range(8):
        holder = None
        if isinstance(st, ast.If):
            holder = ('test', st.test)
        elif isinstance(st, (ast.Assign, ast.Return, ast.Expr, ast.AugAssign, ast.AnnAssign)) and getattr(st, 'value', None) is not None:
            if isinstance(st, ast.Assign) and not all(isinstance(t, ast.Name) for t in st.targets):
                return out          # the target's sub-expressions are evaluated after the value, but keep it simple
            holder = ('value', st.value)
        if holder is None:
            return out
        r = _first_evaluated(holder[1])
        if r is None:
            return out
        ne, before = r
        if not isinstance(ne.target, ast.Name):
            return out
        reads_before = [b for b in before if not isinstance(b, ast.Constant)]
        if reads_before and not (all(_plain_read(b) for b in reads_before) and _no_calls(ne.value)):
            return out
        # the value must not read the target name in a way the hoisting changes: it does not (same order)
        out.append(ast.copy_location(ast.Assign(targets=[ast.Name(id=ne.target.id, ctx=ast.Store())], value=ne.value, lineno=st.lineno), st))
        new = ast.copy_location(ast.Name(id=ne.target.id, ctx=ast.Load()), ne)
        setattr(st, holder[0], _ReplaceNode(ne, new).visit(holder[1]))
    return out


def _partials(func, log, where):
    """inline  g = partial(f, a, b)  into the calls of g"""
    body_nodes = list(ast.walk(func))
    stores = {}
    for n in body_nodes:
        if isinstance(n, ast.Name) and isinstance(n.ctx, (ast.Store, ast.Del)):
            stores[n.id] = stores.get(n.id, 0) + 1
    params = {a.arg for a in func.args.posonlyargs + func.args.args + func.args.kwonlyargs}
    for st in list(ast.walk(func)):
        if not (isinstance(st, ast.Assign) and len(st.targets) == 1 and isinstance(st.targets[0], ast.Name) and isinstance(st.value, ast.Call)):
            continue
        fn = st.value.func
        nm = fn.id if isinstance(fn, ast.Name) else fn.attr if isinstance(fn, ast.Attribute) else ''
        if nm != 'partial' or not st.value.args or st.value.keywords:
            continue
        g = st.targets[0].id
        if stores.get(g, 0) != 1 or g in params:
            continue
        frozen = st.value.args
        ok = True
        for a in frozen:
            if isinstance(a, ast.Constant):
                continue
            if isinstance(a, ast.Name) and (stores.get(a.id, 0) == 0 or (a.id in params and stores.get(a.id, 0) == 0)):
                continue
            if isinstance(a, ast.Name) and stores.get(a.id, 0) == 1 and a.id not in params:
                # bound once: fine when that binding precedes the partial (straight-line check by line number)
                bind = [n for n in body_nodes if isinstance(n, ast.Name) and n.id == a.id and isinstance(n.ctx, ast.Store)]
                if bind and bind[0].lineno < st.lineno:
                    continue
            if isinstance(a, ast.Attribute) and isinstance(a.value, ast.Name) and a.value.id == 'self' and not any(
                    isinstance(n, ast.Attribute) and isinstance(n.ctx, ast.Store) and n.attr == a.attr for n in body_nodes):
                continue
            ok = False
        uses = [n for n in body_nodes if isinstance(n, ast.Name) and n.id == g and isinstance(n.ctx, ast.Load)]
        calls = [n for n in body_nodes if isinstance(n, ast.Call) and isinstance(n.func, ast.Name) and n.func.id == g]
        if not ok or len(uses) != len(calls) or not calls or any(isinstance(x, ast.Starred) for c in calls for x in c.args):
            continue
        for c in calls:
            c.func = copy.deepcopy(frozen[0])
            c.args = [copy.deepcopy(a) for a in frozen[1:]] + c.args
        st.value = ast.copy_location(ast.Constant(value=None), st.value)      # dead binding, dropped by the later passes
        st._kv_dead = True
        log.append(f'N0 {where}: partial object {g} inlined into its {len(calls)} call(s)')


INERT_CONTEXTS = {'np.errstate', 'numpy.errstate', 'nullcontext', 'contextlib.nullcontext', 'warnings.catch_warnings', 'np.printoptions'}


def _inert_context(e):
    if not isinstance(e, ast.Call):
        return False
    f = e.func
    parts = []
    while isinstance(f, ast.Attribute):
        parts.append(f.attr)
        f = f.value
    if not isinstance(f, ast.Name):
        return False
    name = '.'.join([f.id] + parts[::-1])
    return name in INERT_CONTEXTS and all(isinstance(a, ast.Constant) for a in e.args) and all(isinstance(k.value, ast.Constant) for k in e.keywords)


def _block(stmts, vararg, log, where):
    out = []
    for st in stmts:
        for fld in ('body', 'orelse', 'finalbody'):
            sub = getattr(st, fld, None)
            if isinstance(sub, list) and sub and isinstance(sub[0], ast.stmt) and not isinstance(st, (ast.FunctionDef, ast.AsyncFunctionDef, ast.ClassDef)):
                setattr(st, fld, _block(sub, vararg, log, where))
        for h in getattr(st, 'handlers', None) or []:
            h.body = _block(h.body, vararg, log, where)
        if isinstance(st, ast.Match):
            for c in st.cases:
                c.body = _block(c.body, vararg, log, where)
            r = _match_to_if(st, vararg)
            if r is not None:
                log.append(f'N0 {where}: match statement over {ast.unparse(st.subject)} rewritten as an if/elif chain ({len(st.cases)} cases)')
                out.extend(r)
                continue
        if isinstance(st, ast.With) and all(_inert_context(i.context_expr) for i in st.items):
            # a context manager that only changes numpy's error / print state or does nothing: the body runs as it stands
            pre_ = [ast.copy_location(ast.Assign(targets=[i.optional_vars], value=i.context_expr, lineno=st.lineno), st) for i in st.items if i.optional_vars is not None]
            log.append(f'N0 {where}: with-block over {", ".join(ast.unparse(i.context_expr)[:30] for i in st.items)} (inert context) replaced by its body')
            out.extend(pre_ + list(st.body))
            continue
        if isinstance(st, ast.Try) and not st.orelse and not st.finalbody and st.handlers \
                and all(len(h.body) == 1 and isinstance(h.body[0], ast.Raise) and h.body[0].exc is None for h in st.handlers):
            # every handler re-raises what it caught: the statement is its body
            log.append(f'N0 {where}: try-block whose handlers only re-raise replaced by its body')
            out.extend(st.body)
            continue
        if isinstance(st, ast.AnnAssign):
            # x: T = v  ->  x = v ;  a bare declaration `x: T` has no effect at run time (inside a function)
            if st.value is None:
                if isinstance(st.target, ast.Name):
                    continue
            else:
                st = ast.copy_location(ast.Assign(targets=[st.target], value=st.value, lineno=st.lineno), st)
                log.append(f'N0 {where}: annotated assignment to {ast.unparse(st.targets[0])} written as a plain assignment')
        pre = _hoist_walrus(st)
        if pre:
            log.append(f'N0 {where}: assignment expression(s) {[p.targets[0].id for p in pre]} hoisted before the statement')
        out.extend(pre)
        if getattr(st, '_kv_dead', False):
            continue
        out.append(st)
    return out


def desugar_tree(tree, path, log):
    for node in ast.walk(tree):
        if isinstance(node, (ast.FunctionDef, ast.AsyncFunctionDef)):
            if not any(isinstance(n, (ast.Match, ast.NamedExpr, ast.AnnAssign, ast.With, ast.Try)) or (isinstance(n, ast.Call) and (getattr(n.func, 'id', None) == 'partial' or getattr(n.func, 'attr', None) == 'partial'))
                       for n in ast.walk(node)):
                continue
            where = f'{path}::{node.name}'
            _partials(node, log, where)
            vararg = node.args.vararg.arg if node.args.vararg else None
            if vararg and any(isinstance(n, ast.Name) and n.id == vararg and isinstance(n.ctx, ast.Store) for n in ast.walk(node)):
                vararg = None
            node.body = _block(node.body, vararg, log, where)
    # module level statements
    if any(isinstance(n, ast.Match) for n in tree.body):
        tree.body = _block(tree.body, None, log, f'{path}::<module>')
    ast.fix_missing_locations(tree)
