"""development helper: run a property check on an overlay built from an older revision of some files
   python3-vt -m kverif.dev C06 9a106ba kawin/solver/Iterators.py [more files]"""
import subprocess, sys
from .__main__ import run_property
pid, rev, files = sys.argv[1], sys.argv[2], sys.argv[3:]
ov = {f: subprocess.run(['git', '-C', '/repo', 'show', f'{rev}:{f}'], capture_output=True, text=True, check=True).stdout for f in files}
code, ctx = run_property(pid, 'quick', None, overlay=ov, write=False, quiet=True)
for f in ctx.findings:
    if f.verdict != 'HOLDS':
        print(f.verdict, f.rule, f.loc(), '-', f.what)
print('exit', code)
