"""Development test of the normaliser (not a property check): for small synthetic modules, the normalised refactored
module must compute the same results as the refactored module itself on sample inputs, and must have undone the
refactoring (no call to the new helper left).  Run: python3-vt -m kverif.devtests.test_normalise"""
import ast, copy, sys, types
sys.path.insert(0, '/verif')
from kverif import normalise as N
from kverif.source import Module

BASE = '''
import math
class K:
    def __init__(self):
        self.a = [1.0, 2.0, 3.0]
        self.lo = 1.0
        self.hi = 5.0
        self.log = []
    def clamp(self, dt):
        dt = dt if dt > self.lo else self.lo
        dt = dt if dt < self.hi else self.hi
        return dt
    def total(self, xs):
        s = 0
        for i in range(len(xs)):
            s += xs[i] * 2
        return s
    def kind(self, k):
        if k == 'a':
            return 1
        return 2
    def store(self, v):
        self.a[0] = v
        self.log.append(v)
        return self.a[0] + 1
'''

CASES = {
 'early-return helper': ('''
    def clamp(self, dt):
        return self._cl(dt)
    def _cl(self, dt):
        if not dt > self.lo:
            return self.lo
        if not dt < self.hi:
            return self.hi
        return dt
''', 'clamp', [(0.5,), (3.0,), (9.0,), (float('nan'),)]),
 'rebinding helper + local': ('''
    def clamp(self, dt):
        bounded = self._cl(dt)
        return bounded
    def _cl(self, dt):
        if not dt > self.lo:
            dt = self.lo
        if not dt < self.hi:
            dt = self.hi
        return dt
''', 'clamp', [(0.5,), (3.0,), (9.0,), (float('nan'),)]),
 'closure + named parts': ('''
    def total(self, xs):
        def twice(v):
            return v * 2
        s = 0
        for i, x in enumerate(xs):
            term = twice(x)
            s += term
        return s
''', 'total', [([1, 2, 3],), ([],)]),
 'parametrised merge': ('''
    def kind(self, k):
        return self._sel(k, 'a')
    def _sel(self, k, first):
        isFirst = k == first
        if isFirst:
            return 1
        else:
            return 2
''', 'kind', [('a',), ('b',)]),
 'side effects in helper': ('''
    def store(self, v):
        self._put(v)
        nxt = self.a[0] + 1
        return nxt
    def _put(self, v):
        self.a[0] = v
        self.log.append(v)
''', 'store', [(4.0,), (7.0,)]),
 'static helper with constant': ('''
    SCALE = 2
    def total(self, xs):
        s = 0
        for i in range(len(xs)):
            s += K._sc(xs[i], K.SCALE)
        return s
    @staticmethod
    def _sc(v, f):
        return v * f
''', 'total', [([1, 2, 3],)]),
 'alias through mutation must not be substituted': ('''
    def store(self, v):
        old = self.a[0] + 1
        self.a[0] = v
        self.log.append(v)
        return self.a[0] + 1 + 0 * old
''', 'store', [(4.0,)]),
}


def replace_method(src, name, new_methods):
    tree = ast.parse(src)
    cls = [n for n in tree.body if isinstance(n, ast.ClassDef)][0]
    cls.body = [m for m in cls.body if not (isinstance(m, ast.FunctionDef) and m.name == name)]
    new = ast.parse('class X:\n' + new_methods).body[0].body
    cls.body.extend(new)
    return ast.unparse(tree)


def run(src, meth, args):
    ns = {}
    exec(compile(src, '<m>', 'exec'), ns)
    out = []
    for a in args:
        k = ns['K']()
        r = getattr(k, meth)(*copy.deepcopy(a))
        out.append((repr(r), repr(k.a), repr(k.log)))
    return out


def main():
    base_tree = ast.parse(BASE)
    baseline = {'modules': {'m.py': N.names_of_module(base_tree)}}
    bad = 0
    for name, (new_methods, meth, args) in CASES.items():
        src = replace_method(BASE, meth, new_methods)
        tree = ast.parse(src)
        mods = {'m.py': Module('m.py', 'm', src, tree, src.splitlines())}
        log = N.Normaliser(mods, baseline).run()
        out_src = ast.unparse(mods['m.py'].tree)
        ok = run(src, meth, args) == run(out_src, meth, args) == run(src, meth, args)
        same_as_base = run(BASE, meth, args) == run(out_src, meth, args)
        helpers_left = [n.name for n in ast.walk(mods['m.py'].tree) if isinstance(n, ast.FunctionDef) and n.name.startswith('_') and n.name != '__init__']
        print(('ok  ' if ok and same_as_base else 'BAD ') + name, '| helpers left:', helpers_left, '| log:', len(log))
        if not (ok and same_as_base):
            bad += 1
            print(out_src)
        if '-v' in sys.argv:
            m = [n for n in ast.walk(mods['m.py'].tree) if isinstance(n, ast.FunctionDef) and n.name == meth][0]
            print(ast.unparse(m))
    return 1 if bad else 0


if __name__ == '__main__':
    sys.exit(main())
