"""Attribute-write effects with a small type-aware call resolution, used by the normaliser to decide whether a method
call between the binding of a reference alias (`pbm = self.PBM[p]`) and its use can rebind the aliased path.

Resolution of a call `recv.m(...)` inside a method of class K:
  recv is `self`                      -> m in the MRO of K and in every subclass of K;
  recv is a path ending in field A    -> m in the classes whose constructors are stored into a field named A anywhere in the
                                         package (`x.A = C(...)`, `x.A = [C(...) ...]`, `x.A[i] = C(...)`, `x.A.append(C(...))`)
                                         and their subclasses;
  recv is a local with one binding    -> as for the bound expression;
  anything else                       -> every function named m in the package (name-based fallback).
A callee not defined in the package cannot store to a package attribute path (list mutators are handled by the caller).
The effect of a function is the set of attribute names it stores to (x.A = .., x.A[..] = .., x.A[..] += ..,
list mutators on x.A, '*' for setattr) joined with the effects of its resolved callees.
"""
from __future__ import annotations
import ast

MUTATORS = ('append', 'insert', 'pop', 'remove', 'clear', 'sort', 'reverse', 'extend', 'update', 'setdefault', 'fill', 'resize')


def _last_attr(expr):
    while isinstance(expr, ast.Subscript):
        expr = expr.value
    if isinstance(expr, ast.Attribute):
        return expr.attr
    return None


def _ctor_names(expr):
    """class names constructed by an expression (directly, in a list / comprehension / conditional)"""
    out = set()
    if isinstance(expr, ast.Call) and isinstance(expr.func, ast.Name):
        out.add(expr.func.id)
    elif isinstance(expr, ast.Call) and isinstance(expr.func, ast.Attribute):
        out.add(expr.func.attr)
    elif isinstance(expr, (ast.List, ast.Tuple)):
        for e in expr.elts:
            out |= _ctor_names(e)
    elif isinstance(expr, (ast.ListComp, ast.GeneratorExp)):
        out |= _ctor_names(expr.elt)
    elif isinstance(expr, ast.IfExp):
        out |= _ctor_names(expr.body) | _ctor_names(expr.orelse)
    return out


class Effects:
    def __init__(self, modules: dict):
        self.classes: dict[str, list] = {}          # name -> [ClassDef]
        self.funcs_by_name: dict[str, list] = {}    # name -> [(cls|None, FunctionDef)]
        self.field_types: dict[str, set] = {}       # attr -> class names stored into it
        self.untyped_fields: set = set()            # attrs that also receive something that is not a constructor call
        for mod in modules.values():
            for node in mod.tree.body:
                if isinstance(node, ast.ClassDef):
                    self.classes.setdefault(node.name, []).append(node)
                    for sub in node.body:
                        if isinstance(sub, ast.FunctionDef):
                            self.funcs_by_name.setdefault(sub.name, []).append((node.name, sub))
                elif isinstance(node, ast.FunctionDef):
                    self.funcs_by_name.setdefault(node.name, []).append((None, node))
        for mod in modules.values():
            for n in ast.walk(mod.tree):
                if isinstance(n, ast.Assign):
                    for t in n.targets:
                        a = _last_attr(t)
                        if a and isinstance(t, (ast.Attribute, ast.Subscript)):
                            cs = {c for c in _ctor_names(n.value) if c in self.classes}
                            if cs:
                                self.field_types.setdefault(a, set()).update(cs)
                elif isinstance(n, ast.Call) and isinstance(n.func, ast.Attribute) and n.func.attr == 'append' and n.args:
                    a = _last_attr(n.func.value)
                    if a:
                        cs = {c for c in _ctor_names(n.args[0]) if c in self.classes}
                        if cs:
                            self.field_types.setdefault(a, set()).update(cs)
        # fields that hold numpy arrays: some assignment from an np.* call, none from a list / comprehension
        np_yes, np_no = set(), set()
        for mod in modules.values():
            for n in ast.walk(mod.tree):
                if isinstance(n, ast.Assign):
                    for t in n.targets:
                        if isinstance(t, ast.Attribute):
                            v = n.value
                            if isinstance(v, (ast.List, ast.ListComp, ast.Dict, ast.DictComp, ast.Tuple)):
                                np_no.add(t.attr)
                            elif isinstance(v, ast.Call):
                                f = v.func
                                while isinstance(f, ast.Attribute):
                                    f = f.value
                                if isinstance(f, ast.Name) and f.id in ('np', 'numpy'):
                                    np_yes.add(t.attr)
        # self.f = local  where the local was bound to an np.* call in the same function
        for mod in modules.values():
            for fn in ast.walk(mod.tree):
                if not isinstance(fn, ast.FunctionDef):
                    continue
                np_locals = set()
                for n in ast.walk(fn):
                    if isinstance(n, ast.Assign) and len(n.targets) == 1 and isinstance(n.targets[0], ast.Name) and isinstance(n.value, ast.Call):
                        f = n.value.func
                        while isinstance(f, ast.Attribute):
                            f = f.value
                        if isinstance(f, ast.Name) and f.id in ('np', 'numpy'):
                            np_locals.add(n.targets[0].id)
                for n in ast.walk(fn):
                    if isinstance(n, ast.Assign) and isinstance(n.value, ast.Name) and n.value.id in np_locals:
                        for t in n.targets:
                            if isinstance(t, ast.Attribute):
                                np_yes.add(t.attr)
        self.numpy_fields = np_yes - np_no
        self._reb: dict[int, set] = {}
        self.subs: dict[str, set] = {}
        for name, defs in self.classes.items():
            for d in defs:
                for b in d.bases:
                    bn = b.id if isinstance(b, ast.Name) else b.attr if isinstance(b, ast.Attribute) else None
                    if bn:
                        self.subs.setdefault(bn, set()).add(name)
        self._eff: dict[int, set] = {}
        self._owner: dict[int, str | None] = {}
        for name, lst in self.funcs_by_name.items():
            for cls, f in lst:
                self._owner[id(f)] = cls

    # ------------------------------------------------------------ class helpers
    def _bases(self, cls):
        out = []
        for d in self.classes.get(cls, []):
            for b in d.bases:
                bn = b.id if isinstance(b, ast.Name) else b.attr if isinstance(b, ast.Attribute) else None
                if bn:
                    out.append(bn)
        return out

    def _ancestors(self, cls):
        seen, todo = [], [cls]
        while todo:
            c = todo.pop(0)
            if c in seen:
                continue
            seen.append(c)
            todo.extend(self._bases(c))
        return seen

    def _descendants(self, cls):
        seen, todo = set(), [cls]
        while todo:
            c = todo.pop()
            for s in self.subs.get(c, ()):
                if s not in seen:
                    seen.add(s)
                    todo.append(s)
        return seen

    def methods_on(self, cls, name):
        """FunctionDefs that a call of `name` on an instance of cls (or a subclass) may run"""
        out = []
        for c in self._ancestors(cls):
            hit = [f for k, f in self.funcs_by_name.get(name, []) if k == c]
            if hit:
                out.extend(hit)
                break
        for c in self._descendants(cls):
            out.extend(f for k, f in self.funcs_by_name.get(name, []) if k == c)
        return out

    # ------------------------------------------------------------ resolution
    def resolve(self, call, cur_cls, local_defs=None, self_name='self'):
        """list of FunctionDefs the call may run; [] when the callee is outside the package"""
        f = call.func
        if isinstance(f, ast.Name):
            if f.id in self.classes:
                return self.methods_on(f.id, '__init__')
            return [fn for k, fn in self.funcs_by_name.get(f.id, []) if k is None]
        if not isinstance(f, ast.Attribute):
            # callables taken out of a table (compiled mobility functions, profile builders): they receive arrays, not models
            return []
        name = f.attr
        recv = f.value
        if isinstance(recv, ast.Call) and isinstance(recv.func, ast.Name) and recv.func.id == 'super' and cur_cls:
            out = []
            for c in self._ancestors(cur_cls)[1:]:
                hit = [fn for k, fn in self.funcs_by_name.get(name, []) if k == c]
                if hit:
                    out.extend(hit)
                    break
            return out
        if isinstance(recv, ast.Name) and recv.id == self_name and cur_cls:
            return self.methods_on(cur_cls, name)
        if isinstance(recv, ast.Name) and local_defs and recv.id in local_defs:
            recv = local_defs[recv.id]
        if isinstance(recv, ast.Name) and recv.id in self.classes:
            return self.methods_on(recv.id, name)
        if isinstance(recv, ast.Call) and isinstance(recv.func, ast.Name) and recv.func.id in self.classes:
            return self.methods_on(recv.func.id, name)
        a = _last_attr(recv)
        if a and a in self.field_types:
            out = []
            for c in self.field_types[a]:
                out.extend(self.methods_on(c, name))
            return out
        if name not in self.funcs_by_name:
            return []
        return [fn for k, fn in self.funcs_by_name[name]]

    # ------------------------------------------------------------ effects
    def direct(self, func) -> set:
        w = set()
        for n in ast.walk(func):
            tgt = None
            if isinstance(n, (ast.Attribute, ast.Subscript)) and isinstance(n.ctx, (ast.Store, ast.Del)):
                tgt = n
            elif isinstance(n, ast.AugAssign):
                tgt = n.target
            if tgt is not None:
                a = _last_attr(tgt)
                if a:
                    w.add(a)
            if isinstance(n, ast.Call):
                if isinstance(n.func, ast.Attribute) and n.func.attr in MUTATORS:
                    a = _last_attr(n.func.value)
                    if a:
                        w.add(a)
                elif isinstance(n.func, ast.Name) and n.func.id in ('setattr', 'delattr'):
                    if len(n.args) >= 2 and isinstance(n.args[1], ast.Constant) and isinstance(n.args[1].value, str):
                        w.add(n.args[1].value)
                    else:
                        w.add('*')
        return w

    @staticmethod
    def direct_rebinds(func) -> set:
        w = set()
        for n in ast.walk(func):
            if isinstance(n, ast.Attribute) and isinstance(n.ctx, (ast.Store, ast.Del)):
                w.add(n.attr)
            elif isinstance(n, ast.AugAssign) and isinstance(n.target, ast.Attribute):
                w.add(n.target.attr)        # x.a += v may rebind (immutable) or mutate: count as rebinding
            elif isinstance(n, ast.Call) and isinstance(n.func, ast.Name) and n.func.id in ('setattr', 'delattr'):
                if len(n.args) >= 2 and isinstance(n.args[1], ast.Constant) and isinstance(n.args[1].value, str):
                    w.add(n.args[1].value)
                else:
                    w.add('*')
        return w

    def of_function(self, func, rebinds_only=False) -> set:
        """attribute names a run of func may store to (rebinds_only: may rebind as a whole)"""
        key = id(func)
        cache = self._reb if rebinds_only else self._eff
        if key in cache:
            return cache[key]
        seen, todo, out = set(), [func], set()
        while todo:
            f = todo.pop()
            if id(f) in seen:
                continue
            seen.add(id(f))
            out |= self.direct_rebinds(f) if rebinds_only else self.direct(f)
            cls = self._owner.get(id(f))
            a = f.args.posonlyargs + f.args.args
            sname = a[0].arg if (cls and a) else 'self'
            ldefs = {}
            counts = {}
            for n in ast.walk(f):
                if isinstance(n, ast.Name) and isinstance(n.ctx, ast.Store):
                    counts[n.id] = counts.get(n.id, 0) + 1
            for n in ast.walk(f):
                if isinstance(n, ast.Assign) and len(n.targets) == 1 and isinstance(n.targets[0], ast.Name) and counts.get(n.targets[0].id) == 1:
                    ldefs[n.targets[0].id] = n.value
            for n in ast.walk(f):
                if isinstance(n, ast.Call):
                    r = self.resolve(n, cls, ldefs, sname)
                    if r is None:
                        out.add('*')
                    else:
                        todo.extend(r)
        cache[key] = out
        return out

    def of_call(self, call, cur_cls, local_defs=None, self_name='self', rebinds_only=False) -> set:
        r = self.resolve(call, cur_cls, local_defs, self_name)
        if r is None:
            return {'*'}
        out = set()
        for f in r:
            out |= self.of_function(f, rebinds_only)
        return out
