"""T-EQUIV: a loop over phases (or elements) is permutation-equivariant.

For a loop `for p in range(len(<collection>))` every value written in the body must be
  (a) stored at the loop index (the index variable occurs in a subscript of the target chain), or
  (b) a local temporary that is assigned before it is read in the same iteration and is not read after the loop, or
  (c) folded by a commutative reduction (+=, *=, |=, &=, `x = x or/and ..`, `x = min/max(x, ..)`), or appended to a list (position = index).
A plain re-binding of a name/field that is live after the loop (last iteration wins), a read of a temporary before
its assignment in the iteration (loop-carried value), a constant index into a per-item collection, and a
data-dependent break/return are order dependences.  Closures created in the body must not capture the loop
variable by reference if they outlive the iteration.
"""
from __future__ import annotations
import ast
from . import astutil as U
from . import cfg as C


def index_loops(func, collections=('phases', 'precipitateParameters', 'PBM', 'PBMs', 'elements', 'models', 'stopConds', '_stoppingConditions')):
    """(loop, index var, collection name) for loops range(len(<..collection>)) and `for x in <..collection>`"""
    out = []
    for n in ast.walk(func):
        if not isinstance(n, ast.For) or not isinstance(n.target, ast.Name):
            continue
        it = n.iter
        if isinstance(it, ast.Call) and U.call_name(it) == 'range' and it.args:
            a = it.args[-1] if len(it.args) == 1 else it.args[1]
            if isinstance(a, ast.Call) and U.call_name(a) == 'len' and a.args:
                c = U.chain(a.args[0])
                if c and c[-1] in collections:
                    out.append((n, n.target.id, c[-1]))
    # item loops: for m in self.models / for m, x in zip(self.models, ...)
    for n in ast.walk(func):
        if not isinstance(n, ast.For):
            continue
        it = n.iter
        cands, todo = [], [it]
        while todo:         # enumerate(zip(a, b)) / zip(a, enumerate(b)): every sequence walked in parallel
            x = todo.pop()
            cands.append(x)
            if isinstance(x, ast.Call) and U.call_name(x) in ('zip', 'enumerate'):
                todo += list(x.args)
        params = set(U.params(func))
        for a in cands:
            c = U.chain(a) if isinstance(a, (ast.Attribute, ast.Name)) else None
            if c and c[-1] in collections and (len(c) >= 2 or c[0] in params) and not any(n is o[0] for o in out):
                idx = None
                if isinstance(it, ast.Call) and U.call_name(it) == 'enumerate' and isinstance(n.target, ast.Tuple) and n.target.elts and isinstance(n.target.elts[0], ast.Name):
                    idx = n.target.elts[0].id
                out.append((n, idx, c[-1]))
    return out


def _uses_index(target, keys):
    """some per-item key (the loop index, a loop item variable, or an iteration-local derived from them) occurs in a
    subscript of the target chain"""
    if not keys:
        return False
    if isinstance(keys, str):
        keys = {keys}
    n = target
    while isinstance(n, (ast.Attribute, ast.Subscript)):
        if isinstance(n, ast.Subscript) and keys & U.names_in(n.slice):
            return True
        n = n.value
    return False


def item_keys(loop, p):
    """names that identify the current item inside one iteration: the index, the loop target names, and locals of the
    body bound once (at the top level of the body) to an expression of those"""
    keys = set(U.target_names(loop.target))
    if p:
        keys.add(p)
    counts = {}
    for st in ast.walk(ast.Module(body=loop.body, type_ignores=[])):
        if isinstance(st, (ast.Assign, ast.AugAssign, ast.AnnAssign)):
            for t in U.flat_targets(st):
                if isinstance(t, ast.Name):
                    counts[t.id] = counts.get(t.id, 0) + 1
    changed = True
    while changed:
        changed = False
        for st in loop.body:
            if isinstance(st, ast.Assign) and len(st.targets) == 1:
                t, v = st.targets[0], st.value
                pairs = [(t, v)]
                if isinstance(t, ast.Tuple) and isinstance(v, ast.Tuple) and len(t.elts) == len(v.elts):
                    pairs = list(zip(t.elts, v.elts))
                for a, b in pairs:
                    if isinstance(a, ast.Name) and counts.get(a.id) == 1 and a.id not in keys and keys & U.names_in(b) \
                            and isinstance(b, (ast.Subscript, ast.Attribute, ast.Name, ast.BinOp, ast.JoinedStr)):
                        keys.add(a.id)
                        changed = True
    return keys


REDUCE_OPS = (ast.Add, ast.Mult, ast.BitOr, ast.BitAnd, ast.BitXor)


def live_after(func, loop):
    """names that are live when the loop is left (classic backward liveness on the function CFG)"""
    from .defassign import _loads, _gen
    g = C.build(func)
    use = {n.id: {nm for nm, _ in _loads(n)} for n in g.nodes}
    live_in = {n.id: set() for n in g.nodes}
    changed = True
    while changed:
        changed = False
        for n in reversed(g.nodes):
            out_all = set()
            new_in = set(use[n.id])
            for succ, label in n.succ:
                lo = live_in[succ]
                new_in |= (lo - set(_gen(n, label)))
            if new_in != live_in[n.id]:
                live_in[n.id] = new_in
                changed = True
    res = set()
    body_ids = set()
    header = None
    for n in g.nodes:
        if n.kind == 'for' and n.ast is loop:
            header = n
    if header is None:
        return None
    # nodes of the loop body: reachable from the 'iter' edge without passing the header again
    start = [s for s, lab in header.succ if lab == 'iter']
    body_ids = C.reachable_from(g, start, stop=lambda nn: nn.id == header.id) - {header.id}
    for s, lab in header.succ:
        if lab != 'iter':
            res |= live_in[s]
    for i in body_ids:
        for s, lab in g.node(i).succ:
            if s not in body_ids and s != header.id:
                res |= live_in[s]
    return res


def check_loop(func, loop, p, frozen=()):
    """list of (kind, node, text) order dependences of one loop"""
    problems = []
    body = loop.body
    in_loop = {id(n) for n in ast.walk(loop)}
    sq = U.seq(func)
    # names whose loop-body value can still be read after the loop is left
    outside_reads = live_after(func, loop)
    if outside_reads is None:
        outside_reads = set()
        for n in U.walk_no_nested(func):
            if isinstance(n, ast.Name) and isinstance(n.ctx, ast.Load) and id(n) not in in_loop:
                outside_reads.add(n.id)
    assigned_before = set()
    for n in U.walk_no_nested(func):
        if isinstance(n, ast.Name) and isinstance(n.ctx, ast.Store) and sq.get(id(n), 0) < sq[id(loop)]:
            assigned_before.add(n.id)
    params = {x.lstrip('*') for x in U.params(func)}
    pname = p
    p = item_keys(loop, p)
    reduced = set()
    plain_locals = set()
    nested_scope = {id(x) for fn in ast.walk(ast.Module(body=body, type_ignores=[])) if isinstance(fn, (ast.FunctionDef, ast.Lambda)) for x in ast.walk(fn) if x is not fn}
    for st in ast.walk(ast.Module(body=body, type_ignores=[])):
        if isinstance(st, ast.AugAssign):
            t = st.target
            if isinstance(t, ast.Name):
                if isinstance(st.op, REDUCE_OPS):
                    reduced.add(t.id)
                else:
                    if t.id in outside_reads:
                        problems.append(('non-commutative-accumulation', st, U.src(st)))
            elif not _uses_index(t, p):
                c = U.chain(t)
                if c and not isinstance(st.op, REDUCE_OPS):
                    problems.append(('non-commutative-accumulation', st, U.src(st)))
        elif isinstance(st, (ast.Assign, ast.AnnAssign)):
            if isinstance(st, ast.AnnAssign) and st.value is None:
                continue
            for t in U.flat_targets(st):
                if isinstance(t, ast.Name):
                    v = st.value
                    # x = x or .. / x = x and .. / x = min(x, ..) / max
                    is_red = False
                    if isinstance(v, ast.BoolOp) and any(isinstance(e, ast.Name) and e.id == t.id for e in v.values):
                        is_red = True
                    if isinstance(v, ast.Call) and U.call_name(v) in ('min', 'max', 'np.minimum', 'np.maximum', 'np.amin', 'np.amax') and t.id in U.names_in(v):
                        is_red = True
                    if isinstance(v, ast.BinOp) and isinstance(v.op, REDUCE_OPS) and any(isinstance(e, ast.Name) and e.id == t.id for e in (v.left, v.right)):
                        is_red = True
                    # a flag set to one and the same literal wherever the loop binds it: whichever iteration sets it, the value is the same
                    if not is_red and isinstance(v, ast.Constant) and isinstance(t, ast.Name):
                        binds = [b for b in ast.walk(ast.Module(body=body, type_ignores=[])) if isinstance(b, (ast.Assign, ast.AugAssign, ast.AnnAssign, ast.For, ast.NamedExpr, ast.comprehension))
                                 and any(isinstance(x, ast.Name) and x.id == t.id and isinstance(x.ctx, ast.Store) for x in ast.walk(b.target if not isinstance(b, ast.Assign) else ast.Tuple(elts=b.targets, ctx=ast.Store())))]
                        if binds and all(isinstance(b, ast.Assign) and len(b.targets) == 1 and isinstance(b.targets[0], ast.Name) and isinstance(b.value, ast.Constant)
                                         and b.value.value == v.value and type(b.value.value) is type(v.value) for b in binds):
                            is_red = True
                    if is_red:
                        reduced.add(t.id)
                    else:
                        plain_locals.add(t.id)
                        if t.id in outside_reads and t.id not in reduced:
                            problems.append(('last-iteration-wins', st, f'{t.id} is re-bound in every iteration and read after the loop: {U.src(st)[:100]}'))
                elif isinstance(t, (ast.Attribute, ast.Subscript)):
                    if not _uses_index(t, p):
                        c = U.chain(t)
                        key = '.'.join(x for x in (c or ()) if x != '[]')
                        root_local = c and c[0] in plain_locals | {nm for nm in plain_locals}
                        if c and c[0] not in ('self',) and c[0] in plain_locals:
                            continue          # store into an object created in this iteration
                        if key in frozen:
                            continue
                        problems.append(('store-not-at-index', st, f'{U.src(t)} is written without the loop index {pname}: {U.src(st)[:100]}'))
        elif isinstance(st, (ast.Break, ast.Return)):
            if id(st) in nested_scope:
                continue        # the return of a function defined inside the loop body ends that function, not the loop
            problems.append(('early-exit', st, f'{type(st).__name__.lower()} inside the loop makes the result depend on the order of the items'))
    # loop-carried temporaries: read before assignment within one iteration
    g = C.build(body, region=True)
    locs = {n for n in plain_locals if n not in params}

    def gen(node, label):
        a = node.ast
        out = set()
        if node.kind == 'stmt' and isinstance(a, (ast.Assign, ast.AnnAssign)):
            for t in U.assign_targets(a):
                out |= U.target_names(t) & locs
        if node.kind == 'for' and label == 'iter':
            out |= U.target_names(a.target) & locs
        return out
    IN = C.must_forward(g, gen)
    from .defassign import _loads
    for node in g.nodes:
        if node.kind in ('entry', 'exit') or IN[node.id] is None:
            continue
        for name, n in _loads(node):
            if name in locs and name not in IN[node.id] and name not in reduced:
                if name in assigned_before or name in params:
                    problems.append(('loop-carried', n, f'{name} is read before it is assigned in the iteration: its value comes from the previous item'))
    # constant index into the looped collection or a per-item array
    for n in ast.walk(ast.Module(body=body, type_ignores=[])):
        if isinstance(n, ast.Subscript) and isinstance(n.ctx, ast.Load):
            c = U.chain(n.value)
            if c and c[-1] in ('precipitateParameters', 'PBM', 'PBMs', 'phases') and U.is_const(n.slice) and not isinstance(U.const_value(n.slice), str):
                problems.append(('constant-item-index', n, f'{U.src(n)} addresses a fixed item inside a loop over the items'))
    return problems


def late_binding_closures(func):
    """[(lambda/def node, loop var)] closures created inside a loop that use the loop variable as a free variable"""
    out = []
    for loop in ast.walk(func):
        if not isinstance(loop, (ast.For, ast.While)):
            continue
        lvars = U.target_names(loop.target) if isinstance(loop, ast.For) else set()
        if not lvars:
            continue
        for n in ast.walk(ast.Module(body=loop.body, type_ignores=[])):
            if isinstance(n, (ast.Lambda, ast.FunctionDef)):
                a = n.args
                bound = {x.arg for x in a.posonlyargs + a.args + a.kwonlyargs}
                if a.vararg:
                    bound.add(a.vararg.arg)
                if a.kwarg:
                    bound.add(a.kwarg.arg)
                body_nodes = [n.body] if isinstance(n, ast.Lambda) else n.body
                free = set()
                for b in body_nodes:
                    for m in ast.walk(b):
                        if isinstance(m, ast.Name) and isinstance(m.ctx, ast.Load) and m.id not in bound:
                            free.add(m.id)
                hit = free & lvars
                if hit:
                    # immediately-invoked / used only as a key inside the iteration is harmless; we flag closures that escape:
                    out.append((n, sorted(hit)[0], loop))
    return out
