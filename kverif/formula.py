"""Formula extraction helpers: local inlining, multiplicative factor lists, AST -> sympy translation."""
from __future__ import annotations
import ast
import copy
from . import astutil as U
from .source import AnalysisError


def single_defs(func, exclude=()):
    """{name: value expr} for locals bound exactly once by a plain `name = expr` and never augmented,
    never stored through (name[...] = ..), never deleted; parameters are not included."""
    counts, values, dirty = {}, {}, set(exclude)
    for n in U.walk_no_nested(func):
        if isinstance(n, ast.Assign):
            for t in n.targets:
                for ft in _flat(t):
                    if isinstance(ft, ast.Name):
                        counts[ft.id] = counts.get(ft.id, 0) + 1
                        if len(n.targets) == 1 and isinstance(n.targets[0], ast.Name):
                            values[ft.id] = n.value
                        else:
                            dirty.add(ft.id)
                    elif isinstance(ft, (ast.Subscript, ast.Attribute)):
                        c = U.chain(ft)
                        if c:
                            dirty.add(c[0])
        elif isinstance(n, ast.AugAssign):
            c = U.chain(n.target)
            if c:
                dirty.add(c[0])
        elif isinstance(n, (ast.For, ast.comprehension)):
            for nm in U.target_names(n.target):
                dirty.add(nm)
        elif isinstance(n, ast.With):
            for it in n.items:
                if it.optional_vars is not None:
                    dirty |= U.target_names(it.optional_vars)
        elif isinstance(n, ast.NamedExpr):
            dirty |= U.target_names(n.target)
    params = {p.lstrip('*') for p in U.params(func)}
    return {k: v for k, v in values.items() if counts.get(k) == 1 and k not in dirty and k not in params}


def _flat(t):
    if isinstance(t, (ast.Tuple, ast.List)):
        for e in t.elts:
            yield from _flat(e)
    elif isinstance(t, ast.Starred):
        yield from _flat(t.value)
    else:
        yield t


class _Inline(ast.NodeTransformer):
    def __init__(self, defs, depth):
        self.defs, self.depth = defs, depth

    def visit_Name(self, node):
        if isinstance(node.ctx, ast.Load) and node.id in self.defs and self.depth > 0:
            sub = copy.deepcopy(self.defs[node.id])
            return _Inline(self.defs, self.depth - 1).visit(sub)
        return node


def inline(expr, defs, depth=6):
    return _Inline(defs, depth).visit(copy.deepcopy(expr))


def factors(expr):
    """(numerator factors, denominator factors, sign) of a product/quotient tree"""
    num, den, sign = [], [], 1

    def rec(e, inv):
        nonlocal sign
        if isinstance(e, ast.BinOp) and isinstance(e.op, ast.Mult):
            rec(e.left, inv)
            rec(e.right, inv)
        elif isinstance(e, ast.BinOp) and isinstance(e.op, ast.Div):
            rec(e.left, inv)
            rec(e.right, not inv)
        elif isinstance(e, ast.UnaryOp) and isinstance(e.op, ast.USub):
            sign = -sign
            rec(e.operand, inv)
        elif isinstance(e, ast.UnaryOp) and isinstance(e.op, ast.UAdd):
            rec(e.operand, inv)
        else:
            (den if inv else num).append(e)
    rec(expr, False)
    return num, den, sign


def slice_key(s):
    """normal form of a subscript slice: '[:-1]', '[1:]', '[1:-1]', '[:,1:-1]' ..."""
    def one(x):
        if isinstance(x, ast.Slice):
            lo = '' if x.lower is None else U.src(x.lower)
            up = '' if x.upper is None else U.src(x.upper)
            st = '' if x.step is None else ':' + U.src(x.step)
            return f'{lo}:{up}{st}'
        return U.src(x)
    if isinstance(s, ast.Tuple):
        return '[' + ','.join(one(e) for e in s.elts) + ']'
    return '[' + one(s) + ']'


# ------------------------------------------------------------------------------------------ sympy
class ToSympy:
    """Translate an arithmetic AST into a sympy expression.

    atoms(expr) may return a sympy object for role atoms (attribute chains, calls);
    integer/float literals become exact Rationals; np.pi -> pi; sqrt/sin/cos/arccos/arcsin/arctan/log/exp known."""

    FUNCS = {'sqrt': 'sqrt', 'sin': 'sin', 'cos': 'cos', 'tan': 'tan', 'arccos': 'acos', 'arcsin': 'asin',
             'arctan': 'atan', 'log': 'log', 'exp': 'exp', 'acos': 'acos', 'asin': 'asin', 'atan': 'atan',
             'abs': 'Abs', 'absolute': 'Abs', 'cbrt': 'cbrt'}

    def __init__(self, atoms=None, env=None):
        import sympy as sp
        self.sp = sp
        self.atoms = atoms or (lambda e: None)
        self.env = dict(env or {})
        self.opaque = {}

    def sym(self, name, **kw):
        return self.sp.Symbol(name, **kw)

    def tr(self, e):
        sp = self.sp
        a = self.atoms(e)
        if a is not None:
            return a
        if isinstance(e, ast.Constant):
            if isinstance(e.value, bool):
                raise AnalysisError('boolean literal in formula')
            if isinstance(e.value, int):
                return sp.Integer(e.value)
            if isinstance(e.value, float):
                return sp.Rational(repr(e.value))
            raise AnalysisError('non-numeric literal in formula')
        if isinstance(e, ast.Name):
            if e.id in self.env:
                return self.env[e.id]
            raise AnalysisError(f'free name {e.id} in formula')
        if isinstance(e, ast.Attribute):
            c = U.chain(e)
            if c in (('np', 'pi'), ('numpy', 'pi'), ('math', 'pi')):
                return sp.pi
            raise AnalysisError(f'unresolved attribute {U.src(e)} in formula')
        if isinstance(e, ast.UnaryOp):
            v = self.tr(e.operand)
            if isinstance(e.op, ast.USub):
                return -v
            if isinstance(e.op, ast.UAdd):
                return v
            raise AnalysisError('unsupported unary operator in formula')
        if isinstance(e, ast.BinOp):
            l, r = self.tr(e.left), self.tr(e.right)
            if isinstance(e.op, ast.Add):
                return l + r
            if isinstance(e.op, ast.Sub):
                return l - r
            if isinstance(e.op, ast.Mult):
                return l * r
            if isinstance(e.op, ast.Div):
                return l / r
            if isinstance(e.op, ast.Pow):
                return l ** r
            raise AnalysisError('unsupported binary operator in formula')
        if isinstance(e, ast.Call):
            name = U.call_name(e) or ''
            parts = name.split('.')
            if len(parts) == 2 and parts[0] in ('np', 'numpy', 'math') and parts[1] in self.FUNCS and len(e.args) == 1:
                return getattr(sp, self.FUNCS[parts[1]])(self.tr(e.args[0]))
            if name == 'abs' and len(e.args) == 1:
                return sp.Abs(self.tr(e.args[0]))
            if len(parts) == 2 and parts[0] in ('np', 'numpy') and parts[1] == 'power' and len(e.args) == 2:
                return self.tr(e.args[0]) ** self.tr(e.args[1])
            raise AnalysisError(f'call {name} is not translatable')
        raise AnalysisError(f'expression {U.src(e)} is not translatable')


def push_slices(e):
    """(a op b)[S] -> a[S] op b[S] for elementwise arithmetic (constants stay unsliced).  Only valid where the
    operands have the same shape or are scalars; callers use it on 1-D class arrays."""
    import copy

    class T(ast.NodeTransformer):
        def visit_Subscript(self, node):
            self.generic_visit(node)
            v = node.value
            if isinstance(v, ast.BinOp) and isinstance(v.op, (ast.Add, ast.Sub, ast.Mult, ast.Div)):
                def sl(x):
                    if isinstance(x, ast.Constant) or (isinstance(x, ast.UnaryOp) and isinstance(x.operand, ast.Constant)):
                        return x
                    return self.visit(ast.Subscript(value=x, slice=copy.deepcopy(node.slice), ctx=ast.Load()))
                return ast.BinOp(left=sl(v.left), op=v.op, right=sl(v.right))
            if isinstance(v, ast.UnaryOp) and isinstance(v.op, ast.USub):
                return ast.UnaryOp(op=v.op, operand=self.visit(ast.Subscript(value=v.operand, slice=copy.deepcopy(node.slice), ctx=ast.Load())))
            return node
    return ast.fix_missing_locations(T().visit(copy.deepcopy(e)))


UFUNC_COMPARE = {'less': ast.Lt, 'greater': ast.Gt, 'less_equal': ast.LtE, 'greater_equal': ast.GtE, 'equal': ast.Eq, 'not_equal': ast.NotEq}
UFUNC_BINOP = {'add': ast.Add, 'subtract': ast.Sub, 'multiply': ast.Mult, 'divide': ast.Div, 'true_divide': ast.Div, 'power': ast.Pow}


def canon_ufuncs(e):
    """np.less(a, b) -> a < b, np.multiply(a, b) -> a * b, np.negative(a) -> -a  (the operators are these ufuncs on arrays)"""
    import copy

    class T(ast.NodeTransformer):
        def visit_Call(self, node):
            self.generic_visit(node)
            f = node.func
            if isinstance(f, ast.Attribute) and isinstance(f.value, ast.Name) and f.value.id in ('np', 'numpy') and not node.keywords:
                if f.attr in UFUNC_COMPARE and len(node.args) == 2:
                    return ast.Compare(left=node.args[0], ops=[UFUNC_COMPARE[f.attr]()], comparators=[node.args[1]])
                if f.attr in UFUNC_BINOP and len(node.args) == 2:
                    return ast.BinOp(left=node.args[0], op=UFUNC_BINOP[f.attr](), right=node.args[1])
                if f.attr == 'negative' and len(node.args) == 1:
                    return ast.UnaryOp(op=ast.USub(), operand=node.args[0])
            return node
    return ast.fix_missing_locations(T().visit(copy.deepcopy(e)))


def reaching_value(func, name, stmt):
    """value of the closest assignment `name = ..` that precedes stmt in the same block (straight-line reaching definition);
    None if there is none"""
    for node in ast.walk(func):
        for attr in ('body', 'orelse', 'finalbody'):
            blk = getattr(node, attr, None)
            if isinstance(blk, list) and stmt in blk:
                for prev in reversed(blk[:blk.index(stmt)]):
                    if isinstance(prev, ast.Assign) and len(prev.targets) == 1 and isinstance(prev.targets[0], ast.Name) and prev.targets[0].id == name:
                        return prev.value
                    if any(isinstance(n, ast.Name) and n.id == name and isinstance(n.ctx, ast.Store) for n in ast.walk(prev)):
                        return None
    return None
