"""T-FRESH: lazily cached / derived state must be invalidated or recomputed when one of its inputs changes.

Lazy caches are discovered from the code (property getter of the form `if self._x is None: ...; self._x = <expr>`),
their inputs are the fields and properties read while computing them (transitively through other cached
properties and through plain property getters to the backing field).  Every method of the class other than the
constructor is then executed symbolically (kverif.symfield); on every path that writes an input, each cache that
depends on it must be None on exit.
"""
from __future__ import annotations
import ast
from . import astutil as U
from .symfield import SymExec, NONE


def lazy_caches(index, cls_key):
    """{cache field: (property name, set of names read via self.<name> while computing)}"""
    out = {}
    for k in index.mro(cls_key):
        for name, m in index.methods(k).items():
            if name.endswith('.setter') or not any(isinstance(d, ast.Name) and d.id == 'property' for d in m.decorator_list):
                continue
            for s in m.body:
                if isinstance(s, ast.If) and isinstance(s.test, ast.Compare) and len(s.test.ops) == 1 and isinstance(s.test.ops[0], ast.Is) \
                        and isinstance(s.test.comparators[0], ast.Constant) and s.test.comparators[0].value is None:
                    left = s.test.left
                    if isinstance(left, ast.Name):
                        # a local that holds the cached value: v = self._x; if v is None: ...
                        binds = [a for a in ast.walk(m) if isinstance(a, ast.Assign) and len(a.targets) == 1 and isinstance(a.targets[0], ast.Name) and a.targets[0].id == left.id]
                        if len(binds) == 1:
                            left = binds[0].value
                    c = U.chain(left)
                    if c and c[0] == 'self' and len(c) == 2:
                        fld = c[1]
                        assigns = [a for a in ast.walk(s) if isinstance(a, ast.Assign) and any(U.chain(t) == ('self', fld) for t in a.targets)]
                        if assigns and fld not in out:
                            reads = set()
                            for st in s.body:
                                for n in ast.walk(st):
                                    if isinstance(n, ast.Attribute) and isinstance(n.ctx, ast.Load):
                                        cc = U.chain(n)
                                        if cc and cc[0] == 'self' and len(cc) >= 2 and cc[1] != fld:
                                            reads.add(cc[1])
                            out[fld] = (name, reads)
    return out


def backing_field(index, cls_key, prop):
    """field returned by a plain property getter (`return self._x`), else None"""
    t = index.lookup_method(cls_key, prop)
    if not t:
        return None
    body = U.core_body(t[2])
    if len(body) == 1 and isinstance(body[0], ast.Return):
        c = U.chain(body[0].value)
        if c and c[0] == 'self' and len(c) == 2:
            return c[1]
    # a getter with further statements (logging, checks) whose every return hands out the same field, which it never stores
    rets = [r for r in U.walk_no_nested(t[2]) if isinstance(r, ast.Return)]
    chains = {U.chain(r.value) if r.value is not None else None for r in rets}
    if rets and len(chains) == 1:
        c = next(iter(chains))
        if c and c[0] == 'self' and len(c) == 2 and not any(isinstance(n, ast.Attribute) and isinstance(n.ctx, ast.Store) and n.attr == c[1] for n in ast.walk(t[2])):
            return c[1]
    return None


def cache_inputs(index, cls_key, caches):
    """{cache field: set of input fields} (transitive)"""
    by_prop = {p: f for f, (p, _) in caches.items()}
    memo = {}

    def inputs(fld, seen=()):
        if fld in memo:
            return memo[fld]
        res = set()
        for r in caches[fld][1]:
            if r in by_prop and by_prop[r] not in seen:
                res |= inputs(by_prop[r], seen + (fld,))
                res.add(by_prop[r])
            elif index.is_property(cls_key, r):
                b = backing_field(index, cls_key, r)
                res.add(b or r)
            else:
                t = index.lookup_method(cls_key, r)
                if t is not None:
                    # helper method (e.g. a validation routine): what it reads counts as well
                    for n in ast.walk(t[2]):
                        if isinstance(n, ast.Attribute) and isinstance(n.ctx, ast.Load):
                            cc = U.chain(n)
                            if cc and cc[0] == 'self' and len(cc) >= 2:
                                r2 = cc[1]
                                if r2 in by_prop:
                                    if by_prop[r2] not in seen and by_prop[r2] != fld:
                                        res |= inputs(by_prop[r2], seen + (fld,))
                                        res.add(by_prop[r2])
                                elif index.is_property(cls_key, r2):
                                    res.add(backing_field(index, cls_key, r2) or r2)
                else:
                    res.add(r)
        memo[fld] = res
        return res
    return {f: {i for i in inputs(f) if i not in caches} for f in caches}


def check_class(repo, index, cls_key, skip=('__init__',)):
    """returns (caches, inputs, problems, n_paths); problems = [(method qual, cache, input, path conds)]"""
    caches = lazy_caches(index, cls_key)
    inp = cache_inputs(index, cls_key, caches)
    all_inputs = set().union(*inp.values()) if inp else set()
    sx = SymExec(repo, index, cls_key)
    problems, npaths = [], 0
    for name, f in index.methods(cls_key).items():
        if name in skip:
            continue
        is_getter = any(isinstance(d, ast.Name) and d.id == 'property' for d in f.decorator_list)
        if is_getter:
            continue
        outs = [o for o in sx.run(f) if o.status != 'raise']
        npaths += len(outs)
        for o in outs:
            w = set(o.written) & all_inputs
            if not w:
                continue
            for c, ins in inp.items():
                hit = w & ins
                if hit and o.fields.get(c, ('old', c)) != NONE:
                    problems.append((name, c, sorted(hit), o.conds, f))
    return caches, inp, problems, npaths
