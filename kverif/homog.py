"""Degree-of-homogeneity inference (a dimensional analysis over the ast).

Every expression gets the degree d such that scaling the designated length arguments by s scales the value by s**d
(None = does not depend on them: degree 0).  Products add degrees, quotients subtract, constant powers multiply,
sqrt halves; a sum of terms of different degrees is not homogeneous - that is the construct the rule reports
(`beta**3 + 1e-30`).  Functions of the same class are followed through their return expressions with the degrees of
the call's arguments.  Anything outside the fragment raises Unknown (-> undecided)."""
from __future__ import annotations
import ast
from fractions import Fraction
from . import astutil as U


class Unknown(Exception):
    pass


class Inhomogeneous(Exception):
    def __init__(self, node, degrees):
        self.node, self.degrees = node, degrees


ZERO = Fraction(0)
PASS_THROUGH = {'np.transpose', 'np.expand_dims', 'np.squeeze', 'np.array', 'np.asarray', 'np.atleast_1d', 'np.abs', 'np.absolute', 'np.real', 'np.sum', 'np.mean',
                'np.negative', 'np.copy', 'np.reshape', 'np.moveaxis', 'np.swapaxes', 'np.amax', 'np.amin', 'np.max', 'np.min', 'float'}
PRODUCTS = {'np.multiply', 'np.matmul', 'np.tensordot', 'np.dot', 'np.outer', 'np.kron', 'np.einsum'}
DIMENSIONLESS_ARG = {'np.sin', 'np.cos', 'np.tan', 'np.exp', 'np.log', 'np.arctan', 'np.arcsin', 'np.arccos', 'np.sinh', 'np.cosh', 'np.tanh'}


class Degrees:
    def __init__(self, methods: dict, inverse_methods=(), max_depth=6):
        """methods: name -> FunctionDef of the class under analysis; inverse_methods: names of methods that return the matrix
        inverse of their argument (degree negated)"""
        self.methods, self.inverse, self.max_depth = methods, set(inverse_methods), max_depth
        self.sums = 0

    def function(self, f, arg_degrees: dict, depth=0):
        """degree of the value returned by f when its parameters have the given degrees (other parameters: 0)"""
        if depth > self.max_depth:
            raise Unknown('call depth')
        env = {p: arg_degrees.get(p, ZERO) for p in U.params(f)}
        env['__lengths__'] = arg_degrees.get('__lengths__', {})
        result = None
        for st in U.body_without_docstring(f):
            if isinstance(st, ast.Assign) and len(st.targets) == 1 and isinstance(st.targets[0], ast.Name):
                if U.dead_callfree_store(f, st):
                    continue
                env[st.targets[0].id] = self.expr(st.value, env, depth)
            elif isinstance(st, ast.AugAssign) and isinstance(st.target, ast.Name):
                cur, v = env.get(st.target.id, ZERO), self.expr(st.value, env, depth)
                env[st.target.id] = self._binop(st.op, cur, v, st, st.value)
            elif isinstance(st, ast.Return):
                d = self.expr(st.value, env, depth)
                if result is not None and d != result:
                    raise Inhomogeneous(st, [result, d])
                result = d
            elif isinstance(st, ast.Expr) and isinstance(st.value, ast.Constant):
                continue
            elif isinstance(st, (ast.Pass, ast.Assert, ast.Import, ast.ImportFrom)) or U.is_inert_output(st) or U.is_raise_guard(st):
                continue
            else:
                raise Unknown(f'statement {type(st).__name__} at line {st.lineno}')
        if result is None:
            raise Unknown('no return')
        return result

    def _binop(self, op, l, r, node, rnode=None, lnode=None):
        if isinstance(op, ast.Mult) or isinstance(op, ast.MatMult):
            return l + r
        if isinstance(op, (ast.Div, ast.FloorDiv)):
            return l - r
        if isinstance(op, (ast.Add, ast.Sub)):
            self.sums += 1
            # a literal zero is homogeneous of every degree
            for nd, other in ((lnode, r), (rnode, l)):
                if isinstance(nd, ast.Constant) and nd.value == 0:
                    return other
            if l != r:
                raise Inhomogeneous(node, [l, r])
            return l
        raise Unknown(f'operator {type(op).__name__}')

    def expr(self, e, env, depth=0):
        if isinstance(e, ast.Constant):
            if isinstance(e.value, (int, float)):
                return ZERO
            raise Unknown('constant')
        if isinstance(e, ast.Name):
            if e.id in env:
                return env[e.id]
            raise Unknown(f'name {e.id}')
        if isinstance(e, ast.Attribute):
            c = U.chain(e)
            if c and c[0] == 'self':
                return ZERO             # fields of the description (grids, weights): independent of the length arguments
            if c and c[0] in ('np', 'math') and c[-1] in ('pi', 'e'):
                return ZERO
            if e.attr in ('T', 'real'):
                return self.expr(e.value, env, depth)
            raise Unknown(f'attribute {U.src(e)}')
        if isinstance(e, ast.Subscript):
            return self.expr(e.value, env, depth)
        if isinstance(e, ast.UnaryOp):
            return self.expr(e.operand, env, depth)
        if isinstance(e, (ast.Tuple, ast.List)):
            ds = {self.expr(x, env, depth) for x in e.elts}
            if len(ds) > 1:
                raise Inhomogeneous(e, sorted(ds))
            return ds.pop() if ds else ZERO
        if isinstance(e, ast.BinOp):
            if isinstance(e.op, ast.Pow):
                b = self.expr(e.left, env, depth)
                try:
                    k = Fraction(str(U.const_value(e.right)))
                except Exception:
                    if b == ZERO:
                        return ZERO
                    raise Unknown('non-constant exponent')
                if self.expr(e.right, env, depth) != ZERO:
                    raise Unknown('exponent depends on the lengths')
                return b * k
            return self._binop(e.op, self.expr(e.left, env, depth), self.expr(e.right, env, depth), e, e.right, e.left)
        if isinstance(e, ast.Call):
            nm = U.call_name(e) or ''
            if nm == 'np.sqrt':
                return self.expr(e.args[0], env, depth) / 2
            if nm == 'np.cbrt':
                return self.expr(e.args[0], env, depth) / 3
            if nm == 'np.power' and len(e.args) == 2:
                return self.expr(ast.BinOp(left=e.args[0], op=ast.Pow(), right=e.args[1]), env, depth)
            if nm == 'np.prod' and e.args:
                d = self.expr(e.args[0], env, depth)
                if d == ZERO:
                    return ZERO
                if isinstance(e.args[0], ast.Name) and e.args[0].id in env.get('__lengths__', {}):
                    return d * env['__lengths__'][e.args[0].id]
                raise Unknown('np.prod of an array of unknown length')
            if nm in DIMENSIONLESS_ARG:
                for a in e.args:
                    if self.expr(a, env, depth) != ZERO:
                        raise Inhomogeneous(e, [self.expr(a, env, depth), ZERO])
                return ZERO
            if nm in PRODUCTS:
                args = [a for a in e.args if not isinstance(a, ast.Constant) or not isinstance(a.value, str)]
                return sum((self.expr(a, env, depth) for a in args[:2]), ZERO)
            if nm in ('np.divide',):
                return self.expr(e.args[0], env, depth) - self.expr(e.args[1], env, depth)
            if nm in ('np.add', 'np.subtract') and len(e.args) == 2:
                return self._binop(ast.Add(), self.expr(e.args[0], env, depth), self.expr(e.args[1], env, depth), e, e.args[1], e.args[0])
            if nm in ('np.linalg.inv', 'np.reciprocal'):
                return -self.expr(e.args[0], env, depth)
            if nm in PASS_THROUGH and e.args:
                return self.expr(e.args[0], env, depth)
            if nm in ('np.zeros', 'np.ones', 'np.eye', 'np.identity', 'np.zeros_like', 'np.ones_like', 'np.linspace', 'np.arange', 'len', 'range'):
                return ZERO
            if isinstance(e.func, ast.Attribute) and e.func.attr in ('transpose', 'reshape', 'flatten', 'copy', 'astype', 'squeeze', 'sum') and not nm.startswith('np.'):
                return self.expr(e.func.value, env, depth)
            if nm.startswith('self.') and nm.count('.') == 1:
                m = nm.split('.')[1]
                if m in self.inverse:
                    return -self.expr(e.args[0], env, depth)
                f = self.methods.get(m)
                if f is not None:
                    ps = U.params(f)[1:]
                    ad = {}
                    for p, a in zip(ps, e.args):
                        ad[p] = self.expr(a, env, depth)
                    for k in e.keywords:
                        if k.arg:
                            ad[k.arg] = self.expr(k.value, env, depth)
                    ad['__lengths__'] = {p: env['__lengths__'][a.id] for p, a in zip(ps, e.args) if isinstance(a, ast.Name) and a.id in env.get('__lengths__', {})}
                    return self.function(f, ad, depth + 1)
            raise Unknown(f'call {nm or U.src(e.func)}')
        raise Unknown(type(e).__name__)
