"""Program index: imports, classes with MRO through imports, callee resolution (class-hierarchy analysis)."""
from __future__ import annotations
import ast
from .source import Repo, AnchorMissing
from . import astutil as U


class Index:
    def __init__(self, repo: Repo):
        self.repo = repo
        self.classes = {}        # (path, name) -> ClassDef
        self.by_name = {}        # name -> [(path, name)]
        self.imports = {}        # path -> {local name: ('module', dotted) | ('object', dotted module, name)}
        self.modname_to_path = {m.name: p for p, m in repo.modules.items()}
        for p, m in repo.modules.items():
            imp = {}
            for node in ast.walk(m.tree):
                if isinstance(node, ast.Import):
                    for a in node.names:
                        local = a.asname or a.name.split('.')[0]
                        imp[local] = ('module', a.name if a.asname else a.name.split('.')[0])
                elif isinstance(node, ast.ImportFrom) and (node.module or node.level):
                    mod = node.module or ''
                    if node.level:
                        pkg = m.name.split('.')
                        if not p.endswith('__init__.py'):
                            pkg = pkg[:-1]
                        pkg = pkg[:len(pkg) - (node.level - 1)] if node.level > 1 else pkg
                        mod = '.'.join(pkg + ([mod] if mod else []))
                    for a in node.names:
                        imp[a.asname or a.name] = ('object', mod, a.name)
            self.imports[p] = imp
            for node in m.tree.body:
                if isinstance(node, ast.ClassDef):
                    self.classes[(p, node.name)] = node
                    self.by_name.setdefault(node.name, []).append((p, node.name))
        self._subclasses = None

    # ------------------------------------------------------------------ names
    def resolve_name(self, path, name, _depth=0):
        """resolve a bare name used in module `path` to ('class', (p, n)) / ('func', p, n) / ('module', p) / None"""
        if (path, name) in self.classes:
            return ('class', (path, name))
        try:
            self.repo.func(path, name)
            return ('func', path, name)
        except AnchorMissing:
            pass
        imp = self.imports.get(path, {}).get(name)
        if imp is None or _depth > 4:
            return None
        if imp[0] == 'module':
            p = self.modname_to_path.get(imp[1])
            return ('module', p) if p else None
        _, mod, obj = imp
        p = self.modname_to_path.get(mod)
        if p is None:
            return None
        sub = self.modname_to_path.get(mod + '.' + obj)
        if sub is not None:
            return ('module', sub)
        return self.resolve_name(p, obj, _depth + 1)

    # ------------------------------------------------------------------ classes
    def bases(self, key):
        path, _ = key
        out = []
        for b in self.classes[key].bases:
            if isinstance(b, ast.Name):
                r = self.resolve_name(path, b.id)
                if r and r[0] == 'class':
                    out.append(r[1])
            elif isinstance(b, ast.Attribute):
                c = U.chain(b)
                if c:
                    r = self.resolve_name(path, c[0])
                    if r and r[0] == 'module' and (r[1], c[-1]) in self.classes:
                        out.append((r[1], c[-1]))
        return out

    def mro(self, key):
        out, todo = [], [key]
        while todo:
            k = todo.pop(0)
            if k in out or k not in self.classes:
                continue
            out.append(k)
            todo = self.bases(k) + todo if False else todo + self.bases(k)
        return out

    def subclasses(self, key):
        if self._subclasses is None:
            self._subclasses = {}
            for k in self.classes:
                for b in self.mro(k)[1:]:
                    self._subclasses.setdefault(b, []).append(k)
        return self._subclasses.get(key, [])

    def class_key(self, path, name):
        if (path, name) in self.classes:
            return (path, name)
        raise AnchorMissing(f'class {name} not in {path}')

    def methods(self, key):
        out = {}
        for node in self.classes[key].body:
            if isinstance(node, ast.FunctionDef):
                is_setter = any(isinstance(d, ast.Attribute) and d.attr == 'setter' for d in node.decorator_list)
                out[node.name + ('.setter' if is_setter else '')] = node
        return out

    def lookup_method(self, key, meth):
        """first definition along the MRO: (path, 'Cls.meth', FunctionDef) or None"""
        for k in self.mro(key):
            m = self.methods(k).get(meth)
            if m is not None:
                return (k[0], f'{k[1]}.{meth}', m)
        return None

    def dispatch(self, key, meth):
        """all targets a call self.meth() inside class `key` may reach (MRO + overriding subclasses)"""
        out = []
        first = self.lookup_method(key, meth)
        if first:
            out.append(first)
        for sk in self.subclasses(key):
            m = self.methods(sk).get(meth)
            if m is not None:
                t = (sk[0], f'{sk[1]}.{meth}', m)
                if t not in out:
                    out.append(t)
        return out

    def _class_literal(self, key, expr, depth=0):
        """a literal ast (constants, tuples/lists of literals) equal to the class-body expression `expr` of class `key`:
        literals, Name / Class.NAME references to other class-level literals, and + of tuples; None when it is not one"""
        import ast, copy
        if depth > 6:
            return None
        if isinstance(expr, ast.Constant):
            return expr
        if isinstance(expr, ast.UnaryOp) and isinstance(expr.operand, ast.Constant):
            return expr
        if isinstance(expr, (ast.Tuple, ast.List)):
            elts = [self._class_literal(key, e, depth + 1) for e in expr.elts]
            if any(e is None for e in elts):
                return None
            return ast.copy_location(type(expr)(elts=[copy.deepcopy(e) for e in elts], ctx=ast.Load()), expr)
        if isinstance(expr, ast.Attribute) and isinstance(expr.value, ast.Name):
            k2 = (key[0], expr.value.id)
            if k2 in self.classes:
                return self._class_binding(k2, expr.attr, depth + 1)
            return None
        if isinstance(expr, ast.Name):
            return self._class_binding(key, expr.id, depth + 1, own_only=True)
        if isinstance(expr, ast.BinOp) and isinstance(expr.op, ast.Add):
            a, b = self._class_literal(key, expr.left, depth + 1), self._class_literal(key, expr.right, depth + 1)
            if isinstance(a, ast.Tuple) and isinstance(b, ast.Tuple):
                return ast.copy_location(ast.Tuple(elts=list(a.elts) + list(b.elts), ctx=ast.Load()), expr)
            if isinstance(a, ast.List) and isinstance(b, ast.List):
                return ast.copy_location(ast.List(elts=list(a.elts) + list(b.elts), ctx=ast.Load()), expr)
        return None

    def _class_binding(self, key, name, depth=0, own_only=False):
        import ast
        for k in ([key] if own_only else self.mro(key)):
            cdef = self.classes.get(k)
            if cdef is None:
                continue
            found = None
            for st in cdef.body:
                if isinstance(st, ast.Assign) and len(st.targets) == 1 and isinstance(st.targets[0], ast.Name) and st.targets[0].id == name:
                    found = st          # the last binding in the class body wins
            if found is not None:
                return self._class_literal(k, found.value, depth + 1)
        return None

    def class_constants(self, key) -> dict:
        """name -> literal ast for class-body `NAME = <literal>` bindings seen through the MRO of `key` (nearest class wins),
        excluding names that some method of those classes assigns on the instance"""
        import ast
        names = []
        assigned = set()
        for k in self.mro(key):
            cdef = self.classes.get(k)
            if cdef is None:
                continue
            for st in cdef.body:
                if isinstance(st, ast.Assign) and len(st.targets) == 1 and isinstance(st.targets[0], ast.Name) and st.targets[0].id not in names:
                    names.append(st.targets[0].id)
            for n in ast.walk(cdef):
                if isinstance(n, ast.Attribute) and isinstance(n.ctx, (ast.Store, ast.Del)) and isinstance(n.value, ast.Name) and n.value.id in ('self', 'cls'):
                    assigned.add(n.attr)
                if isinstance(n, ast.Call) and isinstance(n.func, ast.Name) and n.func.id == 'setattr' and not (len(n.args) >= 2 and isinstance(n.args[1], ast.Constant)):
                    assigned.add('*')
        out = {}
        for nm in names:
            if nm in assigned:
                continue
            v = self._class_binding(key, nm)
            if v is not None:
                out[nm] = v
        out['*dynamic*'] = '*' in assigned
        return out

    def method_rows(self, key, name, start=0, depth=0):
        """the list of row expressions a table-building method returns for an instance of class `key`: `return [rows]`,
        `return super().m() + [rows]`, or `t = super().m(); t.append(row) / t.extend([rows]) / t += [rows]; return t` -
        followed through the MRO.  None when the method is not of that shape."""
        import ast
        if depth > 6:
            return None
        mro = self.mro(key)
        for i in range(start, len(mro)):
            m = self.methods(mro[i]).get(name) if mro[i] in self.classes else None
            if m is None:
                continue
            body = [st for st in m.body if not (isinstance(st, ast.Expr) and isinstance(st.value, ast.Constant))]

            def rows_of(e, env):
                if isinstance(e, (ast.List, ast.Tuple)) and not any(isinstance(x, ast.Starred) for x in e.elts):
                    return list(e.elts)
                if isinstance(e, ast.Name) and e.id in env:
                    return list(env[e.id])
                if isinstance(e, ast.Call) and isinstance(e.func, ast.Attribute) and e.func.attr == name and isinstance(e.func.value, ast.Call) \
                        and isinstance(e.func.value.func, ast.Name) and e.func.value.func.id == 'super' and not e.args:
                    return self.method_rows(key, name, i + 1, depth + 1)
                if isinstance(e, ast.Call) and isinstance(e.func, ast.Name) and e.func.id in ('list', 'tuple') and len(e.args) == 1:
                    return rows_of(e.args[0], env)
                if isinstance(e, ast.BinOp) and isinstance(e.op, ast.Add):
                    a, b = rows_of(e.left, env), rows_of(e.right, env)
                    return None if a is None or b is None else a + b
                return None
            env = {}
            for st in body:
                if isinstance(st, ast.Assign) and len(st.targets) == 1 and isinstance(st.targets[0], ast.Name):
                    r = rows_of(st.value, env)
                    if r is None:
                        return None
                    env[st.targets[0].id] = r
                elif isinstance(st, ast.AugAssign) and isinstance(st.target, ast.Name) and isinstance(st.op, ast.Add) and st.target.id in env:
                    r = rows_of(st.value, env)
                    if r is None:
                        return None
                    env[st.target.id] = env[st.target.id] + r
                elif isinstance(st, ast.Expr) and isinstance(st.value, ast.Call) and isinstance(st.value.func, ast.Attribute) and isinstance(st.value.func.value, ast.Name) \
                        and st.value.func.value.id in env and st.value.func.attr in ('append', 'extend') and len(st.value.args) == 1:
                    if st.value.func.attr == 'append':
                        env[st.value.func.value.id] = env[st.value.func.value.id] + [st.value.args[0]]
                    else:
                        r = rows_of(st.value.args[0], env)
                        if r is None:
                            return None
                        env[st.value.func.value.id] = env[st.value.func.value.id] + r
                elif isinstance(st, ast.Return):
                    return rows_of(st.value, env) if st.value is not None else None
                else:
                    return None
            return None
        return None

    def specialised(self, key, meth, func=None):
        """the method `meth` (or the given definition `func`) as an instance of exactly class `key` runs it: found through the
        MRO, with `self.NAME` replaced by the class-level literal NAME resolves to for that class, tests on those literals
        decided, loops over literal tables written out and getattr/setattr with literal names folded"""
        import ast, copy
        if func is None:
            tgt = self.lookup_method(key, meth)
            if tgt is None:
                return None
            func = tgt[2]
        consts = dict(self.class_constants(key))
        dynamic = consts.pop('*dynamic*', False)
        f = copy.deepcopy(func)
        a = f.args.posonlyargs + f.args.args
        sname = a[0].arg if a else 'self'
        # loops over a table built by a method of the class: for .. in self.m()  ->  for .. in [rows the method returns for this class]
        changed = False
        for loop in ast.walk(f):
            it = getattr(loop, 'iter', None)
            if isinstance(loop, (ast.For, ast.comprehension)) and isinstance(it, ast.Call) and isinstance(it.func, ast.Attribute) and isinstance(it.func.value, ast.Name) \
                    and it.func.value.id == sname and not it.args and not it.keywords:
                rows = self.method_rows(key, it.func.attr)
                if rows is not None:
                    loop.iter = ast.copy_location(ast.List(elts=[copy.deepcopy(r) for r in rows], ctx=ast.Load()), it)
                    changed = True
        if not consts and not changed:
            return f
        # a setattr with a computed name may rebind any attribute: only plain constants of the class are trusted then
        if dynamic:
            written = {n.args[1].value for k in self.mro(key) if self.classes.get(k) is not None for n in ast.walk(self.classes[k])
                       if isinstance(n, ast.Call) and isinstance(n.func, ast.Name) and n.func.id == 'setattr' and len(n.args) >= 2 and isinstance(n.args[1], ast.Constant)}
            consts = {k_: v for k_, v in consts.items() if k_.isupper() or k_.startswith('_') and k_.lstrip('_').isupper()}
            consts = {k_: v for k_, v in consts.items() if k_ not in written}
        cls_names = {k[1] for k in self.mro(key)}

        class Sub(ast.NodeTransformer):
            def visit_Attribute(self, n):
                self.generic_visit(n)
                if isinstance(n.ctx, ast.Load) and isinstance(n.value, ast.Name) and n.value.id == sname and n.attr in consts:
                    return ast.copy_location(copy.deepcopy(consts[n.attr]), n)
                return n
        f = Sub().visit(f)
        from . import normalise
        f.body = normalise._prune_constant_tests(f.body) or [ast.Pass()]
        ast.fix_missing_locations(f)
        try:
            normalise.unroll_tables(f)
        except Exception:
            pass
        return f

    def is_property(self, key, name):
        for k in self.mro(key):
            m = self.methods(k).get(name)
            if m is not None:
                return any(isinstance(d, ast.Name) and d.id == 'property' for d in m.decorator_list)
        return False

    def enclosing_class(self, path, func):
        for (p, n), c in self.classes.items():
            if p == path and func in c.body:
                return (p, n)
        return None

    # ------------------------------------------------------------------ calls
    def resolve_call(self, path, cls_key, call):
        """targets of a call expression appearing in module `path` inside class `cls_key` (or None):
        list of (path, qual, FunctionDef).  Unknown / external callees give []."""
        f = call.func
        if isinstance(f, ast.Name):
            r = self.resolve_name(path, f.id)
            if r and r[0] == 'func':
                return [(r[1], r[2], self.repo.func(r[1], r[2]))]
            if r and r[0] == 'class':
                t = self.lookup_method(r[1], '__init__')
                return [t] if t else []
            return []
        if isinstance(f, ast.Attribute):
            v = f.value
            if isinstance(v, ast.Name) and v.id == 'self' and cls_key:
                return self.dispatch(cls_key, f.attr)
            if isinstance(v, ast.Call) and isinstance(v.func, ast.Name) and v.func.id == 'super' and cls_key:
                for k in self.mro(cls_key)[1:]:
                    m = self.methods(k).get(f.attr)
                    if m is not None:
                        return [(k[0], f'{k[1]}.{f.attr}', m)]
                return []
            if isinstance(v, ast.Name):
                r = self.resolve_name(path, v.id)
                if r and r[0] == 'module' and r[1]:
                    try:
                        return [(r[1], f.attr, self.repo.func(r[1], f.attr))]
                    except AnchorMissing:
                        return []
                if r and r[0] == 'class':
                    t = self.lookup_method(r[1], f.attr)
                    return [t] if t else []
        return []

    def methods_named(self, name):
        """every method of that name in any class (used for receivers of unknown type)"""
        out = []
        for k in self.classes:
            m = self.methods(k).get(name)
            if m is not None:
                out.append((k[0], f'{k[1]}.{name}', m))
        return out

    # ------------------------------------------------------------------ fields
    def field_writes(self, key, include_mro=True):
        """{field: [(path, qual, stmt)]} for self.<field> = ... / augmented / subscript stores"""
        out = {}
        keys = self.mro(key) if include_mro else [key]
        for k in keys:
            for mname, m in self.methods(k).items():
                for node in U.walk_no_nested(m):
                    for t in U.flat_targets(node) if isinstance(node, (ast.Assign, ast.AugAssign, ast.AnnAssign)) else []:
                        c = U.chain(t)
                        if c and c[0] == 'self' and len(c) >= 2:
                            out.setdefault(c[1], []).append((k[0], f'{k[1]}.{mname}', node, t))
        return out


def _slot_targets(self, key, attr):
    """methods that a function-valued field self.<attr> may hold (self.attr = self.method [if .. else self.other])"""
    out = []
    keys = list(dict.fromkeys(self.mro(key) + self.subclasses(key)))
    for k in keys:
        for mname, m in self.methods(k).items():
            for node in U.walk_no_nested(m):
                if not isinstance(node, ast.Assign):
                    continue
                for t in node.targets:
                    if U.chain(t) == ('self', attr):
                        vals = [node.value]
                        if isinstance(node.value, ast.IfExp):
                            vals = [node.value.body, node.value.orelse]
                        for v in vals:
                            c = U.chain(v)
                            if c and len(c) == 2 and c[0] == 'self':
                                for tgt in self.dispatch(k, c[1]):
                                    if tgt not in out:
                                        out.append(tgt)
    return out


Index.slot_targets = _slot_targets
