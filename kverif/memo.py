"""T-MEMO: a memoised value introduced by a change must be dropped whenever something it was computed from is changed.

The template looks only at cache fields that are *new* relative to the reference tree (kverif/baseline_names.json) - the caches of
the reference tree have their own rules (T-FRESH, R9.x) - so it is silent on the unchanged tree by construction and decides, for
a change that adds a memo, the structural necessary condition of every "history changes nothing / cached factors follow every
change" clause:

  cache field F of class C   = new attribute with  a hit test (self.F is [not] None, key [not] in self.F, self.F[0] == key,
                               self.F.get(..))  and a fill store (self.F = <value>, self.F[key] = <value>) in methods of C
  computation                = the methods holding the hit test / the fill store and the methods of C they reference (depth 3)
  inputs(F)                  = fields self.X read there, minus the fields that appear in the hit test or in the key (they are
                               part of the key), minus F and other new cache fields, minus the fields the computation itself
                               produces (stored there from values that are not parameters of the storing method)
  invalidators(F)            = methods that assign None / an empty container to self.F or call self.F.clear(), and their callers
  rule                       = every method of C (the constructor aside) that stores to an input is an invalidator
                               (only for fields that have an invalidator outside the constructor: a field that is never emptied
                               again is a lazily computed default, not a memo somebody meant to keep fresh)

What is decided: the writer/invalidator relation inside the class.  Not decided: inputs owned by other objects, keys that are
proxies of the arguments (a key that omits an argument cannot be told from one that determines it), quantised keys."""
from __future__ import annotations
import ast
from . import astutil as U

EMPTY_CALLS = {'dict', 'list', 'set', 'OrderedDict', 'defaultdict'}


def _self_attr(n, me):
    return isinstance(n, ast.Attribute) and isinstance(n.value, ast.Name) and n.value.id == me


def _is_empty(v):
    if isinstance(v, ast.Constant) and v.value is None:
        return True
    if isinstance(v, (ast.Dict, ast.List, ast.Set, ast.Tuple)) and not (getattr(v, 'keys', None) or getattr(v, 'elts', None)):
        return True
    if isinstance(v, ast.Call) and not v.args and not v.keywords and isinstance(v.func, ast.Name) and v.func.id in EMPTY_CALLS:
        return True
    return False


def analyse_class(cnode: ast.ClassDef, new_attr):
    """[(cache field, writer method name, input field, node)] violations, and [(cache field, inputs, invalidators)] facts"""
    methods = {}
    for st in cnode.body:
        if isinstance(st, ast.FunctionDef) and st.args.args:
            name = st.name
            for d in st.decorator_list:
                if isinstance(d, ast.Attribute) and d.attr in ('setter', 'deleter'):
                    name = f'{st.name}.{d.attr}'
            methods[name] = st
    # candidate cache fields
    hit, fill, clear = {}, {}, {}
    for mname, m in methods.items():
        me = m.args.args[0].arg
        for n in ast.walk(m):
            if isinstance(n, ast.Compare) and len(n.ops) == 1:
                sides = [n.left, n.comparators[0]]
                for s_ in sides:
                    base = s_
                    while isinstance(base, ast.Subscript):
                        base = base.value
                    if _self_attr(base, me) and new_attr(base.attr) and isinstance(n.ops[0], (ast.Is, ast.IsNot, ast.In, ast.NotIn, ast.Eq, ast.NotEq)):
                        other = sides[1] if s_ is sides[0] else sides[0]
                        hit.setdefault(base.attr, []).append((mname, n, other))
            if isinstance(n, ast.Call) and isinstance(n.func, ast.Attribute) and n.func.attr == 'get' and _self_attr(n.func.value, me) and new_attr(n.func.value.attr):
                hit.setdefault(n.func.value.attr, []).append((mname, n, n.args[0] if n.args else None))
            if isinstance(n, ast.Call) and isinstance(n.func, ast.Attribute) and n.func.attr == 'clear' and _self_attr(n.func.value, me) and new_attr(n.func.value.attr):
                clear.setdefault(n.func.value.attr, set()).add(mname)
            if isinstance(n, (ast.Assign, ast.AnnAssign)) and getattr(n, 'value', None) is not None:
                for t in (n.targets if isinstance(n, ast.Assign) else [n.target]):
                    if _self_attr(t, me) and new_attr(t.attr):
                        if _is_empty(n.value):
                            clear.setdefault(t.attr, set()).add(mname)
                        else:
                            fill.setdefault(t.attr, []).append((mname, n, None))
                    elif isinstance(t, ast.Subscript) and _self_attr(t.value, me) and new_attr(t.value.attr):
                        fill.setdefault(t.value.attr, []).append((mname, n, t.slice))
    out, facts = [], []
    caches = [F for F in hit if F in fill]
    for F in caches:
        comp = {mn for mn, _, _ in hit[F]} | {mn for mn, _, _ in fill[F]}
        # methods referenced from the computation (called or passed as a value)
        frontier = set(comp)
        for _ in range(3):
            nxt = set()
            for mn in frontier:
                m = methods[mn]
                me = m.args.args[0].arg
                for n in ast.walk(m):
                    if _self_attr(n, me) and isinstance(n.ctx, ast.Load) and n.attr in methods and n.attr not in comp:
                        nxt.add(n.attr)
            comp |= nxt
            frontier = nxt
        # invalidators and their callers
        inval = set(clear.get(F, ()))
        changed = True
        while changed:
            changed = False
            for mn, m in methods.items():
                if mn in inval:
                    continue
                me = m.args.args[0].arg
                if any(isinstance(n, ast.Call) and _self_attr(n.func, me) and n.func.attr in inval for n in ast.walk(m)):
                    inval.add(mn)
                    changed = True
        comp -= {mn for mn in inval if mn not in {h[0] for h in hit[F]} | {f_[0] for f_ in fill[F]}}
        # fields that are part of the key
        keyed = set()
        for mn, node, other in hit[F] + fill[F]:
            m = methods[mn]
            me = m.args.args[0].arg
            exprs = [x for x in (other,) if x is not None]
            # locals feeding the key expression
            names = {n.id for e in exprs for n in ast.walk(e) if isinstance(n, ast.Name)}
            for _ in range(3):
                for st in ast.walk(m):
                    if isinstance(st, ast.Assign) and any(isinstance(t, ast.Name) and t.id in names for t in st.targets):
                        exprs.append(st.value)
                        names |= {n.id for n in ast.walk(st.value) if isinstance(n, ast.Name)}
                    if isinstance(st, (ast.For, ast.comprehension)) and any(isinstance(n, ast.Name) and n.id in names for n in ast.walk(st.target)):
                        exprs.append(st.iter)
                        names |= {n.id for n in ast.walk(st.iter) if isinstance(n, ast.Name)}
            for e in exprs:
                for n in ast.walk(e):
                    if _self_attr(n, me):
                        keyed.add(n.attr)
        # fields the computation itself produces (its outputs, scratch state, sibling caches): stored in a computation method from
        # values that do not come from that method's parameters
        def stores_of(m):
            me_ = m.args.args[0].arg
            params_ = {a.arg for a in m.args.posonlyargs + m.args.args + m.args.kwonlyargs} - {me_}
            for n in ast.walk(m):
                if isinstance(n, (ast.Assign, ast.AugAssign, ast.AnnAssign)) and getattr(n, 'value', None) is not None:
                    for t in (n.targets if isinstance(n, ast.Assign) else [n.target]):
                        for t_ in (t.elts if isinstance(t, (ast.Tuple, ast.List)) else [t]):
                            base = t_
                            while isinstance(base, ast.Subscript):
                                base = base.value
                            if _self_attr(base, me_):
                                from_param = any(isinstance(x, ast.Name) and x.id in params_ for x in ast.walk(n.value))
                                yield base.attr, n, from_param
        produced = set()
        for mn in comp:
            for attr, node, from_param in stores_of(methods[mn]):
                if not from_param:
                    produced.add(attr)
        # inputs: the fields the *stored value* is computed from - backward slice of the fill values through the locals of the
        # filling method (flow-insensitive), and everything read by the methods of the class that occur in the slice
        # (a field that is merely defaulted lazily - `if self.F is None: self.F = <constant>` - has no inputs)
        def fields_read(mn_, seen_):
            m_ = methods[mn_]
            me_ = m_.args.args[0].arg
            got = set()
            for n in ast.walk(m_):
                if _self_attr(n, me_) and isinstance(n.ctx, ast.Load):
                    if n.attr in methods:
                        if n.attr not in seen_ and len(seen_) < 12:
                            seen_.add(n.attr)
                            got |= fields_read(n.attr, seen_)
                    else:
                        got.add(n.attr)
            return got
        raw = set()
        for mn, node, _key in fill[F]:
            m = methods[mn]
            me = m.args.args[0].arg
            exprs = [node.value]
            names = {n.id for n in ast.walk(node.value) if isinstance(n, ast.Name)}
            for _ in range(6):
                before_ = len(exprs)
                for st in ast.walk(m):
                    src_ = None
                    if isinstance(st, (ast.Assign, ast.AugAssign, ast.AnnAssign)) and getattr(st, 'value', None) is not None:
                        tg = st.targets if isinstance(st, ast.Assign) else [st.target]
                        if any(isinstance(n, ast.Name) and n.id in names for t in tg for n in ast.walk(t)):
                            src_ = st.value
                    elif isinstance(st, (ast.For, ast.comprehension)):
                        if any(isinstance(n, ast.Name) and n.id in names for n in ast.walk(st.target)):
                            src_ = st.iter
                    if src_ is not None and not any(src_ is e for e in exprs):
                        exprs.append(src_)
                        names |= {n.id for n in ast.walk(src_) if isinstance(n, ast.Name)}
                if len(exprs) == before_:
                    break
            for e in exprs:
                for n in ast.walk(e):
                    if _self_attr(n, me) and isinstance(n.ctx, ast.Load):
                        if n.attr in methods:
                            raw |= fields_read(n.attr, {n.attr})
                        else:
                            raw.add(n.attr)
        inputs = {a for a in raw if a != F and a not in caches and a not in keyed and a not in produced and a not in methods}
        if not (inval - {'__init__'}):
            # never emptied after construction: a value that is computed once on first use (a lazily defaulted setting), not a memo
            # its author meant to keep fresh - staleness of such a field is not what this template decides
            facts.append((F, [], [], sorted(keyed)))
            continue
        facts.append((F, sorted(inputs), sorted(inval), sorted(keyed)))
        for mn, m in methods.items():
            if mn == '__init__' or mn in inval:
                continue
            for attr, node, from_param in stores_of(m):
                # inside the computation only a store of something that comes in from outside (a parameter) changes an input
                if attr in inputs and (mn not in comp or from_param):
                    out.append((F, mn, attr, node))
                    break
    return out, facts


VIEW_CALLS = {'np.squeeze', 'np.atleast_1d', 'np.atleast_2d', 'np.atleast_3d', 'np.asarray', 'np.asanyarray', 'np.ravel', 'np.reshape', 'np.transpose', 'np.expand_dims'}
VIEW_ATTRS = {'T', 'real'}
VIEW_METHODS = {'reshape', 'ravel', 'squeeze', 'view', 'transpose'}


def may_alias(func, resolve_call=None):
    """{local name: set of parameter names whose array it may be a view of} by a flow-insensitive may-analysis over the
    view-preserving numpy forms; resolve_call(call) -> [set of argument positions the k-th returned value may alias] for package
    functions (one level)"""
    params = [a.arg for a in func.args.posonlyargs + func.args.args + func.args.kwonlyargs]
    al = {p_: {p_} for p_ in params}

    def src(e):
        if isinstance(e, ast.Name):
            return set(al.get(e.id, ()))
        if isinstance(e, ast.Attribute) and e.attr in VIEW_ATTRS:
            return src(e.value)
        if isinstance(e, ast.Subscript):
            return src(e.value) if isinstance(e.slice, (ast.Slice, ast.Tuple, ast.Constant)) or True else set()
        if isinstance(e, ast.Call):
            nm = U.call_name(e) or ''
            if nm in VIEW_CALLS and e.args:
                return src(e.args[0])
            if isinstance(e.func, ast.Attribute) and e.func.attr in VIEW_METHODS:
                return src(e.func.value)
        if isinstance(e, ast.IfExp):
            return src(e.body) | src(e.orelse)
        return set()
    for _ in range(4):
        for st in ast.walk(func):
            if not isinstance(st, ast.Assign) or len(st.targets) != 1:
                continue
            t, v = st.targets[0], st.value
            if isinstance(t, ast.Name):
                got = src(v)
                if got:
                    al.setdefault(t.id, set()).update(got)
            elif isinstance(t, ast.Tuple) and all(isinstance(x, ast.Name) for x in t.elts):
                if isinstance(v, ast.Tuple) and len(v.elts) == len(t.elts):
                    for x, y in zip(t.elts, v.elts):
                        got = src(y)
                        if got:
                            al.setdefault(x.id, set()).update(got)
                elif isinstance(v, ast.Call) and resolve_call is not None:
                    pos = resolve_call(v)
                    if pos and len(pos) == len(t.elts):
                        for x, idxs in zip(t.elts, pos):
                            for i in idxs:
                                if i < len(v.args):
                                    got = src(v.args[i])
                                    if got:
                                        al.setdefault(x.id, set()).update(got)
    return al


def returned_views(func):
    """[set of parameter positions the k-th element of the returned tuple may be a view of] (None when not a tuple return)"""
    params = [a.arg for a in func.args.posonlyargs + func.args.args]
    al = may_alias(func)
    out = None
    for r in ast.walk(func):
        if isinstance(r, ast.Return) and isinstance(r.value, ast.Tuple):
            row = []
            for e in r.value.elts:
                names = al.get(e.id, set()) if isinstance(e, ast.Name) else set()
                row.append({params.index(n) for n in names if n in params})
            out = row if out is None else [a | b for a, b in zip(out, row)]
    return out


def alias_keys(cnode, new_attr, resolve_call):
    """[(cache field, method, element source, node)]: a stored key element that is compared with np.array_equal & co (so it is an
    array) and may be a view of a caller's array (a parameter reaching the store through view-preserving operations only)"""
    out = []
    methods = [st for st in cnode.body if isinstance(st, ast.FunctionDef) and st.args.args]
    # positions of the stored tuple that are compared as arrays somewhere in the class
    array_pos = {}
    for m in methods:
        me = m.args.args[0].arg
        unpack = {}
        for st in ast.walk(m):
            if isinstance(st, ast.Assign) and len(st.targets) == 1:
                t, v = st.targets[0], st.value
                srcs = [n for n in ast.walk(v) if _self_attr(n, me) and new_attr(n.attr)]
                if isinstance(t, ast.Name) and srcs:
                    unpack[t.id] = (srcs[0].attr, None)
                if isinstance(t, ast.Tuple) and isinstance(v, ast.Name) and v.id in unpack:
                    for i, x in enumerate(t.elts):
                        if isinstance(x, ast.Name):
                            unpack[x.id] = (unpack[v.id][0], i)
                if isinstance(t, ast.Tuple) and srcs and not isinstance(v, ast.Name):
                    for i, x in enumerate(t.elts):
                        if isinstance(x, ast.Name):
                            unpack[x.id] = (srcs[0].attr, i)
        for c in ast.walk(m):
            if isinstance(c, ast.Call) and (U.call_name(c) or '') in ('np.array_equal', 'np.allclose', 'np.array_equiv') and len(c.args) >= 2:
                for a in c.args[:2]:
                    if isinstance(a, ast.Name) and a.id in unpack and unpack[a.id][1] is not None:
                        array_pos.setdefault(unpack[a.id][0], set()).add(unpack[a.id][1])
    if not array_pos:
        return out
    for m in methods:
        me = m.args.args[0].arg
        al = may_alias(m, resolve_call)
        for st in ast.walk(m):
            if not isinstance(st, ast.Assign):
                continue
            for t in st.targets:
                base = t
                while isinstance(base, ast.Subscript):
                    base = base.value
                if not (_self_attr(base, me) and base.attr in array_pos):
                    continue
                vals = [st.value]
                if isinstance(st.value, ast.IfExp):
                    vals = [st.value.body, st.value.orelse]
                for v in vals:
                    if isinstance(v, ast.Tuple):
                        for i in array_pos[base.attr]:
                            if i < len(v.elts) and isinstance(v.elts[i], ast.Name):
                                srcp = al.get(v.elts[i].id, set()) - {me}
                                if srcp:
                                    out.append((base.attr, m.name, f'{v.elts[i].id} (may be a view of the argument {sorted(srcp)[0]})', st))
    return out


def proxy_keys(cnode, new_attr):
    """key completeness of a memo whose key is handed in by the caller (a proxy key): [(field, method, missing params, node)].
    In the method that tests `stored key == K` (K a parameter) the memoised value is computed from the OTHER parameters; following K
    up through pass-through parameters to the method that builds it, the key expression must depend on every parameter of that method
    on which one of the other arguments depends (flow-insensitive def-use closure).  A key that depends on fewer parameters than the
    arguments it stands for returns the value computed for different arguments."""
    methods = {st.name: st for st in cnode.body if isinstance(st, ast.FunctionDef) and st.args.args}

    def pnames(m):
        a = m.args
        return [x.arg for x in a.posonlyargs + a.args + a.kwonlyargs]

    def names(e):
        return {n.id for n in ast.walk(e) if isinstance(n, ast.Name)}

    def deps(m, seeds, under=False):
        # under=True: a name with several definitions contributes only what ALL of them depend on (under-approximation for the key)
        defs = {}
        ndefs = {}
        for n in ast.walk(m):
            if isinstance(n, ast.Assign):
                for t in n.targets:
                    for tn in ast.walk(t):
                        if isinstance(tn, ast.Name):
                            defs.setdefault(tn.id, set()).update(names(n.value))
                            ndefs.setdefault(tn.id, []).append(names(n.value))
            elif isinstance(n, (ast.AugAssign, ast.AnnAssign)) and getattr(n, 'value', None) is not None and isinstance(n.target, ast.Name):
                defs.setdefault(n.target.id, set()).update(names(n.value))
            elif isinstance(n, (ast.For, ast.comprehension)):
                for tn in ast.walk(n.target):
                    if isinstance(tn, ast.Name):
                        defs.setdefault(tn.id, set()).update(names(n.iter))
        if under:
            for k_, lst in ndefs.items():
                inter = set(lst[0])
                for l_ in lst[1:]:
                    inter &= l_
                defs[k_] = inter if len(lst) > 1 else set(lst[0])
        seen, work = set(), list(seeds)
        while work:
            x = work.pop()
            if x in seen:
                continue
            seen.add(x)
            work.extend(defs.get(x, ()))
        return seen

    out = []
    for mname, m in methods.items():
        me = m.args.args[0].arg
        ps = pnames(m)
        # locals unpacked from a new memo field
        from_memo = {}
        for n in ast.walk(m):
            if isinstance(n, ast.Assign) and len(n.targets) == 1:
                v = n.value
                while isinstance(v, ast.Subscript):
                    v = v.value
                if _self_attr(v, me) and new_attr(v.attr):
                    for tn in ast.walk(n.targets[0]):
                        if isinstance(tn, ast.Name):
                            from_memo[tn.id] = v.attr
        for n in ast.walk(m):
            if not (isinstance(n, ast.Compare) and len(n.ops) == 1 and isinstance(n.ops[0], (ast.Eq, ast.NotEq)) ):
                continue
            for a, b in ((n.left, n.comparators[0]), (n.comparators[0], n.left)):
                F = None
                if isinstance(a, ast.Name) and a.id in from_memo:
                    F = from_memo[a.id]
                else:
                    v = a
                    while isinstance(v, ast.Subscript):
                        v = v.value
                    if _self_attr(v, me) and new_attr(v.attr):
                        F = v.attr
                if F is None or not (isinstance(b, ast.Name) and b.id in ps and b.id != me):
                    continue
                K = b.id
                others = [q for q in ps if q not in (me, K) and any(isinstance(x, ast.Name) and x.id == q for x in ast.walk(m))]
                if not others:
                    continue
                # climb through pass-through parameters
                frontier, visited = [(mname, K, set(others))], set()
                while frontier:
                    cur, k, oth = frontier.pop()
                    if (cur, k) in visited:
                        continue
                    visited.add((cur, k))
                    cm = methods[cur]
                    cps = pnames(cm)
                    for caller_name, caller in methods.items():
                        cme = caller.args.args[0].arg
                        for c in ast.walk(caller):
                            if not (isinstance(c, ast.Call) and isinstance(c.func, ast.Attribute) and c.func.attr == cur and _self_attr(c.func, cme)):
                                continue
                            amap = {}
                            for i, arg in enumerate(c.args):
                                if i + 1 < len(cps):
                                    amap[cps[i + 1]] = arg
                            for kw in c.keywords:
                                if kw.arg:
                                    amap[kw.arg] = kw.value
                            if k not in amap:
                                continue        # default key (None): memo disabled at this site
                            kexpr = amap[k]
                            oexprs = [amap[o] for o in oth if o in amap]
                            callps = set(pnames(caller)) - {cme}
                            if isinstance(kexpr, ast.Name) and kexpr.id in callps and not any(
                                    isinstance(x, ast.Assign) and any(isinstance(t, ast.Name) and t.id == kexpr.id for t in x.targets) for x in ast.walk(caller)):
                                o2 = set()
                                for e in oexprs:
                                    o2 |= deps(caller, names(e)) & callps
                                frontier.append((caller_name, kexpr.id, o2 - {kexpr.id}))
                                continue
                            # both closures are under-approximated: a parameter is required in the key only when EVERY definition of
                            # the argument depends on it (a search-strategy flag used on a fallback path only is not demanded)
                            need = set()
                            for e in oexprs:
                                need |= deps(caller, names(e), under=True) & callps
                            have = deps(caller, names(kexpr), under=True) & callps
                            missing = sorted(need - have)
                            if missing:
                                out.append((F, caller_name, missing, c, cur))
    return out


def check(repo, ctx, rule, files, base_attrs):
    """applies the template to every class of `files`"""
    def new_attr(a):
        return a not in base_attrs
    n_cls = n_cache = 0
    for path in files:
        if not repo.has_module(path):
            continue
        for cnode in repo.module(path).tree.body:
            if not isinstance(cnode, ast.ClassDef):
                continue
            n_cls += 1
            try:
                viol, facts = analyse_class(cnode, new_attr)
            except Exception as e:       # the template is an addition: it never breaks a check
                ctx.advisories.append(f'T-MEMO failed on {path}::{cnode.name}: {type(e).__name__}: {e}')
                continue
            n_cache += len(facts)
            # stored key elements that alias an argument

            def resolve_call(call):
                nm = call.func.id if isinstance(call.func, ast.Name) else call.func.attr if isinstance(call.func, ast.Attribute) else None
                for p2 in repo.modules:
                    for node in repo.module(p2).tree.body:
                        if isinstance(node, ast.FunctionDef) and node.name == nm:
                            return returned_views(node)
                return None
            try:
                for F, mn, what, node in alias_keys(cnode, new_attr, resolve_call):
                    ctx.violation(rule, path, f'{cnode.name}.{mn}', node, f'the memo self.{F} stores {what} without copying it, and the hit test compares it as an array: when the caller updates its '
                                  'array in place the stored key changes with it, the comparison succeeds and the value computed for the old contents is returned',
                                  construct=f'{cnode.name}.{mn}: key of {F} aliases an argument')
            except Exception as e:
                ctx.advisories.append(f'T-MEMO (alias) failed on {path}::{cnode.name}: {type(e).__name__}: {e}')
            try:
                for F, mn, missing, node, via in proxy_keys(cnode, new_attr):
                    ctx.violation(rule, path, f'{cnode.name}.{mn}', node, f'the key under which self.{F} is memoised is built in {mn} and handed to {via}, but it does not depend on {missing}, '
                                  f'on which the arguments the memoised value is computed from depend: a later call that differs only in {missing} gets the value computed for the earlier one',
                                  construct=f'{cnode.name}.{mn}: key of {F} omits {missing}')
            except Exception as e:
                ctx.advisories.append(f'T-MEMO (proxy key) failed on {path}::{cnode.name}: {type(e).__name__}: {e}')
            for F, mn, X, node in viol:
                ctx.violation(rule, path, f'{cnode.name}.{mn}', node, f'{mn} changes self.{X}, which is read when the memoised self.{F} is computed, but neither clears self.{F} nor calls a method that does: '
                              f'later reads return the value computed from the old {X}', construct=f'{cnode.name}.{mn}: {X} -> {F}')
            for F, inputs, inval, keyed in facts:
                if not any(v[0] == F for v in viol):
                    ctx.ok(rule, path, cnode.name, cnode, f'new memo self.{F}: every method that changes one of its inputs {inputs[:8]} clears it ({inval}); key fields {keyed}', construct=f'{cnode.name}.{F}')
    ctx.ok(rule, '', '', 0, f'T-MEMO: {n_cls} classes of the anchored files scanned; {n_cache} memo field(s) that are new relative to the reference tree', construct='T-MEMO')
