"""T-MEMO: a memoised value introduced by a change must be dropped whenever something it was computed from is changed.

The template looks only at cache fields that are *new* relative to the reference tree (kverif/baseline_names.json) - the caches of
the reference tree have their own rules (T-FRESH, R9.x) - so it is silent on the unchanged tree by construction and decides, for
a change that adds a memo, the structural necessary condition of every "history changes nothing / cached factors follow every
change" clause:

  cache field F of class C   = new attribute with  a hit test (self.F is [not] None, key [not] in self.F, self.F[0] == key,
                               self.F.get(..))  and a fill store (self.F = <value>, self.F[key] = <value>) in methods of C
  computation                = the methods holding the hit test / the fill store and the methods of C they reference (depth 3)
  inputs(F)                  = fields self.X read there, minus the fields that appear in the hit test or in the key (they are
                               part of the key), minus F and other new cache fields, minus the fields the computation itself
                               produces (stored there from values that are not parameters of the storing method)
  invalidators(F)            = methods that assign None / an empty container to self.F or call self.F.clear(), and their callers
  rule                       = every method of C (the constructor aside) that stores to an input is an invalidator

What is decided: the writer/invalidator relation inside the class.  Not decided: inputs owned by other objects, keys that are
proxies of the arguments (a key that omits an argument cannot be told from one that determines it), quantised keys."""
from __future__ import annotations
import ast
from . import astutil as U

EMPTY_CALLS = {'dict', 'list', 'set', 'OrderedDict', 'defaultdict'}


def _self_attr(n, me):
    return isinstance(n, ast.Attribute) and isinstance(n.value, ast.Name) and n.value.id == me


def _is_empty(v):
    if isinstance(v, ast.Constant) and v.value is None:
        return True
    if isinstance(v, (ast.Dict, ast.List, ast.Set, ast.Tuple)) and not (getattr(v, 'keys', None) or getattr(v, 'elts', None)):
        return True
    if isinstance(v, ast.Call) and not v.args and not v.keywords and isinstance(v.func, ast.Name) and v.func.id in EMPTY_CALLS:
        return True
    return False


def analyse_class(cnode: ast.ClassDef, new_attr):
    """[(cache field, writer method name, input field, node)] violations, and [(cache field, inputs, invalidators)] facts"""
    methods = {}
    for st in cnode.body:
        if isinstance(st, ast.FunctionDef) and st.args.args:
            name = st.name
            for d in st.decorator_list:
                if isinstance(d, ast.Attribute) and d.attr in ('setter', 'deleter'):
                    name = f'{st.name}.{d.attr}'
            methods[name] = st
    # candidate cache fields
    hit, fill, clear = {}, {}, {}
    for mname, m in methods.items():
        me = m.args.args[0].arg
        for n in ast.walk(m):
            if isinstance(n, ast.Compare) and len(n.ops) == 1:
                sides = [n.left, n.comparators[0]]
                for s_ in sides:
                    base = s_
                    while isinstance(base, ast.Subscript):
                        base = base.value
                    if _self_attr(base, me) and new_attr(base.attr) and isinstance(n.ops[0], (ast.Is, ast.IsNot, ast.In, ast.NotIn, ast.Eq, ast.NotEq)):
                        other = sides[1] if s_ is sides[0] else sides[0]
                        hit.setdefault(base.attr, []).append((mname, n, other))
            if isinstance(n, ast.Call) and isinstance(n.func, ast.Attribute) and n.func.attr == 'get' and _self_attr(n.func.value, me) and new_attr(n.func.value.attr):
                hit.setdefault(n.func.value.attr, []).append((mname, n, n.args[0] if n.args else None))
            if isinstance(n, ast.Call) and isinstance(n.func, ast.Attribute) and n.func.attr == 'clear' and _self_attr(n.func.value, me) and new_attr(n.func.value.attr):
                clear.setdefault(n.func.value.attr, set()).add(mname)
            if isinstance(n, (ast.Assign, ast.AnnAssign)) and getattr(n, 'value', None) is not None:
                for t in (n.targets if isinstance(n, ast.Assign) else [n.target]):
                    if _self_attr(t, me) and new_attr(t.attr):
                        if _is_empty(n.value):
                            clear.setdefault(t.attr, set()).add(mname)
                        else:
                            fill.setdefault(t.attr, []).append((mname, n, None))
                    elif isinstance(t, ast.Subscript) and _self_attr(t.value, me) and new_attr(t.value.attr):
                        fill.setdefault(t.value.attr, []).append((mname, n, t.slice))
    out, facts = [], []
    caches = [F for F in hit if F in fill]
    for F in caches:
        comp = {mn for mn, _, _ in hit[F]} | {mn for mn, _, _ in fill[F]}
        # methods referenced from the computation (called or passed as a value)
        frontier = set(comp)
        for _ in range(3):
            nxt = set()
            for mn in frontier:
                m = methods[mn]
                me = m.args.args[0].arg
                for n in ast.walk(m):
                    if _self_attr(n, me) and isinstance(n.ctx, ast.Load) and n.attr in methods and n.attr not in comp:
                        nxt.add(n.attr)
            comp |= nxt
            frontier = nxt
        # invalidators and their callers
        inval = set(clear.get(F, ()))
        changed = True
        while changed:
            changed = False
            for mn, m in methods.items():
                if mn in inval:
                    continue
                me = m.args.args[0].arg
                if any(isinstance(n, ast.Call) and _self_attr(n.func, me) and n.func.attr in inval for n in ast.walk(m)):
                    inval.add(mn)
                    changed = True
        comp -= {mn for mn in inval if mn not in {h[0] for h in hit[F]} | {f_[0] for f_ in fill[F]}}
        # fields that are part of the key
        keyed = set()
        for mn, node, other in hit[F] + fill[F]:
            m = methods[mn]
            me = m.args.args[0].arg
            exprs = [x for x in (other,) if x is not None]
            # locals feeding the key expression
            names = {n.id for e in exprs for n in ast.walk(e) if isinstance(n, ast.Name)}
            for _ in range(3):
                for st in ast.walk(m):
                    if isinstance(st, ast.Assign) and any(isinstance(t, ast.Name) and t.id in names for t in st.targets):
                        exprs.append(st.value)
                        names |= {n.id for n in ast.walk(st.value) if isinstance(n, ast.Name)}
                    if isinstance(st, (ast.For, ast.comprehension)) and any(isinstance(n, ast.Name) and n.id in names for n in ast.walk(st.target)):
                        exprs.append(st.iter)
                        names |= {n.id for n in ast.walk(st.iter) if isinstance(n, ast.Name)}
            for e in exprs:
                for n in ast.walk(e):
                    if _self_attr(n, me):
                        keyed.add(n.attr)
        # fields the computation itself produces (its outputs, scratch state, sibling caches): stored in a computation method from
        # values that do not come from that method's parameters
        def stores_of(m):
            me_ = m.args.args[0].arg
            params_ = {a.arg for a in m.args.posonlyargs + m.args.args + m.args.kwonlyargs} - {me_}
            for n in ast.walk(m):
                if isinstance(n, (ast.Assign, ast.AugAssign, ast.AnnAssign)) and getattr(n, 'value', None) is not None:
                    for t in (n.targets if isinstance(n, ast.Assign) else [n.target]):
                        for t_ in (t.elts if isinstance(t, (ast.Tuple, ast.List)) else [t]):
                            base = t_
                            while isinstance(base, ast.Subscript):
                                base = base.value
                            if _self_attr(base, me_):
                                from_param = any(isinstance(x, ast.Name) and x.id in params_ for x in ast.walk(n.value))
                                yield base.attr, n, from_param
        produced = set()
        for mn in comp:
            for attr, node, from_param in stores_of(methods[mn]):
                if not from_param:
                    produced.add(attr)
        inputs = set()
        for mn in comp:
            m = methods[mn]
            me = m.args.args[0].arg
            for n in ast.walk(m):
                if _self_attr(n, me) and isinstance(n.ctx, ast.Load) and n.attr not in methods and n.attr != F and n.attr not in caches and n.attr not in keyed \
                        and n.attr not in produced:
                    inputs.add(n.attr)
        facts.append((F, sorted(inputs), sorted(inval), sorted(keyed)))
        for mn, m in methods.items():
            if mn == '__init__' or mn in inval:
                continue
            for attr, node, from_param in stores_of(m):
                # inside the computation only a store of something that comes in from outside (a parameter) changes an input
                if attr in inputs and (mn not in comp or from_param):
                    out.append((F, mn, attr, node))
                    break
    return out, facts


def check(repo, ctx, rule, files, base_attrs):
    """applies the template to every class of `files`"""
    def new_attr(a):
        return a not in base_attrs
    n_cls = n_cache = 0
    for path in files:
        if not repo.has_module(path):
            continue
        for cnode in repo.module(path).tree.body:
            if not isinstance(cnode, ast.ClassDef):
                continue
            n_cls += 1
            try:
                viol, facts = analyse_class(cnode, new_attr)
            except Exception as e:       # the template is an addition: it never breaks a check
                ctx.advisories.append(f'T-MEMO failed on {path}::{cnode.name}: {type(e).__name__}: {e}')
                continue
            n_cache += len(facts)
            for F, mn, X, node in viol:
                ctx.violation(rule, path, f'{cnode.name}.{mn}', node, f'{mn} changes self.{X}, which is read when the memoised self.{F} is computed, but neither clears self.{F} nor calls a method that does: '
                              f'later reads return the value computed from the old {X}', construct=f'{cnode.name}.{mn}: {X} -> {F}')
            for F, inputs, inval, keyed in facts:
                if not any(v[0] == F for v in viol):
                    ctx.ok(rule, path, cnode.name, cnode, f'new memo self.{F}: every method that changes one of its inputs {inputs[:8]} clears it ({inval}); key fields {keyed}', construct=f'{cnode.name}.{F}')
    ctx.ok(rule, '', '', 0, f'T-MEMO: {n_cls} classes of the anchored files scanned; {n_cache} memo field(s) that are new relative to the reference tree', construct='T-MEMO')
