"""A finite-domain evaluator for small control fragments (folds over a registry of flags).

It interprets a *subset* of Python statements and expressions over a tiny value domain: booleans, small saturating
integers, strings, None, tuples/lists of those and opaque tokens whose methods are given by the caller (a dict
method-name -> callable).  Everything outside the subset raises `Unknown`, which the calling rule turns into an
undecided verdict: no construct is ever guessed at.

It is used to decide rules whose truth is a property of a finite transfer function - the body of a loop that folds
boolean flags - by exhaustive tabulation of that function over its (finite) abstract domain and a product construction
with the specification automaton, which covers registries of every length (see rules/C19.py R19.3).
The evaluator never imports or runs kawin: it walks the ast of the function under analysis.
"""
from __future__ import annotations
import ast
from . import astutil as U
import operator

SAT = 3         # integers saturate here: sound as long as they are only compared with constants below SAT (checked)


class Unknown(Exception):
    pass


class _Break(Exception):
    pass


class _Continue(Exception):
    pass


class Return(Exception):
    def __init__(self, value):
        self.value = value


class Token:
    """an opaque object; `methods` maps method name -> callable(args) ; `attrs` maps attribute name -> value"""
    def __init__(self, name, methods=None, attrs=None):
        self.name, self.methods, self.attrs = name, methods or {}, attrs or {}

    def __repr__(self):
        return f'<{self.name}>'


_CMP = {ast.Eq: operator.eq, ast.NotEq: operator.ne, ast.Lt: operator.lt, ast.LtE: operator.le, ast.Gt: operator.gt, ast.GtE: operator.ge,
        ast.Is: operator.is_, ast.IsNot: operator.is_not}


def _sat(v):
    if isinstance(v, int) and not isinstance(v, bool):
        return max(-SAT, min(SAT, v))
    return v


class Evaluator:
    def __init__(self, env: dict):
        self.env = env

    # ------------------------------------------------------------ expressions
    def ev(self, e):
        if isinstance(e, ast.Constant):
            if isinstance(e.value, (bool, int, str, type(None))):
                return e.value
            raise Unknown(f'constant {e.value!r}')
        if isinstance(e, ast.Name):
            if e.id in self.env:
                return self.env[e.id]
            raise Unknown(f'name {e.id}')
        if isinstance(e, ast.Attribute):
            key = _dotted(e)
            if key is not None and key in self.env:
                return self.env[key]
            base = self.ev(e.value)
            if isinstance(base, Token) and e.attr in base.attrs:
                return base.attrs[e.attr]
            raise Unknown(f'attribute {ast.unparse(e)}')
        if isinstance(e, ast.BoolOp):
            v = None
            for x in e.values:
                v = self.ev(x)
                if isinstance(e.op, ast.Or) and v:
                    return v
                if isinstance(e.op, ast.And) and not v:
                    return v
            return v
        if isinstance(e, ast.UnaryOp):
            v = self.ev(e.operand)
            if isinstance(e.op, ast.Not):
                return not v
            if isinstance(e.op, ast.USub) and isinstance(v, int):
                return _sat(-v)
            raise Unknown('unary operator')
        if isinstance(e, ast.BinOp):
            a, b = self.ev(e.left), self.ev(e.right)
            if isinstance(a, int) and isinstance(b, int):
                if isinstance(e.op, ast.Add):
                    return _sat(a + b)
                if isinstance(e.op, ast.Sub) and not (abs(a) >= SAT or abs(b) >= SAT):
                    return _sat(a - b)
                if isinstance(e.op, ast.Mult) and isinstance(a, bool) | isinstance(b, bool):
                    return _sat(a * b)
                if isinstance(e.op, (ast.BitOr, ast.BitAnd, ast.BitXor)) and isinstance(a, bool) and isinstance(b, bool):
                    return {ast.BitOr: operator.or_, ast.BitAnd: operator.and_, ast.BitXor: operator.xor}[type(e.op)](a, b)
            raise Unknown(f'binary operation {ast.unparse(e)}')
        if isinstance(e, ast.Compare):
            left = self.ev(e.left)
            for op, c in zip(e.ops, e.comparators):
                right = self.ev(c)
                if isinstance(op, (ast.In, ast.NotIn)):
                    if not isinstance(right, (list, tuple)):
                        raise Unknown('membership in a non-sequence')
                    r = (left in right) == isinstance(op, ast.In)
                else:
                    fn = _CMP.get(type(op))
                    if fn is None:
                        raise Unknown('comparison operator')
                    # a saturated counter stands for "at least SAT": its comparison with an exact smaller value is exact
                    if all(isinstance(x, int) and not isinstance(x, bool) and abs(x) >= SAT for x in (left, right)):
                        raise Unknown('comparison of two saturated counters')
                    try:
                        r = fn(left, right)
                    except TypeError:
                        raise Unknown('comparison of unlike values')
                if not r:
                    return False
                left = right
            return True
        if isinstance(e, ast.IfExp):
            return self.ev(e.body) if self.ev(e.test) else self.ev(e.orelse)
        if isinstance(e, (ast.Tuple, ast.List)):
            vals = [self.ev(x) for x in e.elts]
            return tuple(vals) if isinstance(e, ast.Tuple) else vals
        if isinstance(e, ast.Subscript):
            base = self.ev(e.value)
            if isinstance(e.slice, ast.Slice):
                raise Unknown('slice')
            i = self.ev(e.slice)
            if isinstance(base, (list, tuple)) and isinstance(i, int):
                try:
                    return base[i]
                except IndexError:
                    raise Unknown('index out of range')
            raise Unknown('subscript')
        if isinstance(e, (ast.ListComp, ast.GeneratorExp)):
            return self._comp(e)
        if isinstance(e, ast.Call):
            return self._call(e)
        raise Unknown(type(e).__name__)

    def _comp(self, e):
        out = []

        def rec(k):
            if k == len(e.generators):
                out.append(self.ev(e.elt))
                return
            g = e.generators[k]
            for item in self._iter(self.ev(g.iter)):
                self.bind(g.target, item)
                if all(self.ev(c) for c in g.ifs):
                    rec(k + 1)
        saved = dict(self.env)
        rec(0)
        for k_ in list(self.env):
            if k_ not in saved:
                del self.env[k_]
            else:
                self.env[k_] = saved[k_] if k_ in _targets(e) else self.env[k_]
        return out

    @staticmethod
    def _iter(v):
        if isinstance(v, (list, tuple)):
            return list(v)
        raise Unknown('iteration over a non-sequence')

    def _call(self, e):
        if any(isinstance(a, ast.Starred) for a in e.args) or any(k.arg is None for k in e.keywords):
            raise Unknown('starred call')
        f = e.func
        if (isinstance(f, ast.Name) and f.id == 'reduce' and f.id not in self.env) or (isinstance(f, ast.Attribute) and f.attr == 'reduce' and isinstance(f.value, ast.Name) and f.value.id == 'functools'):
            # left fold with a two-parameter lambda of the tabulated fragment (or operator.or_/and_ on booleans)
            if e.keywords or len(e.args) not in (2, 3):
                raise Unknown('reduce')
            fn, seq = e.args[0], self._iter(self.ev(e.args[1]))
            if len(e.args) == 3:
                acc = self.ev(e.args[2])
            elif seq:
                acc, seq = seq[0], seq[1:]
            else:
                raise Unknown('reduce of an empty sequence without an initial value')
            if not (isinstance(fn, ast.Lambda) and len(fn.args.args) == 2 and not (fn.args.vararg or fn.args.kwarg or fn.args.defaults or fn.args.kwonlyargs)):
                raise Unknown('reduce with something other than a two-parameter lambda')
            a_, b_ = fn.args.args[0].arg, fn.args.args[1].arg
            for item in seq:
                saved = {k_: self.env[k_] for k_ in (a_, b_) if k_ in self.env}
                self.env[a_], self.env[b_] = acc, item
                try:
                    acc = self.ev(fn.body)
                finally:
                    for k_ in (a_, b_):
                        self.env.pop(k_, None)
                    self.env.update(saved)
            return acc
        if isinstance(f, ast.Name) and f.id not in self.env:
            args = [self.ev(a) for a in e.args]
            if e.keywords:
                raise Unknown('keyword arguments')
            n = f.id
            if n == 'len' and len(args) == 1 and isinstance(args[0], (list, tuple)):
                return _sat(len(args[0]))
            if n == 'range' and all(isinstance(a, int) for a in args) and 1 <= len(args) <= 3:
                return list(range(*args))
            if n == 'zip':
                return [tuple(t) for t in zip(*[self._iter(a) for a in args])]
            if n == 'enumerate' and len(args) == 1:
                return [(i, x) for i, x in enumerate(self._iter(args[0]))]
            if n == 'bool' and len(args) == 1:
                return bool(args[0])
            if n == 'int' and len(args) == 1 and isinstance(args[0], (bool, int)):
                return _sat(int(args[0]))
            if n in ('any', 'all') and len(args) == 1:
                return (any if n == 'any' else all)(self._iter(args[0]))
            if n == 'sum' and len(args) == 1 and all(isinstance(x, int) for x in self._iter(args[0])):
                return _sat(sum(self._iter(args[0])))
            if n in ('list', 'tuple') and len(args) == 1:
                return (list if n == 'list' else tuple)(self._iter(args[0]))
            if n == 'reversed' and len(args) == 1:
                return list(reversed(self._iter(args[0])))
            if n == 'isinstance':
                raise Unknown('isinstance')
            raise Unknown(f'call of {n}')
        if isinstance(f, ast.Attribute):
            recv = self.ev(f.value)
            args = [self.ev(a) for a in e.args]
            if isinstance(recv, Token) and f.attr in recv.methods:
                return recv.methods[f.attr](*(args + [self.ev(k.value) for k in e.keywords]))
            if isinstance(recv, list) and f.attr == 'append' and len(args) == 1 and not e.keywords:
                recv.append(args[0])
                return None
            if isinstance(recv, list) and f.attr == 'count' and len(args) == 1:
                return _sat(recv.count(args[0]))
            raise Unknown(f'method {ast.unparse(f)}')
        raise Unknown('call')

    # ------------------------------------------------------------ statements
    def bind(self, t, v):
        if isinstance(t, ast.Name):
            self.env[t.id] = v
        elif isinstance(t, (ast.Tuple, ast.List)):
            vals = self._iter(v)
            if len(vals) != len(t.elts) or any(isinstance(x, ast.Starred) for x in t.elts):
                raise Unknown('unpacking')
            for x, y in zip(t.elts, vals):
                self.bind(x, y)
        elif isinstance(t, ast.Attribute) and _dotted(t) is not None:
            self.env[_dotted(t)] = v
        else:
            raise Unknown('assignment target')

    def run(self, stmts):
        for s in stmts:
            self.stmt(s)

    def stmt(self, s):
        if isinstance(s, ast.Assign) and isinstance(s.value, ast.Lambda) and len(s.targets) == 1 and isinstance(s.targets[0], ast.Name):
            self.env[s.targets[0].id] = Token('lambda')      # a function value: opaque unless it is called
            return
        if isinstance(s, ast.Assign):
            v = self.ev(s.value)
            for t in s.targets:
                self.bind(t, v)
        elif isinstance(s, ast.AnnAssign) and s.value is not None:
            self.bind(s.target, self.ev(s.value))
        elif isinstance(s, ast.AugAssign):
            cur = self.ev(s.target if not isinstance(s.target, ast.Name) else ast.Name(id=s.target.id, ctx=ast.Load()))
            v = self.ev(s.value)
            if isinstance(s.op, ast.Add) and isinstance(cur, int) and isinstance(v, int):
                self.bind(s.target, _sat(cur + v))
            elif isinstance(s.op, ast.BitOr) and isinstance(cur, bool) and isinstance(v, bool):
                self.bind(s.target, cur | v)
            elif isinstance(s.op, ast.BitAnd) and isinstance(cur, bool) and isinstance(v, bool):
                self.bind(s.target, cur & v)
            else:
                raise Unknown('augmented assignment')
        elif isinstance(s, ast.If):
            self.run(s.body if self.ev(s.test) else s.orelse)
        elif isinstance(s, ast.For):
            broke = False
            for item in self._iter(self.ev(s.iter)):
                self.bind(s.target, item)
                try:
                    self.run(s.body)
                except _Continue:
                    continue
                except _Break:
                    broke = True
                    break
            if not broke:
                self.run(s.orelse)
        elif isinstance(s, ast.Expr):
            if isinstance(s.value, ast.Constant) or U.is_inert_output(s):
                return
            self.ev(s.value)
        elif isinstance(s, (ast.Pass, ast.Assert, ast.Import, ast.ImportFrom)) or U.is_inert_output(s):
            return          # normal-path semantics: a failing assertion ends the evaluation with an exception, it changes no value
        elif isinstance(s, ast.Break):
            raise _Break()
        elif isinstance(s, ast.Continue):
            raise _Continue()
        elif isinstance(s, ast.Return):
            raise Return(self.ev(s.value) if s.value is not None else None)
        else:
            raise Unknown(type(s).__name__)


def _dotted(e):
    parts = []
    while isinstance(e, ast.Attribute):
        parts.append(e.attr)
        e = e.value
    if isinstance(e, ast.Name):
        return '.'.join([e.id] + parts[::-1])
    return None


def _targets(comp):
    out = set()
    for g in comp.generators:
        for n in ast.walk(g.target):
            if isinstance(n, ast.Name):
                out.add(n.id)
    return out
