"""T-MODEFLAG: a field that some method tests to choose its behaviour (self.f is None / is not None / truthiness) is a mode
flag.  A method (other than the constructor) that assigns the flag on some path but not on every path leaves the flag
of an earlier configuration in place on the other paths: the object then behaves according to a configuration it no
longer has.  The lazy-cache idiom (assignment guarded by a test of the same field) is not a mode setter."""
from __future__ import annotations
import ast
from . import astutil as U
from . import cfg as C


def _self_field(e):
    c = U.chain(e)
    if c and len(c) == 2 and c[0] == 'self':
        return c[1]
    return None


def tested_fields(cls_node):
    """{field: [(method name, test node)]} fields of self used as a condition"""
    out = {}
    for m in cls_node.body:
        if not isinstance(m, ast.FunctionDef):
            continue
        for n in ast.walk(m):
            tests = []
            if isinstance(n, (ast.If, ast.While, ast.IfExp)):
                tests.append(n.test)
            for t in tests:
                for x in ast.walk(t):
                    f = None
                    if isinstance(x, ast.Compare) and len(x.ops) == 1 and isinstance(x.ops[0], (ast.Is, ast.IsNot)) and U.is_const(x.comparators[0]) \
                            and isinstance(x.comparators[0], ast.Constant) and x.comparators[0].value is None:
                        f = _self_field(x.left)
                    elif isinstance(x, ast.Attribute) and x is t:
                        f = _self_field(x)
                    elif isinstance(x, ast.UnaryOp) and isinstance(x.op, ast.Not):
                        f = _self_field(x.operand)
                    if f:
                        out.setdefault(f, []).append((m.name, t))
    return out


def partial_setters(cls_node, fields):
    """[(method, field, node)] methods that assign a tested field on some but not all normal paths"""
    hits = []
    for m in cls_node.body:
        if not isinstance(m, ast.FunctionDef) or m.name in ('__init__', 'reset'):
            continue
        assigned = {}
        for n in ast.walk(m):
            if isinstance(n, ast.Assign):
                for t in U.flat_targets(n):
                    f = _self_field(t) if isinstance(t, ast.Attribute) else None
                    if f in fields:
                        assigned.setdefault(f, []).append(n)
        if not assigned:
            continue
        g = C.build(m)

        def gen(node, label):
            out = set()
            if node.kind == 'stmt' and isinstance(node.ast, ast.Assign):
                for t in U.flat_targets(node.ast):
                    f = _self_field(t) if isinstance(t, ast.Attribute) else None
                    if f in assigned:
                        out.add(f)
            return out
        IN = C.must_forward(g, gen)
        for f, nodes in assigned.items():
            # lazy cache: every assignment sits under a test of the same field
            lazy = True
            for a in nodes:
                guarded = False
                for cond in ast.walk(m):
                    if isinstance(cond, ast.If) and any(x is a for x in ast.walk(cond)) and any(_self_field(y) == f for y in ast.walk(cond.test) if isinstance(y, ast.Attribute)):
                        guarded = True
                if not guarded:
                    lazy = False
            if lazy:
                continue
            missing = False
            for ex in [n for n in g.nodes if n.kind == 'exit']:
                for pid, lab in ex.pred:
                    pn = g.nodes[pid]
                    if lab == 'raise' or (pn.kind == 'stmt' and isinstance(pn.ast, ast.Raise)):
                        continue
                    facts = set(IN.get(pid) or set()) | gen(pn, lab)
                    if f not in facts:
                        missing = True
            if missing:
                hits.append((m, f, nodes[0]))
    return hits
