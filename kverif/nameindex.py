"""T-NAMEINDEX: a position looked up by equality with np.argmax(A == key) is only the position of `key` when `key` occurs in A.
np.argmax of an all-False mask is 0, so an unguarded lookup silently addresses whatever sits first.  (The other idioms -
list.index(key), np.where(A == key)[0][0], np.flatnonzero(A == key)[0] - raise for a missing key and need no guard.)  The lookup must be guarded by a membership test
over the same operands: `key in A`, `np.any(A == key)`, `(A == key).any()`, `np.isin(key, A)`, `np.count_nonzero(A == key)`
- as an enclosing `if`, or as an earlier `if not <test>: return/raise/continue` in an enclosing block.
list.index(key) raises for a missing key and needs no guard."""
from __future__ import annotations
import ast
from . import astutil as U


def _eq_operands(e):
    """frozenset of the source texts of the two operands when e is `a == b` / np.equal(a, b)"""
    if isinstance(e, ast.Compare) and len(e.ops) == 1 and isinstance(e.ops[0], ast.Eq):
        return frozenset((U.src(e.left), U.src(e.comparators[0])))
    if isinstance(e, ast.Call) and U.call_name(e) == 'np.equal' and len(e.args) == 2:
        return frozenset((U.src(e.args[0]), U.src(e.args[1])))
    return None


def lookups(func, defs=None):
    """[(call node, operands)] equality lookups whose result is a position"""
    defs = defs or {}
    out = []
    for n in ast.walk(func):
        a = None
        if isinstance(n, ast.Call) and U.call_name(n) in ('np.argmax', 'numpy.argmax') and len(n.args) >= 1:
            a = n.args[0]
        elif isinstance(n, ast.Call) and isinstance(n.func, ast.Attribute) and n.func.attr == 'argmax' and not n.args and U.call_name(n) not in ('np.argmax', 'numpy.argmax'):
            a = n.func.value        # (A == key).argmax()
        if a is not None:
            if isinstance(a, ast.Name) and a.id in defs:
                a = defs[a.id]
            ops = _eq_operands(a)
            if ops is not None and not any(isinstance(x, ast.Constant) and isinstance(x.value, (int, float)) for x in ((a.left, a.comparators[0]) if isinstance(a, ast.Compare) else a.args)):
                out.append((n, ops))
    return out


def _guards(test, ops, positive=True):
    """does `test` (taken with the given polarity) establish that the key occurs?"""
    if isinstance(test, ast.UnaryOp) and isinstance(test.op, ast.Not):
        return _guards(test.operand, ops, not positive)
    if isinstance(test, ast.BoolOp):
        if (isinstance(test.op, ast.And) and positive) or (isinstance(test.op, ast.Or) and not positive):
            return any(_guards(v, ops, positive) for v in test.values)
        return False
    if isinstance(test, ast.Compare) and len(test.ops) == 1:
        l, r = U.src(test.left), U.src(test.comparators[0])
        if isinstance(test.ops[0], ast.In) and positive and frozenset((l, r)) == ops:
            return True
        if isinstance(test.ops[0], ast.NotIn) and not positive and frozenset((l, r)) == ops:
            return True
        # np.count_nonzero(A == k) > 0 / != 0 / >= 1
        if isinstance(test.left, ast.Call) and U.call_name(test.left) in ('np.count_nonzero', 'np.sum') and test.left.args and _eq_operands(test.left.args[0]) == ops:
            c = test.comparators[0]
            if isinstance(c, ast.Constant) and isinstance(c.value, (int, float)):
                op, k = test.ops[0], c.value
                holds_pos = (isinstance(op, ast.Gt) and k == 0) or (isinstance(op, ast.NotEq) and k == 0) or (isinstance(op, ast.GtE) and k == 1)
                holds_neg = (isinstance(op, ast.Eq) and k == 0) or (isinstance(op, ast.Lt) and k == 1) or (isinstance(op, ast.LtE) and k == 0)
                return (positive and holds_pos) or (not positive and holds_neg)
        return False
    if isinstance(test, ast.Call):
        nm = U.call_name(test) or ''
        if nm in ('np.any', 'any') and test.args and _eq_operands(test.args[0]) == ops:
            return positive
        if isinstance(test.func, ast.Attribute) and test.func.attr == 'any' and _eq_operands(test.func.value) == ops:
            return positive
        if nm == 'np.isin' and len(test.args) >= 2 and frozenset((U.src(test.args[0]), U.src(test.args[1]))) == ops:
            return positive
        if nm in ('np.count_nonzero',) and test.args and _eq_operands(test.args[0]) == ops:
            return positive
    return False


def check_function(func):
    """[(node, message)] unguarded equality lookups in one function; second value: number of lookups seen"""
    defs = {}
    counts = {}
    for n in ast.walk(func):
        if isinstance(n, ast.Name) and isinstance(n.ctx, ast.Store):
            counts[n.id] = counts.get(n.id, 0) + 1
    for n in ast.walk(func):
        if isinstance(n, ast.Assign) and len(n.targets) == 1 and isinstance(n.targets[0], ast.Name) and counts.get(n.targets[0].id) == 1:
            defs[n.targets[0].id] = n.value
    found = lookups(func, defs)
    if not found:
        return [], 0
    parent = {}
    for n in ast.walk(func):
        for c in ast.iter_child_nodes(n):
            parent[id(c)] = n
    out = []
    for call, ops in found:
        guarded = False
        node = call
        while id(node) in parent and not guarded:
            par = parent[id(node)]
            if isinstance(par, (ast.If, ast.While)) and node is not par.test:
                in_body = any(node is s for s in par.body)
                if _guards(par.test, ops, positive=in_body):
                    guarded = True
            if isinstance(par, ast.IfExp) and node is not par.test:
                if _guards(par.test, ops, positive=(node is par.body)):
                    guarded = True
            # an earlier sibling `if not <present>: return / raise / continue / break`
            for name in ('body', 'orelse', 'finalbody'):
                blk = getattr(par, name, None)
                if isinstance(blk, list) and any(node is s for s in blk):
                    i = [k for k, s in enumerate(blk) if s is node][0]
                    for prev in blk[:i]:
                        if isinstance(prev, ast.If) and not prev.orelse and prev.body and isinstance(prev.body[-1], (ast.Return, ast.Raise, ast.Continue, ast.Break)) \
                                and _guards(prev.test, ops, positive=False):
                            guarded = True
            node = par
        if not guarded:
            a, b = sorted(ops)
            out.append((call, f'{U.src(call)[:70]} looks a position up by equality without a test that the key occurs ({a} / {b}): when it does not, the position is 0 '
                              'and the operation acts on whatever happens to be first'))
    return out, len(found)
