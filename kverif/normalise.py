"""Semantics-preserving normalisation of the parsed package, applied before any rule runs.

The rules were confirmed against one reference tree (names frozen in baseline_names.json).  Behaviour-preserving
refactorings - extract method, extract closure, extract constant, extract variable, name a sub-expression - change
the shape the rules look at without changing what the code does.  This pass undoes exactly those refactorings, and
only where the transformation is an equivalence:

  N1  constant propagation of *new* module-level names bound once to a constant expression;
  N2  inlining of calls to *new* helpers (module functions, methods, static methods, nested closures) that resolve to
      one definition in the whole package (so no override can be selected instead), are not recursive, take no
      *args/**kwargs and contain no return inside a loop/try/with.  Early returns are eliminated by continuation
      duplication; parameters that are never rebound and receive an atomic argument are substituted, the others get a
      fresh local; every helper local is alpha-renamed with a fresh suffix;
  N3  a new single-return closure or helper method used as a *value* (stored as a callback) becomes a lambda;
  N4  forward substitution of *new* locals with exactly one binding whose right-hand side is pure (or is used once, in
      the next statement), provided no statement between the binding and the last use rebinds or may mutate anything
      the right-hand side reads;
  N5  helper definitions with no remaining reference are dropped.

"New" means: not in the baseline table.  Existing helpers, constants and locals are never touched, so on the reference
tree the pass is the identity.  Where a side condition fails the construct is left as it is (the rule then sees the
refactored shape and decides or reports UNDECIDED on its own).  Set KVERIF_NONORM=1 to switch the pass off.
"""
from __future__ import annotations
import ast
import copy
import json
import os

BASELINE_FILE = os.path.join(os.path.dirname(__file__), 'baseline_names.json')

PURE_ROOTS = {'np', 'numpy', 'math'}
IMPURE_NP = {'put', 'copyto', 'fill_diagonal', 'place', 'putmask', 'save', 'savez', 'savez_compressed', 'load', 'seterr', 'random', 'shuffle'}
PURE_BUILTINS = {'len', 'int', 'float', 'abs', 'min', 'max', 'sum', 'range', 'tuple', 'str', 'bool', 'isinstance', 'type', 'round',
                 'enumerate', 'zip', 'sorted', 'any', 'all', 'hash', 'repr', 'divmod', 'pow', 'callable', 'hasattr', 'getattr', 'id'}
SCOPES = (ast.FunctionDef, ast.AsyncFunctionDef, ast.Lambda, ast.ClassDef)
COMPS = (ast.ListComp, ast.SetComp, ast.DictComp, ast.GeneratorExp)


# ------------------------------------------------------------------------------------------------ name tables
def _decorators(func):
    out = set()
    for d in func.decorator_list:
        if isinstance(d, ast.Name):
            out.add(d.id)
        elif isinstance(d, ast.Attribute):
            out.add(d.attr)
        else:
            out.add('?')
    return out


def func_quals(tree):
    """(qual, FunctionDef, classname|None) for module-level functions and methods"""
    for node in tree.body:
        if isinstance(node, ast.FunctionDef):
            yield node.name, node, None
        elif isinstance(node, ast.ClassDef):
            for sub in node.body:
                if isinstance(sub, ast.FunctionDef):
                    q = f'{node.name}.{sub.name}'
                    dec = _decorators(sub)
                    if 'setter' in dec:
                        q += '.setter'
                    elif 'deleter' in dec:
                        q += '.deleter'
                    yield q, sub, node.name


def walk_scope(node):
    """nodes of one function scope: does not enter nested defs/lambdas/classes (comprehensions are entered)"""
    todo = list(ast.iter_child_nodes(node))
    while todo:
        n = todo.pop()
        yield n
        if isinstance(n, SCOPES):
            continue
        todo.extend(ast.iter_child_nodes(n))


def _comp_targets(func):
    out = set()
    for n in ast.walk(func):
        if isinstance(n, COMPS):
            for g in n.generators:
                out |= {m.id for m in ast.walk(g.target) if isinstance(m, ast.Name)}
    return out


def local_names(func) -> set:
    """parameters and every name bound in the function's own scope"""
    a = func.args
    out = {x.arg for x in a.posonlyargs + a.args + a.kwonlyargs}
    if a.vararg:
        out.add(a.vararg.arg)
    if a.kwarg:
        out.add(a.kwarg.arg)
    comp = set()
    for n in walk_scope(func):
        if isinstance(n, ast.Name) and isinstance(n.ctx, (ast.Store, ast.Del)):
            out.add(n.id)
        elif isinstance(n, (ast.FunctionDef, ast.AsyncFunctionDef, ast.ClassDef)):
            out.add(n.name)
        elif isinstance(n, ast.ExceptHandler) and n.name:
            out.add(n.name)
        elif isinstance(n, (ast.Import, ast.ImportFrom)):
            for al in n.names:
                out.add((al.asname or al.name).split('.')[0])
    return out


def names_of_module(tree) -> dict:
    consts = set()
    for node in tree.body:
        for t in (node.targets if isinstance(node, ast.Assign) else [node.target] if isinstance(node, (ast.AnnAssign, ast.AugAssign)) else []):
            consts |= {n.id for n in ast.walk(t) if isinstance(n, ast.Name)}
        if isinstance(node, (ast.FunctionDef, ast.ClassDef)):
            consts.add(node.name)
        if isinstance(node, (ast.Import, ast.ImportFrom)):
            for al in node.names:
                consts.add((al.asname or al.name).split('.')[0])
    funcs, kws = {}, {}
    for q, f, _ in func_quals(tree):
        funcs[q] = sorted(local_names(f))
        kws[q] = sorted(keyword_uses(f))
    cconsts = {}
    for node in tree.body:
        if isinstance(node, ast.ClassDef):
            names = set()
            for st in node.body:
                for t in (st.targets if isinstance(st, ast.Assign) else [st.target] if isinstance(st, ast.AnnAssign) else []):
                    names |= {n.id for n in ast.walk(t) if isinstance(n, ast.Name)}
            cconsts[node.name] = sorted(names)
    attrs = sorted({n.attr for n in ast.walk(tree) if isinstance(n, ast.Attribute)})
    enumerated = {}
    for q, f, _ in func_quals(tree):
        en = sorted({n.iter.args[0].attr for n in ast.walk(f) if isinstance(n, ast.For) and isinstance(n.iter, ast.Call) and isinstance(n.iter.func, ast.Name)
                     and n.iter.func.id == 'enumerate' and len(n.iter.args) == 1 and isinstance(n.iter.args[0], ast.Attribute)})
        if en:
            enumerated[q] = en
    return {'consts': sorted(consts), 'funcs': funcs, 'kws': kws, 'class_consts': cconsts, 'attrs': attrs, 'enumerated': enumerated,
            'digests': {q: func_digest(f) for q, f, _ in func_quals(tree)},
            'alpha': {q: list(af) for q, f, _ in func_quals(tree) for af in [alpha_form(f)] if af is not None}}


def alpha_form(f):
    """(digest of the function with its local names replaced by positional placeholders, local names in placeholder order), or None
    when a nested def / lambda has a parameter named like a local (then a consistent renaming is not a plain substitution)"""
    a = f.args
    params = {x.arg for x in a.posonlyargs + a.args + a.kwonlyargs}
    if a.vararg:
        params.add(a.vararg.arg)
    if a.kwarg:
        params.add(a.kwarg.arg)
    L = local_names(f) - params
    if not L:
        return None
    for n in ast.walk(f):
        if n is f:
            continue
        if isinstance(n, (ast.FunctionDef, ast.AsyncFunctionDef, ast.Lambda)):
            if {x.arg for x in ast.walk(n.args) if isinstance(x, ast.arg)} & L:
                return None
        if isinstance(n, (ast.Import, ast.ImportFrom, ast.Global, ast.Nonlocal)):
            if isinstance(n, (ast.Global, ast.Nonlocal)) or {(al.asname or al.name).split('.')[0] for al in n.names} & L:
                return None
    g = copy.deepcopy(f)
    order = []

    def ph(name):
        if name not in order:
            order.append(name)
        return f'_L{order.index(name)}'
    for n in ast.walk(g):
        if isinstance(n, ast.Name) and n.id in L:
            n.id = ph(n.id)
        elif isinstance(n, (ast.FunctionDef, ast.AsyncFunctionDef, ast.ClassDef)) and n is not g and n.name in L:
            n.name = ph(n.name)
        elif isinstance(n, ast.ExceptHandler) and n.name and n.name in L:
            n.name = ph(n.name)
    return func_digest(g), order


def rename_locals(f, mapping):
    for n in ast.walk(f):
        if isinstance(n, ast.Name) and n.id in mapping:
            n.id = mapping[n.id]
        elif isinstance(n, (ast.FunctionDef, ast.AsyncFunctionDef, ast.ClassDef)) and n is not f and n.name in mapping:
            n.name = mapping[n.name]
        elif isinstance(n, ast.ExceptHandler) and n.name and n.name in mapping:
            n.name = mapping[n.name]


def func_digest(f) -> str:
    """digest of the statements of a function (docstring and annotations aside): tells whether a function was edited at all"""
    import hashlib
    body = [st for st in f.body if not (isinstance(st, ast.Expr) and isinstance(st.value, ast.Constant) and isinstance(st.value.value, str))]
    text = ','.join(a.arg for a in f.args.posonlyargs + f.args.args + f.args.kwonlyargs) + '|' + '\n'.join(ast.dump(st) for st in body)
    return hashlib.sha1(text.encode()).hexdigest()[:12]


def keyword_uses(func) -> set:
    """'callee:keyword' for every keyword argument passed in the function"""
    out = set()
    for n in ast.walk(func):
        if isinstance(n, ast.Call):
            cal = n.func.attr if isinstance(n.func, ast.Attribute) else n.func.id if isinstance(n.func, ast.Name) else '?'
            for k in n.keywords:
                if k.arg:
                    out.add(f'{cal}:{k.arg}')
    return out


_baseline_cache = None


def load_baseline():
    global _baseline_cache
    if _baseline_cache is None:
        if os.path.exists(BASELINE_FILE):
            with open(BASELINE_FILE) as fh:
                _baseline_cache = json.load(fh)
        else:
            _baseline_cache = {}
    return _baseline_cache


# ------------------------------------------------------------------------------------------------ small helpers
RECORD_CTORS: set = set()        # named tuple classes of the package under analysis (filled by Normaliser._collect): building a record has no effect


def _is_pure_call(call) -> bool:
    f = call.func
    if any(k.arg == 'out' for k in call.keywords):
        return False
    if isinstance(f, ast.Name):
        return f.id in PURE_BUILTINS or f.id in RECORD_CTORS
    parts = []
    while isinstance(f, ast.Attribute):
        parts.append(f.attr)
        f = f.value
    if isinstance(f, ast.Name) and f.id in PURE_ROOTS:
        return not (set(parts) & IMPURE_NP)
    # methods of arrays that return new values
    if parts and parts[0] in ('astype', 'copy', 'flatten', 'ravel', 'reshape', 'sum', 'mean', 'min', 'max', 'any', 'all', 'get', 'keys',
                              'values', 'items', 'index', 'count', 'startswith', 'endswith', 'format', 'join', 'split', 'strip', 'lower',
                              'upper', 'tolist', 'squeeze', 'transpose', 'dot', 'argmax', 'argmin', 'cumsum'):
        return True
    return False


def is_pure(expr) -> bool:
    consumed = set()        # list literals handed straight to a pure call (np.array([..]), np.amax([a, b])) have no identity of their own
    for n in ast.walk(expr):
        if isinstance(n, ast.Call) and _is_pure_call(n):
            for a in n.args:
                if isinstance(a, ast.List):
                    consumed.add(id(a))
    for n in ast.walk(expr):
        if isinstance(n, ast.Call):
            if not _is_pure_call(n):
                return False
        elif isinstance(n, ast.List) and id(n) in consumed:
            continue
        elif isinstance(n, (ast.Lambda, ast.Yield, ast.YieldFrom, ast.Await, ast.NamedExpr, ast.Dict, ast.Set, ast.List)):
            return False
        elif isinstance(n, (ast.ListComp, ast.DictComp, ast.SetComp)):
            return False
    return True


def is_const_expr(expr) -> bool:
    for n in ast.walk(expr):
        if isinstance(n, ast.Name):
            if n.id not in PURE_ROOTS:
                return False
        elif isinstance(n, ast.Call):
            if not _is_pure_call(n):
                return False
        elif not isinstance(n, (ast.Constant, ast.BinOp, ast.UnaryOp, ast.Attribute, ast.operator, ast.unaryop, ast.Load, ast.Tuple,
                                ast.keyword, ast.expr_context)):
            return False
    return True


def root_and_attrs(node):
    """(root name, [attrs...]) of a name/attribute/subscript chain; None if not a chain"""
    attrs = []
    while True:
        if isinstance(node, ast.Attribute):
            attrs.append(node.attr)
            node = node.value
        elif isinstance(node, ast.Subscript):
            node = node.value
        elif isinstance(node, ast.Name):
            return node.id, list(reversed(attrs))
        else:
            return None


def _is_path(expr) -> bool:
    while True:
        if isinstance(expr, ast.Attribute):
            expr = expr.value
        elif isinstance(expr, ast.Subscript):
            expr = expr.value
        elif isinstance(expr, ast.Name):
            return True
        else:
            return False


def _path_indices_simple(expr) -> bool:
    """every subscript of the path is indexed by a name or a constant (an element reference, not a computed view)"""
    while True:
        if isinstance(expr, ast.Attribute):
            expr = expr.value
        elif isinstance(expr, ast.Subscript):
            if not isinstance(expr.slice, (ast.Name, ast.Constant)):
                return False
            expr = expr.value
        else:
            return isinstance(expr, ast.Name)


def _attr_chain_only(expr) -> bool:
    while isinstance(expr, ast.Attribute):
        expr = expr.value
    return isinstance(expr, ast.Name)


def _contains(node, kinds) -> bool:
    return any(isinstance(n, kinds) for n in ast.walk(node))


def _stmts_contain_return(stmts) -> bool:
    for s in stmts:
        for n in [s] + list(walk_scope(s)):
            if isinstance(n, ast.Return):
                return True
    return False


def _pure_local_stmts(stmts) -> bool:
    """only bindings of plain names to pure values, possibly under pure tests"""
    for st in stmts:
        if isinstance(st, ast.Assign):
            if not all(isinstance(t, ast.Name) or (isinstance(t, ast.Tuple) and all(isinstance(e, ast.Name) for e in t.elts)) for t in st.targets) or not is_pure(st.value):
                return False
        elif isinstance(st, ast.AugAssign):
            if not isinstance(st.target, ast.Name) or not is_pure(st.value):
                return False
        elif isinstance(st, ast.If):
            if not is_pure(st.test) or not _pure_local_stmts(st.body) or not _pure_local_stmts(st.orelse):
                return False
        elif isinstance(st, ast.Pass):
            continue
        else:
            return False
    return True


def _loop_gen_shape(f):
    """(pre, loop, index of the yield in loop.body) for a generator `pre*; for v in IT: A*; yield E; B*` whose own statements
    only bind its local names to pure values: consuming it in a for loop (directly or through zip) is the same as running the
    loop over IT with A*, the consumer's body and B* in sequence"""
    body = [x for x in f.body if not (isinstance(x, ast.Expr) and isinstance(x.value, ast.Constant))]
    if not body or not isinstance(body[-1], ast.For) or body[-1].orelse:
        return None
    pre, loop = body[:-1], body[-1]
    ys = [n for n in ast.walk(f) if isinstance(n, (ast.Yield, ast.YieldFrom))]
    if len(ys) != 1 or not isinstance(ys[0], ast.Yield) or ys[0].value is None:
        return None
    idx = [i for i, st in enumerate(loop.body) if isinstance(st, ast.Expr) and st.value is ys[0]]
    if len(idx) != 1:
        return None
    if any(isinstance(n, (ast.Return, ast.Break, ast.Continue)) for n in ast.walk(f)):
        return None
    if not _pure_local_stmts(pre) or not _pure_local_stmts(loop.body[:idx[0]]) or not _pure_local_stmts(loop.body[idx[0] + 1:]):
        return None
    if not is_pure(ys[0].value) or not isinstance(loop.target, (ast.Name, ast.Tuple)):
        return None
    return pre, loop, idx[0]


def _branch_gen_candidate(f) -> bool:
    """a generator whose yields are plain statements of for loops (see Normaliser._fuse_branching_generator, which checks the
    shape on the expanded body)"""
    ys = [n for n in ast.walk(f) if isinstance(n, (ast.Yield, ast.YieldFrom))]
    if not ys or any(not isinstance(y, ast.Yield) or y.value is None for y in ys):
        return False
    if any(isinstance(n, (ast.Break, ast.Continue, ast.While, ast.Try, ast.With, ast.Lambda)) for n in ast.walk(f)):
        return False
    if any(isinstance(n, ast.Return) and n.value is not None for n in ast.walk(f)):
        return False
    stmts_with_yield = [n for n in ast.walk(f) if isinstance(n, ast.Expr) and isinstance(n.value, ast.Yield)]
    return len(stmts_with_yield) == len(ys)


def _nest_return_guards(f) -> bool:
    """`if C: return V` ... `return V` (same V, last statement of the function)  ->  `if not C: ...` ; `return V`"""
    body = f.body
    if len(body) < 3 or not isinstance(body[-1], ast.Return):
        return False
    final = ast.dump(body[-1].value) if body[-1].value is not None else None
    changed = False

    def nest(stmts):
        nonlocal changed
        for i, st in enumerate(stmts):
            if isinstance(st, ast.If) and not st.orelse and len(st.body) == 1 and isinstance(st.body[0], ast.Return) and i + 1 < len(stmts):
                v = st.body[0].value
                if (ast.dump(v) if v is not None else None) == final:
                    rest = nest(stmts[i + 1:])
                    changed = True
                    return stmts[:i] + [ast.copy_location(ast.If(test=_negate(st.test), body=rest, orelse=[]), st)]
        return stmts

    new = nest(body[:-1])
    if changed:
        f.body = new + [body[-1]]
    return changed


def _fold_int_arith(tree):
    """after constants were propagated: integer arithmetic on literals (`0 + 1`, `-1 - 1`) is written as the literal it denotes"""
    def ival(e):
        if isinstance(e, ast.Constant) and type(e.value) is int:
            return e.value
        if isinstance(e, ast.UnaryOp) and isinstance(e.op, ast.USub) and isinstance(e.operand, ast.Constant) and type(e.operand.value) is int:
            return -e.operand.value
        return None

    class F(ast.NodeTransformer):
        def visit_BinOp(self, node):
            self.generic_visit(node)
            a, b = ival(node.left), ival(node.right)
            if a is None or b is None or not isinstance(node.op, (ast.Add, ast.Sub, ast.Mult)):
                return node
            v = a + b if isinstance(node.op, ast.Add) else a - b if isinstance(node.op, ast.Sub) else a * b
            new = ast.Constant(value=abs(v))
            if v < 0:
                new = ast.UnaryOp(op=ast.USub(), operand=new)
            return ast.copy_location(new, node)
    F().visit(tree)


class _Bail(Exception):
    pass


def _always_returns(stmts) -> bool:
    for s in stmts:
        if isinstance(s, (ast.Return, ast.Raise)):
            return True
        if isinstance(s, ast.If) and s.orelse and _always_returns(s.body) and _always_returns(s.orelse):
            return True
    return False


def eliminate_returns(stmts, retname, budget=None):
    """return-free statement list equivalent to running `stmts` to the end of the helper; the returned value (if any)
    is left in `retname`.  Raises _Bail when a return sits inside a loop / try / with."""
    budget = budget if budget is not None else [600]
    out = []
    for i, s in enumerate(stmts):
        budget[0] -= 1
        if budget[0] < 0:
            raise _Bail('too large')
        if isinstance(s, ast.Return):
            if retname is not None:
                val = s.value if s.value is not None else ast.Constant(value=None)
                out.append(ast.copy_location(ast.Assign(targets=[ast.Name(id=retname, ctx=ast.Store())], value=val, lineno=s.lineno), s))
            return out
        if isinstance(s, ast.Raise):
            out.append(s)
            return out
        if isinstance(s, ast.If) and (_stmts_contain_return(s.body) or _stmts_contain_return(s.orelse)):
            rest = stmts[i + 1:]
            body = eliminate_returns(list(s.body) + copy.deepcopy(rest), retname, budget)
            orelse = eliminate_returns(list(s.orelse) + copy.deepcopy(rest), retname, budget)
            new = ast.copy_location(ast.If(test=s.test, body=body or [ast.copy_location(ast.Pass(), s)], orelse=orelse), s)
            out.append(new)
            return out
        if isinstance(s, (ast.For, ast.While, ast.Try, ast.With)) and _stmts_contain_return([s]):
            raise _Bail('return inside loop/try/with')
        out.append(s)
    return out


def _fold_ifexp(stmts, var):
    """if c: var = a else: var = b   ->   var = a if c else b   (only for generated temporaries)"""
    out = []
    for s in stmts:
        if isinstance(s, ast.If):
            s.body = _fold_ifexp(s.body, var)
            s.orelse = _fold_ifexp(s.orelse, var)
            if len(s.body) == 1 and len(s.orelse) == 1 and all(
                    isinstance(b, ast.Assign) and len(b.targets) == 1 and isinstance(b.targets[0], ast.Name) and b.targets[0].id == var
                    for b in (s.body[0], s.orelse[0])):
                val = ast.copy_location(ast.IfExp(test=s.test, body=s.body[0].value, orelse=s.orelse[0].value), s)
                out.append(ast.copy_location(ast.Assign(targets=[ast.Name(id=var, ctx=ast.Store())], value=val, lineno=s.lineno), s))
                continue
        out.append(s)
    return out


def _split_tuple_assign(st, names_may_be_impure=False):
    """a, b = (x, y)  ->  [a = x, b = y]  when no target is read by an element and the elements are pure - or, with
    names_may_be_impure, when every target is a plain local name (binding a local earlier cannot be observed by the
    evaluation of a later element, which does not mention it); else None"""
    if not (isinstance(st, ast.Assign) and len(st.targets) == 1 and isinstance(st.targets[0], ast.Tuple)
            and isinstance(st.value, ast.Tuple) and len(st.value.elts) == len(st.targets[0].elts)
            and not any(isinstance(e_, ast.Starred) for e_ in st.targets[0].elts + st.value.elts)):
        return None
    tn = set()
    for t_ in st.targets[0].elts:
        tn |= {n.id for n in ast.walk(t_) if isinstance(n, ast.Name)}
    vn = {n.id for e_ in st.value.elts for n in ast.walk(e_) if isinstance(n, ast.Name)}
    if tn & vn:
        return None
    if not all(is_pure(e_) for e_ in st.value.elts):
        if not (names_may_be_impure and all(isinstance(t_, ast.Name) for t_ in st.targets[0].elts)
                and not any(isinstance(n, (ast.Lambda, ast.NamedExpr)) for e_ in st.value.elts for n in ast.walk(e_))):
            return None
    return [ast.copy_location(ast.Assign(targets=[t_], value=e_, lineno=st.lineno), st) for t_, e_ in zip(st.targets[0].elts, st.value.elts)]


def _const_truth(e):
    """True/False when the test is decided by constants alone (after a constant argument was substituted), else None"""
    if isinstance(e, ast.Constant):
        return bool(e.value)
    if isinstance(e, ast.UnaryOp) and isinstance(e.op, ast.Not):
        v = _const_truth(e.operand)
        return None if v is None else (not v)
    if isinstance(e, ast.Compare) and len(e.ops) == 1 and isinstance(e.ops[0], (ast.Is, ast.IsNot)) \
            and isinstance(e.left, ast.Name) and isinstance(e.comparators[0], ast.Name) and e.left.id == e.comparators[0].id:
        return isinstance(e.ops[0], ast.Is)         # x is x
    if isinstance(e, ast.Compare) and len(e.ops) == 1 and isinstance(e.ops[0], (ast.Is, ast.IsNot)) and isinstance(e.comparators[0], ast.Constant) \
            and e.comparators[0].value is None and isinstance(e.left, (ast.BinOp, ast.UnaryOp)) \
            and all(isinstance(n, (ast.Constant, ast.BinOp, ast.UnaryOp, ast.operator, ast.unaryop)) and not (isinstance(n, ast.Constant) and n.value is None) for n in ast.walk(e.left)):
        return isinstance(e.ops[0], ast.IsNot)      # 1/3 is None: arithmetic of numbers is never None
    if isinstance(e, ast.Compare) and len(e.ops) == 1 and isinstance(e.left, ast.Constant) and isinstance(e.comparators[0], ast.Constant):
        a, b, op = e.left.value, e.comparators[0].value, e.ops[0]
        try:
            if isinstance(op, ast.Eq):
                return a == b
            if isinstance(op, ast.NotEq):
                return a != b
            if isinstance(op, ast.Is):
                return a is b if (a is None or b is None or isinstance(a, bool) or isinstance(b, bool)) else None
            if isinstance(op, ast.IsNot):
                return a is not b if (a is None or b is None or isinstance(a, bool) or isinstance(b, bool)) else None
            if isinstance(op, ast.Lt):
                return a < b
            if isinstance(op, ast.LtE):
                return a <= b
            if isinstance(op, ast.Gt):
                return a > b
            if isinstance(op, ast.GtE):
                return a >= b
            if isinstance(op, ast.In):
                return a in b
            if isinstance(op, ast.NotIn):
                return a not in b
        except TypeError:
            return None
    if isinstance(e, ast.BoolOp):
        vals = [_const_truth(v) for v in e.values]
        if isinstance(e.op, ast.And):
            if any(v is False for v in vals):
                return False
            if all(v is True for v in vals):
                return True
        else:
            if any(v is True for v in vals):
                return True
            if all(v is False for v in vals):
                return False
    return None


def _negate(test):
    """logical negation with the exact simplifications only: not not x -> x, not (a != b) -> a == b, not (a == b) -> a != b,
    is / is not, in / not in (orderings are left under `not`: NaN)"""
    if isinstance(test, ast.UnaryOp) and isinstance(test.op, ast.Not):
        return test.operand
    if isinstance(test, ast.Compare) and len(test.ops) == 1:
        flip = {ast.NotEq: ast.Eq, ast.Eq: ast.NotEq, ast.Is: ast.IsNot, ast.IsNot: ast.Is, ast.In: ast.NotIn, ast.NotIn: ast.In}
        for a_, b_ in flip.items():
            if isinstance(test.ops[0], a_):
                return ast.copy_location(ast.Compare(left=test.left, ops=[b_()], comparators=test.comparators), test)
    return ast.copy_location(ast.UnaryOp(op=ast.Not(), operand=test), test)


def _is_negative(test):
    return (isinstance(test, ast.UnaryOp) and isinstance(test.op, ast.Not)) or \
        (isinstance(test, ast.Compare) and len(test.ops) == 1 and isinstance(test.ops[0], (ast.NotEq, ast.IsNot, ast.NotIn)))


def _canon_polarity(stmts):
    """generated code only: `if c: pass else: S` -> `if not c: S`; negative tests with both branches are flipped to the
    positive form (if a != b: X else: Y -> if a == b: Y else: X), same for conditional expressions"""
    out = []
    for st in stmts:
        if isinstance(st, ast.If):
            st.body = _canon_polarity(st.body)
            st.orelse = _canon_polarity(st.orelse)
            only_pass = all(isinstance(x, ast.Pass) for x in st.body)
            if only_pass and st.orelse:
                st.test, st.body, st.orelse = _negate(st.test), st.orelse, []
            elif st.orelse and _is_negative(st.test) and not (len(st.orelse) == 1 and isinstance(st.orelse[0], ast.If)):
                st.test, st.body, st.orelse = _negate(st.test), st.orelse, st.body
            elif only_pass and not st.orelse:
                pass
        elif isinstance(st, (ast.For, ast.While, ast.With)):
            st.body = _canon_polarity(st.body)
        out.append(st)

    class T(ast.NodeTransformer):
        def visit_IfExp(self, node):
            self.generic_visit(node)
            if _is_negative(node.test):
                return ast.copy_location(ast.IfExp(test=_negate(node.test), body=node.orelse, orelse=node.body), node)
            return node
    return [T().visit(x) for x in out]


def _prune_constant_tests(stmts):
    out = []
    for st in stmts:
        if isinstance(st, ast.If):
            t = _const_truth(st.test)
            if t is True:
                out.extend(_prune_constant_tests(st.body))
                continue
            if t is False:
                out.extend(_prune_constant_tests(st.orelse))
                continue
            st.body = _prune_constant_tests(st.body) or [ast.copy_location(ast.Pass(), st)]
            st.orelse = _prune_constant_tests(st.orelse)
        elif isinstance(st, (ast.For, ast.While, ast.With)):
            st.body = _prune_constant_tests(st.body) or [ast.copy_location(ast.Pass(), st)]
        out.append(st)

    class T(ast.NodeTransformer):
        def visit_IfExp(self, node):
            self.generic_visit(node)
            t = _const_truth(node.test)
            if t is True:
                return node.body
            if t is False:
                return node.orelse
            return node
    return [T().visit(x) for x in out]


class _Rename(ast.NodeTransformer):
    def __init__(self, ren, subst):
        self.ren = ren          # name -> new name
        self.subst = subst      # name -> expression (Load only)

    def visit_Name(self, node):
        if node.id in self.ren:
            return ast.copy_location(ast.Name(id=self.ren[node.id], ctx=node.ctx), node)
        if node.id in self.subst and isinstance(node.ctx, ast.Load):
            return copy.deepcopy(self.subst[node.id])
        return node

    def visit_arg(self, node):
        if node.arg in self.ren:
            node.arg = self.ren[node.arg]
        return node

    def visit_FunctionDef(self, node):
        if node.name in self.ren:
            node.name = self.ren[node.name]
        return self.generic_visit(node)

    def visit_ExceptHandler(self, node):
        if node.name and node.name in self.ren:
            node.name = self.ren[node.name]
        return self.generic_visit(node)


def _nested_bound_names(stmts) -> set:
    """names bound by lambdas / nested defs / comprehensions inside the statements"""
    out = set()
    for s in stmts:
        for n in ast.walk(s):
            if isinstance(n, (ast.Lambda, ast.FunctionDef)):
                a = n.args
                out |= {x.arg for x in a.posonlyargs + a.args + a.kwonlyargs}
            elif isinstance(n, COMPS):
                for g in n.generators:
                    out |= {m.id for m in ast.walk(g.target) if isinstance(m, ast.Name)}
    return out


def hoistable_calls(expr):
    """Call nodes of an expression in evaluation order that are evaluated unconditionally and exactly once
    (not under lambda / comprehension / conditional operand)"""
    out = []

    def rec(n):
        if isinstance(n, (ast.Lambda,) + COMPS):
            return
        if isinstance(n, ast.IfExp):
            rec(n.test)
            return
        if isinstance(n, ast.BoolOp):
            rec(n.values[0])
            return
        if isinstance(n, ast.Compare) and len(n.ops) > 1:
            rec(n.left)
            rec(n.comparators[0])
            return
        for c in ast.iter_child_nodes(n):
            rec(c)
        if isinstance(n, ast.Call):
            out.append(n)
    rec(expr)
    return out


def header_exprs(stmt):
    """(attribute name, expression) pairs of a statement whose value is evaluated once when the statement starts"""
    if isinstance(stmt, (ast.Assign, ast.AugAssign, ast.Expr, ast.Return)):
        return [('value', stmt.value)] if stmt.value is not None else []
    if isinstance(stmt, ast.AnnAssign):
        return [('value', stmt.value)] if stmt.value is not None else []
    if isinstance(stmt, ast.If):
        return [('test', stmt.test)]
    if isinstance(stmt, ast.For):
        return [('iter', stmt.iter)]
    return []


class _Replace(ast.NodeTransformer):
    def __init__(self, old, new):
        self.old, self.new, self.done = old, new, False

    def visit(self, node):
        if node is self.old:
            self.done = True
            return self.new
        return super().visit(node)


# ------------------------------------------------------------------------------------------------ the pass
class Helper:
    def __init__(self, path, cls, func, qual, kind):
        self.path, self.cls, self.func, self.qual, self.kind = path, cls, func, qual, kind
        self.ready = False


class Normaliser:
    def __init__(self, modules: dict, baseline: dict):
        self.modules = modules
        self.base = baseline.get('modules', {})
        self.k = 0
        self.log: list[str] = []
        self.helpers: dict[str, Helper] = {}
        self.inprogress: set = set()

    # ---------------------------------------------------------------- driver
    def run(self):
        if not self.base:
            return self.log
        self.edited = set()
        for path in sorted(self.modules):
            ref = self.base.get(path, {}).get('digests')
            if ref is None:
                continue
            for q, f, _ in func_quals(self.modules[path].tree):
                if q in ref and ref[q] != func_digest(f):
                    self.edited.add((path, q))
        # N10: an edited function that is the reference function up to a renaming of its locals gets the reference names back
        for path in sorted(self.modules):
            ref_a = self.base.get(path, {}).get('alpha')
            if not ref_a:
                continue
            for q, f, _ in func_quals(self.modules[path].tree):
                if (path, q) in self.edited and q in ref_a:
                    af = alpha_form(f)
                    if af is not None and af[0] == ref_a[q][0] and len(af[1]) == len(ref_a[q][1]) and af[1] != ref_a[q][1]:
                        mapping = {c: b for c, b in zip(af[1], ref_a[q][1]) if c != b}
                        # two-step renaming through fresh names (a swap of two names must not collide)
                        tmp = {c: f'__kvtmp{i}' for i, c in enumerate(mapping)}
                        rename_locals(f, tmp)
                        rename_locals(f, {tmp[c]: b for c, b in mapping.items()})
                        self.edited.discard((path, q))
                        self.log.append(f'N10 {path}::{q}: {len(mapping)} local(s) renamed back to the names of the reference function (alpha-equivalent)')
        self._collect()
        self._inline_new_properties()
        for path in sorted(self.modules):
            self._constants(path)
        self._class_constants()
        self._imported_constants()
        for path in sorted(self.modules):
            tree = self.modules[path].tree
            for q, f, cls in list(func_quals(tree)):
                self._function(path, q, f, cls)
        self._imported_constants(everywhere=bool(self.helpers))
        self._drop_unused()
        self._split_dict_fields()
        for path in sorted(self.modules):
            tree = self.modules[path].tree
            basekw = self.base.get(path, {}).get('kws', {})
            for q, f, cls in list(func_quals(tree)):
                if q in basekw:
                    self._keywords(path, q, f, cls, set(basekw[q]))
        for path in sorted(self.modules):
            if 'reduce' in self.modules[path].text:
                for q, f, cls in list(func_quals(self.modules[path].tree)):
                    for _ in range(20):
                        if not self._fold_reduce_once(path, q, f):
                            break
        for path in sorted(self.modules):
            for q, f, cls in list(func_quals(self.modules[path].tree)):
                if (path, q) in self.edited and _nest_return_guards(f):
                    self.log.append(f'N9 {path}::{q}: guard clause(s) `if C: return V` ahead of the final `return V` nested as `if not C: ...`')
        for path in sorted(self.modules):
            tree = self.modules[path].tree
            base = self.base.get(path, {}).get('funcs', {})
            for q, f, cls in list(func_quals(tree)):
                known = set(base.get(q, ())) if q in base else None
                self._forward(path, q, f, known)
        # a, b = (x, y) in an edited function -> a = x; b = y (plain local targets that the elements do not read)
        for path in sorted(self.modules):
            for q, f, cls in list(func_quals(self.modules[path].tree)):
                if (path, q) in self.edited:
                    for blk in self._blocks(f):
                        i = 0
                        while i < len(blk):
                            sp_ = _split_tuple_assign(blk[i], names_may_be_impure=True) if isinstance(blk[i], ast.Assign) else None
                            if sp_:
                                blk[i:i + 1] = sp_
                                self.log.append(f'N9 {path}::{q}: tuple assignment split into single assignments')
                                i += len(sp_)
                            else:
                                i += 1
                    known_ = set(self.base.get(path, {}).get('funcs', {}).get(q, ()))
                    if known_:
                        self._forward(path, q, f, known_)
        # v[...] op= e  on an array view v (itself a slice expression) is  v op= e
        for path in sorted(self.modules):
            for q, f, cls in list(func_quals(self.modules[path].tree)):
                if (path, q) in self.edited:
                    for n in ast.walk(f):
                        if isinstance(n, ast.AugAssign) and isinstance(n.target, ast.Subscript) and isinstance(n.target.slice, ast.Constant) and n.target.slice.value is Ellipsis \
                                and isinstance(n.target.value, ast.Subscript):
                            inner = n.target.value
                            inner.ctx = ast.Store()
                            n.target = inner
                            self.log.append(f'N9 {path}::{q}: in-place update through [...] of a slice written as an update of the slice')
        self._drop_unused()
        if any(l.startswith('N1') for l in self.log):
            for m in self.modules.values():
                _fold_int_arith(m.tree)
        # N12: a slice bound that became the literal 0 after a flag was propagated (`elements[(0 if True else 1):-1]`) is the
        # omitted bound: seq[0:b] and seq[:b] denote the same items for every sequence when no step is given
        for m in self.modules.values():
            for n in ast.walk(m.tree):
                if isinstance(n, ast.Slice) and n.step is None and isinstance(n.lower, ast.Constant) and type(n.lower.value) is int and n.lower.value == 0:
                    n.lower = None
        # N11: a view parameter of an inlined helper was forward-substituted: `X[0, p][e]` (element of a row view) is the element
        # `X[0, p, e]`.  Only when the row is itself addressed by a tuple index (which only an array accepts: a list or tuple held in
        # a field, `self.Tparameters[1][0]`, is left alone), only in functions that received a forward substitution, and only when every index is an integer
        # literal or the variable of a `for .. in range(..)` loop (basic indexing: the two forms denote the same element)
        touched = set()
        for l in self.log:
            if l.startswith('N4 ') and 'forward-substituted' in l and '::' in l:
                pq = l[3:].split(': ', 1)[0]
                touched.add(tuple(pq.split('::', 1)))
        for path, q in sorted(touched):
            m = self.modules.get(path)
            if m is None:
                continue
            for q2, f, _cn in func_quals(m.tree):
                if q2 != q:
                    continue
                ints = set()
                nrange = {}
                for n in ast.walk(f):
                    if isinstance(n, ast.For) and isinstance(n.target, ast.Name) and isinstance(n.iter, ast.Call) and isinstance(n.iter.func, ast.Name) and n.iter.func.id == 'range':
                        ints.add(n.target.id)
                        nrange[n.target.id] = nrange.get(n.target.id, 0) + 1
                stores = {}
                for n in ast.walk(f):
                    if isinstance(n, ast.Name) and isinstance(n.ctx, ast.Store):
                        stores[n.id] = stores.get(n.id, 0) + 1
                # every binding of the name is a range-loop target
                stores = {k_: (1 if v_ == nrange.get(k_, 0) else 2) for k_, v_ in stores.items()}

                def is_int(e):
                    if isinstance(e, ast.Constant) and type(e.value) is int:
                        return True
                    return isinstance(e, ast.Name) and e.id in ints and stores.get(e.id, 0) == 1

                def idx(sl):
                    return list(sl.elts) if isinstance(sl, ast.Tuple) else [sl]
                changed = True
                nmerge = 0
                while changed:
                    changed = False
                    for n in ast.walk(f):
                        if isinstance(n, ast.Subscript) and isinstance(n.value, ast.Subscript) and all(is_int(e) for e in idx(n.slice)) and all(is_int(e) for e in idx(n.value.slice)) \
                                and isinstance(n.value.value, ast.Attribute) and isinstance(n.value.slice, ast.Tuple) and len(n.value.slice.elts) >= 2:
                            n.slice = ast.Tuple(elts=idx(n.value.slice) + idx(n.slice), ctx=ast.Load())
                            n.value = n.value.value
                            changed = True
                            nmerge += 1
                            break
                if nmerge:
                    self.log.append(f'N11 {path}::{q}: {nmerge} element access(es) through a substituted row view written as one subscript')
        for m in self.modules.values():
            ast.fix_missing_locations(m.tree)
        return self.log

    def _inline_new_properties(self):
        """N2: a new read-only @property whose getter is a single `return <pure expression of self>` is that expression at every
        `self.<name>` read inside its own class"""
        known_attrs = set()
        for m in self.base.values():
            known_attrs |= set(m.get('attrs', ()))
        for path in sorted(self.modules):
            bm = self.base.get(path)
            if bm is None or 'attrs' not in bm:
                continue
            for cnode in self.modules[path].tree.body:
                if not isinstance(cnode, ast.ClassDef):
                    continue
                props = {}
                for st in cnode.body:
                    if isinstance(st, ast.FunctionDef) and _decorators(st) == {'property'} and st.name not in known_attrs and f'{cnode.name}.{st.name}' not in bm['funcs']:
                        body = [x for x in st.body if not (isinstance(x, ast.Expr) and isinstance(x.value, ast.Constant))]
                        a = st.args
                        if len(body) == 1 and isinstance(body[0], ast.Return) and body[0].value is not None and is_pure(body[0].value) \
                                and len(a.args) == 1 and not (a.vararg or a.kwarg or a.kwonlyargs) \
                                and not any(isinstance(n, ast.Attribute) and n.attr == st.name for n in ast.walk(body[0].value)):
                            props[st.name] = (a.args[0].arg, body[0].value)
                # a setter / deleter or any store to the name keeps it a real attribute
                for n in ast.walk(self.modules[path].tree):
                    if isinstance(n, ast.Attribute) and n.attr in props and isinstance(n.ctx, (ast.Store, ast.Del)):
                        props.pop(n.attr, None)
                    if isinstance(n, ast.FunctionDef) and any(isinstance(d, ast.Attribute) and isinstance(d.value, ast.Name) and d.value.id in props for d in n.decorator_list):
                        props.pop(n.name, None)
                if not props:
                    continue
                for st in cnode.body:
                    if not isinstance(st, ast.FunctionDef) or not st.args.args or st.name in props:
                        continue
                    me = st.args.args[0].arg
                    if any(isinstance(n, ast.Name) and n.id == me and isinstance(n.ctx, ast.Store) for n in ast.walk(st)):
                        continue
                    hit = []

                    class T(ast.NodeTransformer):
                        def visit_Attribute(self, node):
                            self.generic_visit(node)
                            if isinstance(node.ctx, ast.Load) and node.attr in props and isinstance(node.value, ast.Name) and node.value.id == me:
                                sname, expr = props[node.attr]
                                hit.append(node.attr)
                                return ast.copy_location(_Rename({}, {sname: ast.Name(id=me, ctx=ast.Load())}).visit(copy.deepcopy(expr)), node)
                            return node
                    T().visit(st)
                    if hit:
                        self.log.append(f'N2 {path}::{cnode.name}.{st.name}: new read-only property {sorted(set(hit))} replaced by its expression')

    def _collect(self):
        self._effects = None
        self._cur = (None, {}, 'self')
        # named tuple classes of the package: name -> field list
        self.ntypes = {}
        self.ret_ntype = {}        # function name -> named tuple class named in its return annotation
        for path, mod in self.modules.items():
            for node in mod.tree.body:
                if isinstance(node, ast.Assign) and len(node.targets) == 1 and isinstance(node.targets[0], ast.Name) and isinstance(node.value, ast.Call):
                    fn = node.value.func
                    nm = fn.id if isinstance(fn, ast.Name) else fn.attr if isinstance(fn, ast.Attribute) else ''
                    if nm.lstrip('_') == 'namedtuple' and len(node.value.args) >= 2:
                        flds = node.value.args[1]
                        names = None
                        if isinstance(flds, (ast.List, ast.Tuple)) and all(isinstance(e, ast.Constant) and isinstance(e.value, str) for e in flds.elts):
                            names = [e.value for e in flds.elts]
                        elif isinstance(flds, ast.Constant) and isinstance(flds.value, str):
                            names = flds.value.replace(',', ' ').split()
                        if names:
                            self.ntypes[node.targets[0].id] = names
                elif isinstance(node, ast.ClassDef) and any((isinstance(b, ast.Name) and b.id == 'NamedTuple') or (isinstance(b, ast.Attribute) and b.attr == 'NamedTuple') for b in node.bases):
                    self.ntypes[node.name] = [st.target.id for st in node.body if isinstance(st, ast.AnnAssign) and isinstance(st.target, ast.Name)]
            for q, f, cls in func_quals(mod.tree):
                r = f.returns
                rn = r.id if isinstance(r, ast.Name) else r.attr if isinstance(r, ast.Attribute) else None
                if rn:
                    self.ret_ntype.setdefault(f.name, set()).add(rn)
        RECORD_CTORS.clear()
        RECORD_CTORS.update(self.ntypes)
        defs: dict[str, list] = {}
        for path, mod in self.modules.items():
            for q, f, cls in func_quals(mod.tree):
                defs.setdefault(f.name, []).append((path, q, f, cls))
        self.local_helpers = {}     # (path, name) -> Helper: private module-level functions of the same name in several modules
        for name, lst in defs.items():
            if len(lst) > 1 and all(c_ is None for _, _, _, c_ in lst) and len({p_ for p_, _, _, _ in lst}) == len(lst):
                for path, q, f, cls in lst:
                    bm = self.base.get(path)
                    if (bm is None or q not in bm['funcs']) and self._inlinable_def(f, None) and not any(
                            isinstance(al, ast.alias) and al.name == name for m_ in self.modules.values() for n_ in ast.walk(m_.tree) if isinstance(n_, ast.ImportFrom) for al in n_.names):
                        self.local_helpers[(path, name)] = Helper(path, None, f, q, 'function')
        # (path, class, name) -> Helper: a new private method of the same name in several classes that are unrelated by inheritance
        # (`_setSchedule` in the two TemperatureParameters classes); resolved only for calls on `self` inside the defining class
        self.class_helpers = {}
        all_classes = [(path_, node_) for path_, mod_ in self.modules.items() for node_ in mod_.tree.body if isinstance(node_, ast.ClassDef)]
        for name, lst in defs.items():
            if len(lst) > 1 and all(c_ is not None for _, _, _, c_ in lst) and len({(p_, c_) for p_, _, _, c_ in lst}) == len(lst):
                owners = {c_ for _, _, _, c_ in lst}
                # no class of the package derives (by a direct base name) from an owner: `self` in the owner is an instance of the owner
                derived = any((isinstance(b, ast.Name) and b.id in owners) or (isinstance(b, ast.Attribute) and b.attr in owners) for _, cn in all_classes for b in cn.bases)
                if derived or any(sum(1 for p2, cn in all_classes if p2 == p_ and cn.name == c_) != 1 for p_, _, _, c_ in lst):
                    continue
                for path, q, f, cls in lst:
                    bm = self.base.get(path)
                    dec = _decorators(f)
                    if (bm is None or q not in bm['funcs']) and self._inlinable_def(f, cls) and not dec:
                        self.class_helpers[(path, cls, name)] = Helper(path, cls, f, q, 'method')
        for name, lst in defs.items():
            if len(lst) != 1:
                continue
            path, q, f, cls = lst[0]
            bm = self.base.get(path)
            if bm is not None and q in bm['funcs']:
                continue
            if not self._inlinable_def(f, cls):
                continue
            dec = _decorators(f)
            kind = 'function' if cls is None else ('static' if 'staticmethod' in dec else 'class' if 'classmethod' in dec else 'method')
            self.helpers[name] = Helper(path, cls, f, q, kind)

    @staticmethod
    def _inlinable_def(f, cls) -> bool:
        if f.name.startswith('__') and f.name.endswith('__'):
            return False
        if _decorators(f) - {'staticmethod', 'classmethod'} or len(_decorators(f)) > 1:
            return False
        a = f.args
        if a.kwarg or (a.vararg and (a.defaults or a.kwonlyargs)):
            return False
        if a.vararg and any(isinstance(n, ast.Name) and n.id == a.vararg.arg and isinstance(n.ctx, (ast.Store, ast.Del)) for n in ast.walk(f)):
            return False
        simple_gen = False
        b_ = [x for x in f.body if not (isinstance(x, ast.Expr) and isinstance(x.value, ast.Constant))]
        if len(b_) == 1 and isinstance(b_[0], ast.For) and not b_[0].orelse and len(b_[0].body) == 1 \
                and sum(1 for n in ast.walk(f) if isinstance(n, (ast.Yield, ast.YieldFrom))) == 1:
            inner = b_[0].body[0]
            while isinstance(inner, ast.If) and not inner.orelse and len(inner.body) == 1:
                inner = inner.body[0]
            simple_gen = isinstance(inner, ast.Expr) and isinstance(inner.value, ast.Yield)
        if not simple_gen and _loop_gen_shape(f) is not None:
            simple_gen = True
        if not simple_gen and _branch_gen_candidate(f):
            simple_gen = True
        for n in ast.walk(f):
            if isinstance(n, (ast.Yield, ast.YieldFrom)) and simple_gen:
                continue
            if isinstance(n, (ast.Yield, ast.YieldFrom, ast.Await, ast.Global, ast.Nonlocal)):
                return False
            if isinstance(n, ast.Call):
                fn = n.func
                if (isinstance(fn, ast.Name) and fn.id == f.name) or (isinstance(fn, ast.Attribute) and fn.attr == f.name):
                    return False
                if isinstance(fn, ast.Name) and fn.id in ('locals', 'vars', 'super'):
                    return False
        return True

    # ---------------------------------------------------------------- N1 constants
    def _constants(self, path):
        tree = self.modules[path].tree
        bm = self.base.get(path)
        known = set(bm['consts']) if bm else set()
        counts: dict[str, int] = {}
        for node in tree.body:
            for t in (node.targets if isinstance(node, ast.Assign) else [node.target] if isinstance(node, (ast.AnnAssign, ast.AugAssign)) else []):
                for n in ast.walk(t):
                    if isinstance(n, ast.Name):
                        counts[n.id] = counts.get(n.id, 0) + 1
        consts = {}
        for node in tree.body:
            if isinstance(node, ast.Assign) and len(node.targets) == 1 and isinstance(node.targets[0], ast.Name):
                nm = node.targets[0].id
                if nm not in known and counts.get(nm) == 1 and (is_const_expr(node.value) or self._record_table(tree, node.value)):
                    consts[nm] = node.value
            elif isinstance(node, ast.Assign) and len(node.targets) == 1 and isinstance(node.targets[0], ast.Tuple) and isinstance(node.value, ast.Tuple) \
                    and len(node.targets[0].elts) == len(node.value.elts) and all(isinstance(t, ast.Name) for t in node.targets[0].elts):
                # A, B = 1, 2 : literal right-hand sides are independent of each other
                if all(isinstance(v, ast.Constant) for v in node.value.elts):
                    for t, v in zip(node.targets[0].elts, node.value.elts):
                        if t.id not in known and counts.get(t.id) == 1:
                            consts[t.id] = v
        # constants defined from earlier new constants
        changed = True
        while changed:
            changed = False
            for node in tree.body:
                if isinstance(node, ast.Assign) and len(node.targets) == 1 and isinstance(node.targets[0], ast.Name):
                    nm = node.targets[0].id
                    if nm in known or counts.get(nm) != 1 or nm in consts:
                        continue
                    used = {n.id for n in ast.walk(node.value) if isinstance(n, ast.Name)}
                    if used and used <= set(consts) | PURE_ROOTS:
                        val = _Rename({}, consts).visit(copy.deepcopy(node.value))
                        if is_const_expr(val):
                            consts[nm] = val
                            changed = True
        if not consts:
            return
        self.global_consts = getattr(self, 'global_consts', {})
        for k_, v_ in consts.items():
            self.global_consts.setdefault(k_, []).append((path, v_))
        for q, f, cls in func_quals(tree):
            shadow = local_names(f)
            sub = {k: v for k, v in consts.items() if k not in shadow}
            if sub and any(isinstance(n, ast.Name) and n.id in sub for n in ast.walk(f)):
                _Rename({}, sub).visit(f)
        for cnode in tree.body:     # class-level attribute initialisers
            if isinstance(cnode, ast.ClassDef):
                for st in cnode.body:
                    if isinstance(st, (ast.Assign, ast.AnnAssign)) and st.value is not None:
                        st.value = _Rename({}, consts).visit(st.value)
        self.log.append(f'N1 {path}: propagated new module constants {sorted(consts)}')

    def _record_table(self, tree, value) -> bool:
        """a tuple/list of named-tuple constructor calls whose arguments are literals or module-level functions / classes /
        imports: the same rows wherever the name is read"""
        if not (isinstance(value, (ast.Tuple, ast.List)) and value.elts):
            return False
        stable = set()
        for top in tree.body:
            if isinstance(top, (ast.FunctionDef, ast.ClassDef)):
                stable.add(top.name)
            elif isinstance(top, (ast.Import, ast.ImportFrom)):
                stable |= {(al.asname or al.name).split('.')[0] for al in top.names}

        def lit(a):
            if isinstance(a, ast.Name):
                return a.id in stable
            return is_const_expr(a) and not any(isinstance(n, ast.Name) for n in ast.walk(a))
        for row in value.elts:
            if not (isinstance(row, ast.Call) and isinstance(row.func, ast.Name) and row.func.id in self.ntypes
                    and all(lit(a) for a in row.args) and all(k.arg and lit(k.value) for k in row.keywords)):
                return False
        return True

    def _imported_constants(self, everywhere=False):
        """new module constants used from another module: `from .Constants import NAME` (or code inlined from the defining
        module).  Only names defined as a new constant in exactly one module and bound nowhere else at module level."""
        gc = {k: v[0] for k, v in getattr(self, 'global_consts', {}).items() if len(v) == 1}
        if not gc:
            return
        for path, mod in self.modules.items():
            toplevel = set()
            imported = set()
            for node in mod.tree.body:
                if isinstance(node, ast.ImportFrom):
                    for al in node.names:
                        if al.name == '*':
                            imported |= set(gc)
                        elif (al.asname or al.name) in gc and al.name == (al.asname or al.name):
                            imported.add(al.name)
                elif isinstance(node, (ast.Assign, ast.FunctionDef, ast.ClassDef)):
                    for t in (node.targets if isinstance(node, ast.Assign) else []):
                        toplevel |= {n.id for n in ast.walk(t) if isinstance(n, ast.Name)}
                    if not isinstance(node, ast.Assign):
                        toplevel.add(node.name)
            for q, f, cls in func_quals(mod.tree):
                shadow = local_names(f)
                sub = {}
                for k, (dpath, val) in gc.items():
                    if k in shadow or dpath == path:
                        continue
                    if k in toplevel:
                        continue
                    if k in imported or everywhere:
                        sub[k] = val
                if sub and any(isinstance(n, ast.Name) and n.id in sub and isinstance(n.ctx, ast.Load) for n in ast.walk(f)):
                    _Rename({}, sub).visit(f)
                    self.log.append(f'N1 {path}::{q}: new constant(s) {sorted(k for k in sub)} of another module propagated')

    def _class_constants(self):
        """N1 for new class-level constants: `self.NAME` / `Cls.NAME` loads are replaced by the constant expression when
        no attribute of that name is stored anywhere in the package and the name is defined once"""
        cands = {}
        for path, mod in self.modules.items():
            bm = self.base.get(path, {}).get('class_consts')
            for node in mod.tree.body:
                if not isinstance(node, ast.ClassDef):
                    continue
                known = set(bm.get(node.name, ())) if (bm is not None and node.name in bm) else (set() if bm is not None else None)
                if known is None:
                    continue
                modnames = set()
                for top in mod.tree.body:
                    if isinstance(top, (ast.FunctionDef, ast.ClassDef)):
                        modnames.add(top.name)
                    elif isinstance(top, (ast.Import, ast.ImportFrom)):
                        modnames |= {(al.asname or al.name).split('.')[0] for al in top.names}
                classnames = {n.id for st in node.body for t in (st.targets if isinstance(st, ast.Assign) else []) for n in ast.walk(t) if isinstance(n, ast.Name)} \
                    | {m.name for m in node.body if isinstance(m, ast.FunctionDef)}

                def is_table(e, depth=0):
                    # nested tuples/lists of constants and module-level names (classes, functions): the same objects in every method
                    if isinstance(e, (ast.Tuple, ast.List)):
                        return bool(e.elts) and depth < 3 and all(is_table(x, depth + 1) for x in e.elts)
                    if isinstance(e, ast.Constant):
                        return True
                    if isinstance(e, ast.Name) and e.id in classfuncs:
                        return True         # a function of this class body (written Cls.f when the table is propagated)
                    return isinstance(e, ast.Name) and e.id in modnames and e.id not in classnames
                # plain functions of the class body that nothing rebinds: inside the class body their bare name is the function object
                classfuncs = {m.name for m in node.body if isinstance(m, ast.FunctionDef) and not m.decorator_list
                              and sum(1 for m2 in node.body if isinstance(m2, ast.FunctionDef) and m2.name == m.name) == 1
                              and (bm is None or f'{node.name}.{m.name}' not in self.base.get(path, {}).get('funcs', {}))}
                classfuncs -= {n.id for st in node.body for t in (st.targets if isinstance(st, ast.Assign) else []) for n in ast.walk(t) if isinstance(n, ast.Name)}
                for st in node.body:
                    if isinstance(st, ast.Assign) and len(st.targets) == 1 and isinstance(st.targets[0], ast.Name) \
                            and st.targets[0].id not in known and (is_const_expr(st.value) or (isinstance(st.value, (ast.Tuple, ast.List)) and is_table(st.value))):
                        val = st.value
                        if any(isinstance(n, ast.Name) and n.id in classfuncs for n in ast.walk(val)):
                            cname = node.name

                            class Q(ast.NodeTransformer):
                                def visit_Name(self, n):
                                    if n.id in classfuncs:
                                        return ast.copy_location(ast.Attribute(value=ast.Name(id=cname, ctx=ast.Load()), attr=n.id, ctx=ast.Load()), n)
                                    return n
                            val = Q().visit(copy.deepcopy(val))
                        cands.setdefault(st.targets[0].id, []).append((path, node.name, val))
        cands = {k: v[0] for k, v in cands.items() if len(v) == 1}
        if not cands:
            return
        # a name that any other class body binds as well (an override in a subclass, whatever its value) is not one constant
        nbind = {}
        for mod in self.modules.values():
            for node in ast.walk(mod.tree):
                if isinstance(node, ast.ClassDef):
                    for st in node.body:
                        for t in (st.targets if isinstance(st, ast.Assign) else [st.target] if isinstance(st, (ast.AnnAssign, ast.AugAssign)) else []):
                            for n in ast.walk(t):
                                if isinstance(n, ast.Name) and n.id in cands:
                                    nbind[n.id] = nbind.get(n.id, 0) + 1
        cands = {k: v for k, v in cands.items() if nbind.get(k, 0) == 1}
        if not cands:
            return
        for mod in self.modules.values():
            for n in ast.walk(mod.tree):
                if isinstance(n, ast.Attribute) and isinstance(n.ctx, (ast.Store, ast.Del)) and n.attr in cands:
                    cands.pop(n.attr, None)
                elif isinstance(n, ast.FunctionDef) and n.name in cands:
                    cands.pop(n.name, None)
        if not cands:
            return

        class T(ast.NodeTransformer):
            def visit_Attribute(self, node):
                self.generic_visit(node)
                if isinstance(node.ctx, ast.Load) and node.attr in cands and isinstance(node.value, ast.Name):
                    return ast.copy_location(copy.deepcopy(cands[node.attr][2]), node)
                return node
        for path, mod in self.modules.items():
            for q, f, cls in func_quals(mod.tree):
                if any(isinstance(n, ast.Attribute) and n.attr in cands for n in ast.walk(f)):
                    free = {n.id for c_ in cands.values() for n in ast.walk(c_[2]) if isinstance(n, ast.Name)}
                    if free & local_names(f) or any(c_[0] != path for k_, c_ in cands.items()
                                                    if any(isinstance(n, ast.Attribute) and n.attr == k_ for n in ast.walk(f)) and free):
                        continue        # a local of the same name, or a table of another module whose names are not visible here
                    T().visit(f)
        self.log.append(f'N1 propagated new class-level constants {sorted(cands)}')

    # ---------------------------------------------------------------- N2/N3 inlining
    def _function(self, path, qual, func, cls):
        key = (path, qual)
        if getattr(func, '_kv_norm', False) or key in self.inprogress:
            return
        # fast exit: nothing in this function refers to a new helper and it defines no nested function
        hs = set(self.helpers) | {n_ for (p_, n_) in self.local_helpers if p_ == path} | {n_ for (p_, c_, n_) in getattr(self, 'class_helpers', {}) if p_ == path}
        touched = False
        for n in ast.walk(func):
            if isinstance(n, ast.Attribute) and n.attr in hs:
                touched = True
                break
            if isinstance(n, ast.Name) and n.id in hs:
                touched = True
                break
            if isinstance(n, ast.FunctionDef) and n is not func:
                touched = True
                break
        if not touched:
            func._kv_norm = True
            return
        self.inprogress.add(key)
        a = func.args
        pos = a.posonlyargs + a.args
        is_static = 'staticmethod' in _decorators(func) or 'classmethod' in _decorators(func)
        fctx = {'path': path, 'qual': qual, 'cls': cls, 'self': pos[0].arg if (cls and pos and not is_static) else None,
                'closures': {}, 'func': func}
        bm = self.base.get(path)
        known = set(bm['funcs'].get(qual, ())) if (bm and qual in bm['funcs']) else None
        fctx['known_locals'] = known
        before = len(self.log)
        func.body = self._block(func.body, fctx)
        if len(self.log) > before:
            self._fold_attr_strings(func)
        self._values_to_lambda(func, fctx)
        self._drop_closures(func, fctx)
        func._kv_norm = True
        self.inprogress.discard(key)

    def _is_new_local(self, name, fctx):
        kl = fctx['known_locals']
        return kl is None or name not in kl

    def _block(self, stmts, fctx):
        out = []
        for s in stmts:
            out.extend(self._stmt(s, fctx))
        return out

    def _stmt(self, s, fctx):
        if isinstance(s, ast.FunctionDef):
            s.body = self._block(s.body, fctx)
            if self._is_new_local(s.name, fctx) and self._inlinable_def(s, None):
                binds = sum(1 for n in walk_scope(fctx['func']) if (isinstance(n, ast.FunctionDef) and n.name == s.name)
                            or (isinstance(n, ast.Name) and n.id == s.name and isinstance(n.ctx, ast.Store)))
                if binds == 1:
                    fctx['closures'][s.name] = s
            return [s]
        if isinstance(s, ast.For) and not s.orelse:
            fused = self._fuse_generator(s, fctx)
            if fused is not None:
                return self._block(fused, fctx)
        # expression-level inlining everywhere in the statement's own expressions
        before = len(self.log)
        self._expr_inline(s, fctx)
        if len(self.log) > before:
            sp_ = _split_tuple_assign(s)
            if sp_:
                return sp_
        pre = []
        guard = 0
        while guard < 40:
            guard += 1
            found = None
            for attr, e in header_exprs(s):
                for c in hoistable_calls(e):
                    h = self._resolve(c, fctx)
                    if h is not None:
                        found = (attr, c, h)
                        break
                if found:
                    break
            if not found:
                break
            attr, call, (helper, receiver) = found
            exp = self._expand(call, helper, receiver, fctx)
            if exp is None:
                call._kv_noinline = True
                continue
            stmts, ret = exp
            # calls exposed by the substitution of arguments (a bound helper method passed as a parameter) are inlined too
            depth_ = fctx.get('depth', 0)
            if depth_ < 4:
                fctx['depth'] = depth_ + 1
                try:
                    stmts = self._block(stmts, fctx)
                finally:
                    fctx['depth'] = depth_
            pre.extend(stmts)
            if isinstance(s, ast.Expr) and s.value is call:
                return pre
            new = ret if ret is not None else ast.copy_location(ast.Constant(value=None), call)
            rep = _Replace(call, new)
            setattr(s, attr, rep.visit(getattr(s, attr)))
        for name in ('body', 'orelse', 'finalbody'):
            blk = getattr(s, name, None)
            if isinstance(blk, list) and blk and isinstance(blk[0], ast.stmt):
                setattr(s, name, self._block(blk, fctx))
        if isinstance(s, ast.Try):
            for hd in s.handlers:
                hd.body = self._block(hd.body, fctx)
        return pre + [s]

    def _resolve(self, call, fctx):
        """(Helper, receiver expression | None) when the call goes to an inlinable new helper"""
        if getattr(call, '_kv_noinline', False):
            return None
        f = call.func
        if any(isinstance(x, ast.Starred) for x in call.args) or any(k.arg is None for k in call.keywords):
            return None
        if isinstance(f, ast.Name):
            if f.id in fctx['closures']:
                return Helper(fctx['path'], None, fctx['closures'][f.id], f.id, 'closure'), None
            h = self.helpers.get(f.id) or self.local_helpers.get((fctx['path'], f.id))
            if h and h.kind == 'function' and h.func is not fctx['func']:
                self._prepare(h)
                return h, None
            return None
        if isinstance(f, ast.Attribute):
            h = self.helpers.get(f.attr)
            if not h and isinstance(f.value, ast.Name) and '.' in fctx['qual'] and fctx['func'].args.args and f.value.id == fctx['func'].args.args[0].arg \
                    and not ({'staticmethod', 'classmethod'} & set(_decorators(fctx['func']))):
                h = self.class_helpers.get((fctx['path'], fctx['qual'].split('.')[0], f.attr))
            if not h or h.kind == 'function' or h.func is fctx['func']:
                return None
            if not _is_path(f.value):
                return None
            if h.kind == 'static':
                self._prepare(h)
                return h, None
            if h.kind == 'class':
                # a classmethod called on the class that defines it: its first parameter is that class
                if isinstance(f.value, ast.Name) and f.value.id == h.cls:
                    self._prepare(h)
                    return h, f.value
                return None
            if isinstance(f.value, ast.Name) and f.value.id == h.cls:
                # Class.method(obj, ...) with a uniquely named new method: the same as obj.method(...)
                if h.kind == 'method' and call.args and isinstance(call.args[0], ast.Name) and not isinstance(call.args[0], ast.Starred):
                    call.func = ast.copy_location(ast.Attribute(value=call.args[0], attr=f.attr, ctx=ast.Load()), f)
                    call.args = call.args[1:]
                    self._prepare(h)
                    return h, call.func.value
                return None
            self._prepare(h)
            return h, f.value
        return None

    def _prepare(self, h: Helper):
        if not h.ready:
            h.ready = True
            self._function(h.path, h.qual, h.func, h.cls)

    @staticmethod
    def _bind(call, func, skip_self):
        a = func.args
        params = [x.arg for x in a.posonlyargs + a.args]
        if skip_self:
            params = params[1:]
        defaults = dict(zip(reversed(params), reversed(a.defaults))) if a.defaults else {}
        bound = {}
        if len(call.args) > len(params):
            if not a.vararg or a.defaults or any(isinstance(x, ast.Starred) for x in call.args):
                return None
            # def f(a, b, *rest) called with explicit extra positionals: rest is the tuple of them
            bound[a.vararg.arg] = ast.copy_location(ast.Tuple(elts=list(call.args[len(params):]), ctx=ast.Load()), call)
        elif a.vararg:
            if any(isinstance(x, ast.Starred) for x in call.args):
                return None
            bound[a.vararg.arg] = ast.copy_location(ast.Tuple(elts=[], ctx=ast.Load()), call)
        for p, v in zip(params, call.args):
            bound[p] = v
        kwonly = [x.arg for x in a.kwonlyargs]
        kwdefaults = {x.arg: d for x, d in zip(a.kwonlyargs, a.kw_defaults) if d is not None}
        for k in call.keywords:
            if k.arg in bound or (k.arg not in params and k.arg not in kwonly):
                return None
            bound[k.arg] = k.value
        for p in params:
            if p not in bound:
                if p in defaults:
                    bound[p] = defaults[p]
                else:
                    return None
        for p in kwonly:
            if p not in bound:
                if p in kwdefaults:
                    bound[p] = kwdefaults[p]
                else:
                    return None
        return bound

    def _single_return_expr(self, func):
        """the returned expression of a helper whose body is `return e`, or straight-line bindings of pure single-assignment
        locals followed by `return e` (the locals are folded into e: nothing can change between a pure binding and its use)"""
        body = list(func.body)
        if body and isinstance(body[0], ast.Expr) and isinstance(body[0].value, ast.Constant) and isinstance(body[0].value.value, str):
            body = body[1:]
        if len(body) == 1 and isinstance(body[0], ast.For) and not body[0].orelse and len(body[0].body) == 1:
            # def g(..): for T in IT: [if C:] yield E      ==  return (E for T in IT [if C])
            inner, conds = body[0].body[0], []
            while isinstance(inner, ast.If) and not inner.orelse and len(inner.body) == 1:
                conds.append(inner.test)
                inner = inner.body[0]
            if isinstance(inner, ast.Expr) and isinstance(inner.value, ast.Yield) and inner.value.value is not None \
                    and sum(1 for n in ast.walk(func) if isinstance(n, (ast.Yield, ast.YieldFrom))) == 1:
                return ast.copy_location(ast.GeneratorExp(elt=inner.value.value, generators=[ast.comprehension(target=body[0].target, iter=body[0].iter, ifs=conds, is_async=0)]), body[0])
        if not body or not isinstance(body[-1], ast.Return) or body[-1].value is None:
            return None
        if len(body) == 1:
            return body[0].value
        params = {x.arg for x in func.args.posonlyargs + func.args.args + func.args.kwonlyargs}
        env = {}
        for st in body[:-1]:
            if not (isinstance(st, ast.Assign) and len(st.targets) == 1):
                return None
            t, v = st.targets[0], st.value
            pairs = []
            if isinstance(t, ast.Name):
                pairs = [(t.id, v)]
            elif isinstance(t, ast.Tuple) and isinstance(v, ast.Tuple) and len(t.elts) == len(v.elts) and all(isinstance(e, ast.Name) for e in t.elts):
                pairs = [(a.id, b) for a, b in zip(t.elts, v.elts)]
            else:
                return None
            new = {}
            for nm, val in pairs:
                if nm in env or nm in params or not is_pure(val):
                    return None
                new[nm] = _Rename({}, env).visit(copy.deepcopy(val))
            env.update(new)
        if _nested_bound_names([ast.Expr(value=body[-1].value)]) & set(env):
            return None
        return _Rename({}, env).visit(copy.deepcopy(body[-1].value))

    def _expr_inline(self, stmt, fctx):
        """replace calls to single-return helpers by the returned expression (also under lambdas/comprehensions)"""
        norm = self

        class T(ast.NodeTransformer):
            def visit_FunctionDef(self, node):
                return node

            def visit_Call(self, node):
                self.generic_visit(node)
                r = norm._resolve(node, fctx)
                if r is None:
                    return node
                helper, receiver = r
                expr = norm._single_return_expr(helper.func)
                if expr is None:
                    return node
                bound = norm._bind(node, helper.func, helper.kind in ('method', 'class'))
                if bound is None:
                    return node
                subst = dict(bound)
                if helper.kind in ('method', 'class'):
                    subst[helper.func.args.args[0].arg] = receiver
                inner = _nested_bound_names([ast.Expr(value=expr)])
                argnames = set()
                for v in subst.values():
                    argnames |= {n.id for n in ast.walk(v) if isinstance(n, ast.Name)}
                if inner & (set(subst) | argnames):
                    return node
                # an argument that is not a pure expression is evaluated exactly once, where the call stood: it may replace its
                # parameter only if the returned expression uses that parameter exactly once, unconditionally, and no other
                # argument is impure as well (otherwise the statement-level expansion binds it to a temporary)
                impure = [p_ for p_, v in subst.items() if not (isinstance(v, (ast.Name, ast.Constant)) or is_pure(v))]
                if len(impure) > 1:
                    return node
                for p_ in impure:
                    uses = [n for n in ast.walk(expr) if isinstance(n, ast.Name) and n.id == p_]
                    cond = any(isinstance(n, (ast.IfExp, ast.BoolOp) + COMPS + (ast.Lambda,)) and any(u is m for m in ast.walk(n) for u in uses) for n in ast.walk(expr))
                    if len(uses) != 1 or cond:
                        return node
                new = _Rename({}, subst).visit(copy.deepcopy(expr))
                new = _canon_polarity(_prune_constant_tests([ast.Expr(value=new)]))[0].value
                if helper.path != fctx['path']:
                    for n in ast.walk(new):
                        if hasattr(n, 'end_lineno'):
                            n.end_lineno = None
                norm.log.append(f'N2 {fctx["path"]}::{fctx["qual"]}: call to new helper {helper.qual} replaced by its expression')
                return new

        # only the statement's own expressions, not nested statement bodies
        for field, value in ast.iter_fields(stmt):
            if field in ('body', 'orelse', 'finalbody', 'handlers'):
                continue
            if isinstance(value, ast.AST):
                setattr(stmt, field, T().visit(value))
            elif isinstance(value, list):
                setattr(stmt, field, [T().visit(v) if isinstance(v, ast.AST) else v for v in value])

    def _expand(self, call, helper, receiver, fctx, generator=False):
        func = helper.func
        if not generator and any(isinstance(n, (ast.Yield, ast.YieldFrom)) for n in walk_scope(func)):
            return None         # a generator is not a sequence of statements of its caller (see _fuse_generator)
        bound = self._bind(call, func, helper.kind in ('method', 'class'))
        if bound is None:
            return None
        body = list(func.body)
        if body and isinstance(body[0], ast.Expr) and isinstance(body[0].value, ast.Constant) and isinstance(body[0].value.value, str):
            body = body[1:]
        body = copy.deepcopy(body)
        self.k += 1
        k = self.k
        has_value = any(isinstance(n, ast.Return) and n.value is not None and not (isinstance(n.value, ast.Constant) and n.value.value is None)
                        for s in body for n in [s] + list(walk_scope(s)))
        retname = f'ret__i{k}' if has_value else None
        try:
            flat = eliminate_returns(body, retname)
        except _Bail:
            return None
        if retname:
            flat = _fold_ifexp(flat, retname)
            if not _always_returns(body):
                flat.insert(0, ast.copy_location(ast.Assign(targets=[ast.Name(id=retname, ctx=ast.Store())], value=ast.Constant(value=None), lineno=call.lineno), call))
        locs = local_names(func)
        rebound = set()
        for s in body:
            for n in [s] + list(walk_scope(s)):
                if isinstance(n, ast.Name) and isinstance(n.ctx, (ast.Store, ast.Del)):
                    rebound.add(n.id)
        attr_stores = {n.attr for s in body for n in ast.walk(s) if isinstance(n, ast.Attribute) and isinstance(n.ctx, (ast.Store, ast.Del))}
        nested = _nested_bound_names(body)
        params = list(bound)
        selfname = func.args.args[0].arg if helper.kind in ('method', 'class') else None
        subst, temps = {}, []
        ren = {}
        if selfname:
            if selfname in rebound or selfname in nested:
                return None
            subst[selfname] = receiver
        for p in params:
            a = bound[p]
            atomic = isinstance(a, (ast.Name, ast.Constant)) or (_attr_chain_only(a) and not (set(root_and_attrs(a)[1]) & attr_stores))
            if isinstance(a, ast.UnaryOp) and isinstance(a.operand, ast.Constant):
                atomic = True
            if p not in rebound and p not in nested and atomic:
                subst[p] = a
            else:
                new = f'{p}__i{k}'
                ren[p] = new
                temps.append(ast.copy_location(ast.Assign(targets=[ast.Name(id=new, ctx=ast.Store())], value=copy.deepcopy(a), lineno=call.lineno), call))
        for nm in locs:
            if nm not in ren and nm not in subst and nm != selfname:
                ren[nm] = f'{nm}__i{k}'
        if helper.kind == 'closure':
            # a closure reads the enclosing function's variables: only its own bindings are renamed
            own = local_names(func)
            ren = {a_: b_ for a_, b_ in ren.items() if a_ in own}
        tr = _Rename(ren, subst)
        flat = [tr.visit(s) for s in flat]
        if helper.path != fctx['path']:
            for s in flat:
                for n in ast.walk(s):
                    if hasattr(n, 'end_lineno'):
                        n.end_lineno = None
        flat = _canon_polarity(_prune_constant_tests(flat))
        self.log.append(f'N2 {fctx["path"]}::{fctx["qual"]}: call to new helper {helper.qual} inlined ({len(flat)} statement(s))')
        ret = ast.copy_location(ast.Name(id=retname, ctx=ast.Load()), call) if retname else None
        return temps + flat, ret

    def _split_dict_fields(self):
        """N8: a new attribute that only ever holds a dict with a fixed set of string keys and is only ever used through
        `obj.F['key']` is the same state as one attribute per key (`obj.F__key`): the dict is taken apart again so that the
        field-level rules see each slot"""
        if not any('attrs' in m for m in self.base.values()):
            return
        known = set()
        for m in self.base.values():
            known |= set(m.get('attrs', ()))
        occ = {}
        for path in sorted(self.modules):
            tree = self.modules[path].tree
            parent = {}
            for n in ast.walk(tree):
                for c in ast.iter_child_nodes(n):
                    parent[id(c)] = n
            for n in ast.walk(tree):
                if isinstance(n, ast.Attribute) and n.attr not in known:
                    occ.setdefault(n.attr, []).append((path, n, parent))
            for n in ast.walk(tree):          # string-addressed access keeps the attribute whole
                if isinstance(n, ast.Constant) and isinstance(n.value, str) and n.value in occ:
                    occ[n.value].append((path, None, None))

        def init_items(v):
            if isinstance(v, ast.Dict) and v.keys and all(isinstance(k, ast.Constant) and isinstance(k.value, str) for k in v.keys):
                return [(k.value, x) for k, x in zip(v.keys, v.values)]
            if isinstance(v, ast.Call) and isinstance(v.func, ast.Attribute) and v.func.attr == 'fromkeys' and isinstance(v.func.value, ast.Name) and v.func.value.id == 'dict' \
                    and not v.keywords and len(v.args) in (1, 2) and isinstance(v.args[0], (ast.Tuple, ast.List)) \
                    and all(isinstance(e, ast.Constant) and isinstance(e.value, str) for e in v.args[0].elts) \
                    and (len(v.args) == 1 or isinstance(v.args[1], ast.Constant)):
                fill = v.args[1] if len(v.args) == 2 else ast.Constant(value=None)
                return [(e.value, fill) for e in v.args[0].elts]
            if isinstance(v, ast.DictComp) and len(v.generators) == 1 and not v.generators[0].ifs and isinstance(v.generators[0].target, ast.Name) \
                    and isinstance(v.key, ast.Name) and v.key.id == v.generators[0].target.id and isinstance(v.value, ast.Constant) \
                    and isinstance(v.generators[0].iter, (ast.Tuple, ast.List)) and all(isinstance(e, ast.Constant) and isinstance(e.value, str) for e in v.generators[0].iter.elts):
                return [(e.value, v.value) for e in v.generators[0].iter.elts]
            return None

        for F, lst in sorted(occ.items()):
            uses, inits, ok = [], [], True
            for path, n, parent in lst:
                if n is None:
                    ok = False
                    break
                p_ = parent.get(id(n))
                if isinstance(p_, ast.Subscript) and p_.value is n and isinstance(p_.slice, ast.Constant) and isinstance(p_.slice.value, str) and not isinstance(p_.ctx, ast.Del) \
                        and isinstance(n.ctx, ast.Load):
                    uses.append((path, n, p_, parent))
                elif isinstance(p_, ast.Assign) and len(p_.targets) == 1 and p_.targets[0] is n and init_items(p_.value) is not None and _is_path(n.value):
                    inits.append((path, n, p_, parent))
                else:
                    ok = False
                    break
            if not ok or not inits or not uses:
                continue
            keysets = {tuple(sorted(k for k, _ in init_items(a.value))) for _, _, a, _ in inits}
            if len(keysets) != 1 or not all(k.isidentifier() for k in next(iter(keysets))):
                continue
            keys = set(next(iter(keysets)))
            if any(sub.slice.value not in keys for _, _, sub, _ in uses):
                continue
            for path, n, sub, parent in uses:
                new = ast.copy_location(ast.Attribute(value=n.value, attr=f'{F}__{sub.slice.value}', ctx=sub.ctx), sub)
                holder = parent.get(id(sub))
                for fld, val in ast.iter_fields(holder):
                    if val is sub:
                        setattr(holder, fld, new)
                    elif isinstance(val, list):
                        for i, x in enumerate(val):
                            if x is sub:
                                val[i] = new
            for path, n, a, parent in inits:
                holder = parent.get(id(a))
                repl = [ast.copy_location(ast.Assign(targets=[ast.Attribute(value=copy.deepcopy(n.value), attr=f'{F}__{k}', ctx=ast.Store())], value=copy.deepcopy(v), lineno=a.lineno), a)
                        for k, v in init_items(a.value)]
                for fld, val in ast.iter_fields(holder):
                    if isinstance(val, list) and any(x is a for x in val):
                        i = [j for j, x in enumerate(val) if x is a][0]
                        val[i:i + 1] = repl
            self.log.append(f'N8 new dictionary attribute {F} with fixed keys {sorted(keys)} taken apart into one attribute per key ({len(uses)} use(s))')

    def _base_attr_enumerated(self, path, qual):
        """attributes the reference version of this function already walks with enumerate(..): such loops are left as they are"""
        bm = self.base.get(path) or {}
        return set(bm.get('enumerated', {}).get(qual, ()))

    def _fuse_generator(self, loop, fctx):
        """for T in zip(a, G(args), b): BODY   with G a new loop generator   ->   G's loop over its own iterable zipped with a, b,
        with `T_k = <yielded value>; BODY` in place of the yield"""
        it = loop.iter
        if isinstance(it, ast.Call) and isinstance(it.func, ast.Name) and it.func.id == 'zip' and not it.keywords \
                and not any(isinstance(a, ast.Starred) for a in it.args):
            if not isinstance(loop.target, ast.Tuple) or len(loop.target.elts) != len(it.args) or any(isinstance(e, ast.Starred) for e in loop.target.elts):
                return None
            slots = list(it.args)
            targets = list(loop.target.elts)
        else:
            slots, targets = [it], [loop.target]
        for k, c in enumerate(slots):
            if not isinstance(c, ast.Call):
                continue
            r = self._resolve(c, fctx)
            if r is None:
                continue
            helper, receiver = r
            shape = _loop_gen_shape(helper.func)
            if shape is None:
                continue
            pre, gloop, yi = shape
            post = gloop.body[yi + 1:]
            if post:
                # `continue` in the consumer would skip the generator's statements after the yield
                def has_continue(stmts):
                    for st in stmts:
                        if isinstance(st, ast.Continue):
                            return True
                        if isinstance(st, (ast.For, ast.While, ast.FunctionDef)):
                            continue
                        for name in ('body', 'orelse', 'finalbody'):
                            if has_continue(getattr(st, name, None) or []):
                                return True
                        if isinstance(st, ast.Try) and any(has_continue(h.body) for h in st.handlers):
                            return True
                    return False
                if has_continue(loop.body):
                    continue
            if not all(isinstance(a, (ast.Name, ast.Constant)) or is_pure(a) for a in c.args) or not all(is_pure(kw.value) for kw in c.keywords):
                continue
            exp = self._expand(c, helper, receiver, fctx, generator=True)
            if exp is None:
                continue
            stmts, _ = exp
            gl = [st for st in stmts if isinstance(st, ast.For) and any(isinstance(n, ast.Yield) for n in ast.walk(st))]
            if len(gl) != 1:
                continue
            gl = gl[0]
            yi2 = [i for i, st in enumerate(gl.body) if isinstance(st, ast.Expr) and isinstance(st.value, ast.Yield)]
            if len(yi2) != 1:
                continue
            y = gl.body[yi2[0]]
            bind = ast.copy_location(ast.Assign(targets=[targets[k]], value=y.value.value, lineno=loop.lineno), loop)
            sp_ = _split_tuple_assign(bind) or [bind]
            gl.body = gl.body[:yi2[0]] + sp_ + list(loop.body) + gl.body[yi2[0] + 1:]
            if len(slots) > 1:
                new_t = targets[:k] + [gl.target] + targets[k + 1:]
                new_i = slots[:k] + [gl.iter] + slots[k + 1:]
                gl.target = ast.copy_location(ast.Tuple(elts=new_t, ctx=ast.Store()), loop.target)
                gl.iter = ast.copy_location(ast.Call(func=it.func, args=new_i, keywords=[]), it)
            for n in ast.walk(gl.target):
                if isinstance(n, (ast.Name, ast.Tuple, ast.List, ast.Attribute, ast.Subscript)) and hasattr(n, 'ctx') and not isinstance(n, ast.Subscript):
                    n.ctx = ast.Store()
            gl.lineno = loop.lineno
            self.log.append(f'N7 {fctx["path"]}::{fctx["qual"]}: loop over new generator {helper.qual} fused with its consumer')
            return stmts
        return self._fuse_branching_generator(loop, fctx)

    def _fuse_branching_generator(self, loop, fctx):
        """for T in G(args): BODY   /   for i, T in enumerate(G(args)): BODY     with G a new generator whose yields sit one per loop in
        loops selected by if/else (at most one yielding loop runs on a path, every loop yields once per iteration, unconditionally):
        G's statements with `T = <yielded value>; BODY` in place of each yield (and `i = <loop variable>` when the loop is
        `for v in range(N)`, whose variable is then the count of values yielded so far)"""
        it, index_t, item_t = loop.iter, None, loop.target
        if isinstance(it, ast.Call) and isinstance(it.func, ast.Name) and it.func.id == 'enumerate' and len(it.args) == 1 and not it.keywords \
                and isinstance(loop.target, ast.Tuple) and len(loop.target.elts) == 2 and isinstance(loop.target.elts[0], ast.Name):
            it, index_t, item_t = it.args[0], loop.target.elts[0], loop.target.elts[1]
        if not isinstance(it, ast.Call) or any(isinstance(n, ast.Starred) for n in ast.walk(item_t)):
            return None
        r = self._resolve(it, fctx)
        if r is None:
            return None
        helper, receiver = r
        f = helper.func
        ys = [n for n in ast.walk(f) if isinstance(n, (ast.Yield, ast.YieldFrom))]
        # a generator consumed directly by a for loop runs interleaved with it in program order: its statements need not be pure
        if not ys or any(not isinstance(y, ast.Yield) or y.value is None for y in ys):
            return None
        if any(isinstance(n, (ast.Break, ast.Continue, ast.While, ast.Try, ast.With)) for n in ast.walk(f)):
            return None
        if any(isinstance(n, ast.Return) and n.value is not None for n in ast.walk(f)):
            return None
        # the consumer must run to the end of every iteration (then the generator's statements after a yield always run too)
        for st in loop.body:
            for n in [st] + list(walk_scope(st)):
                if isinstance(n, (ast.Break, ast.Return, ast.Yield, ast.YieldFrom)):
                    return None
                if isinstance(n, ast.Continue):
                    return None
        if not all(isinstance(a, (ast.Name, ast.Constant)) or is_pure(a) for a in it.args) or not all(is_pure(kw.value) for kw in it.keywords):
            return None
        n_log = len(self.log)
        exp = self._expand(it, helper, receiver, fctx, generator=True)
        if exp is None:
            return None
        stmts, _ = exp

        def has_yield(st):
            return any(isinstance(n, ast.Yield) for n in ast.walk(st))

        loops = []

        def shape(block, in_loop):
            """every statement list holds at most one yielding statement; yields are direct statements of a top-level loop"""
            yielding = [st for st in block if has_yield(st)]
            if len(yielding) > 1:
                return False
            for st in yielding:
                if isinstance(st, ast.If):
                    if in_loop or not shape(st.body, False) or not shape(st.orelse, False):
                        return False
                elif isinstance(st, ast.For):
                    if in_loop or st.orelse:
                        return False
                    direct = [x for x in st.body if isinstance(x, ast.Expr) and isinstance(x.value, ast.Yield)]
                    if len(direct) != 1 or sum(1 for x in st.body if has_yield(x)) != 1:
                        return False
                    loops.append((st, direct[0]))
                else:
                    return False
            return True

        if not shape(stmts, False) or not loops:
            del self.log[n_log:]
            return None
        # the loop targets get one name per copy of the consumer's body (they are then bound once each), unless they are read after the loop
        inside = {id(n) for n in ast.walk(loop)}
        t_names = {n.id for n in ast.walk(loop.target) if isinstance(n, ast.Name)}
        used_outside = {n.id for n in walk_scope(fctx['func']) if isinstance(n, ast.Name) and n.id in t_names and id(n) not in inside}
        for k_, (gl, y) in enumerate(loops):
            ren_ = {nm: f'{nm}__y{k_}' for nm in t_names - used_outside} if len(loops) > 1 else {}
            pre = []
            if index_t is not None:
                rng = gl.iter
                if not (isinstance(rng, ast.Call) and isinstance(rng.func, ast.Name) and rng.func.id == 'range' and len(rng.args) == 1 and not rng.keywords
                        and isinstance(gl.target, ast.Name)):
                    del self.log[n_log:]
                    return None
                if any(isinstance(n, ast.Name) and n.id == gl.target.id and isinstance(n.ctx, ast.Store) for x in gl.body for n in ast.walk(x)):
                    del self.log[n_log:]
                    return None
                pre.append(ast.copy_location(ast.Assign(targets=[ast.Name(id=index_t.id, ctx=ast.Store())], value=ast.Name(id=gl.target.id, ctx=ast.Load()), lineno=loop.lineno), loop))
            tgt = copy.deepcopy(item_t)
            for n in ast.walk(tgt):
                if isinstance(n, (ast.Name, ast.Tuple, ast.List)):
                    n.ctx = ast.Store()
            bind = ast.copy_location(ast.Assign(targets=[tgt], value=y.value.value, lineno=loop.lineno), loop)
            i = gl.body.index(y)
            body_k = copy.deepcopy(list(loop.body))
            if ren_:
                for blk in (pre, [bind.targets[0]], body_k):
                    for st in blk:
                        for n in ast.walk(st):
                            if isinstance(n, ast.Name) and n.id in ren_:
                                n.id = ren_[n.id]
            gl.body = gl.body[:i] + pre + (_split_tuple_assign(bind) or [bind]) + body_k + gl.body[i + 1:]
            gl.lineno = loop.lineno
        self.log.append(f'N7 {fctx["path"]}::{fctx["qual"]}: loop over new branching generator {helper.qual} ({len(loops)} yielding loops) fused with its consumer')
        return stmts

    @staticmethod
    def _fold_attr_strings(func):
        """after inlining a helper that took an attribute name as a string argument:
        'a' + 'b' -> 'ab';  getattr(x, 'name') -> x.name;  setattr(x, 'name', v) -> x.name = v"""
        class T(ast.NodeTransformer):
            def visit_BinOp(self, node):
                self.generic_visit(node)
                if isinstance(node.op, ast.Add) and all(isinstance(x, ast.Constant) and isinstance(x.value, str) for x in (node.left, node.right)):
                    return ast.copy_location(ast.Constant(value=node.left.value + node.right.value), node)
                return node

            def visit_JoinedStr(self, node):
                # f'_{"name"}' with only string literals inside -> '_name'
                parts = []
                for v in node.values:
                    if isinstance(v, ast.Constant) and isinstance(v.value, str):
                        parts.append(v.value)
                    elif isinstance(v, ast.FormattedValue) and v.conversion == -1 and v.format_spec is None and isinstance(v.value, ast.Constant) and isinstance(v.value.value, str):
                        parts.append(v.value.value)
                    else:
                        return node
                return ast.copy_location(ast.Constant(value=''.join(parts)), node)

            def visit_Call(self, node):
                self.generic_visit(node)
                if isinstance(node.func, ast.Name) and node.func.id == 'getattr' and len(node.args) == 2 and not node.keywords \
                        and isinstance(node.args[1], ast.Constant) and isinstance(node.args[1].value, str) and node.args[1].value.isidentifier():
                    return ast.copy_location(ast.Attribute(value=node.args[0], attr=node.args[1].value, ctx=ast.Load()), node)
                return node

            def visit_Expr(self, node):
                self.generic_visit(node)
                c = node.value
                if isinstance(c, ast.Call) and isinstance(c.func, ast.Name) and c.func.id == 'setattr' and len(c.args) == 3 and not c.keywords \
                        and isinstance(c.args[1], ast.Constant) and isinstance(c.args[1].value, str) and c.args[1].value.isidentifier():
                    tgt = ast.copy_location(ast.Attribute(value=c.args[0], attr=c.args[1].value, ctx=ast.Store()), c)
                    return ast.copy_location(ast.Assign(targets=[tgt], value=c.args[2], lineno=node.lineno), node)
                return node
        T().visit(func)

    def _values_to_lambda(self, func, fctx):
        """N3: a single-return new closure / helper method used as a value becomes a lambda"""
        norm = self
        callfuncs = {id(n.func) for n in ast.walk(func) if isinstance(n, ast.Call)}

        class T(ast.NodeTransformer):
            def visit_Name(self, node):
                if isinstance(node.ctx, ast.Load) and id(node) not in callfuncs and node.id in fctx['closures']:
                    cl = fctx['closures'][node.id]
                    e = norm._single_return_expr(cl)
                    if e is not None and not cl.args.defaults:
                        norm.log.append(f'N3 {fctx["path"]}::{fctx["qual"]}: closure {node.id} used as a value replaced by a lambda')
                        return ast.copy_location(ast.Lambda(args=copy.deepcopy(cl.args), body=copy.deepcopy(e)), node)
                return node

            def visit_Attribute(self, node):
                self.generic_visit(node)
                if isinstance(node.ctx, ast.Load) and id(node) not in callfuncs and isinstance(node.value, ast.Name) \
                        and node.value.id == fctx['self'] and node.attr in norm.helpers:
                    h = norm.helpers[node.attr]
                    if h.kind != 'method':
                        return node
                    norm._prepare(h)
                    e = norm._single_return_expr(h.func)
                    if e is None or h.func.args.defaults:
                        return node
                    args = copy.deepcopy(h.func.args)
                    sname = args.args[0].arg
                    args.args = args.args[1:]
                    body = _Rename({}, {sname: ast.Name(id=fctx['self'], ctx=ast.Load())}).visit(copy.deepcopy(e)) if sname != fctx['self'] else copy.deepcopy(e)
                    norm.log.append(f'N3 {fctx["path"]}::{fctx["qual"]}: bound method {node.attr} used as a value replaced by a lambda')
                    return ast.copy_location(ast.Lambda(args=args, body=body), node)
                return node

            def visit_FunctionDef(self, node):
                if node is func:
                    return self.generic_visit(node)
                return self.generic_visit(node)
        T().visit(func)

    def _drop_closures(self, func, fctx):
        for name, cl in list(fctx['closures'].items()):
            refs = sum(1 for n in ast.walk(func) if isinstance(n, ast.Name) and n.id == name and isinstance(n.ctx, ast.Load))
            if refs == 0:
                self._remove_stmt(func, cl)
                self.log.append(f'N5 {fctx["path"]}::{fctx["qual"]}: closure {name} has no remaining reference, dropped')

    @staticmethod
    def _remove_stmt(container, stmt):
        for n in ast.walk(container):
            for name in ('body', 'orelse', 'finalbody'):
                blk = getattr(n, name, None)
                if isinstance(blk, list) and stmt in blk:
                    blk.remove(stmt)
                    if not blk and name == 'body':
                        blk.append(ast.Pass(lineno=getattr(stmt, 'lineno', 1), col_offset=0))
                    return True
        return False

    # ---------------------------------------------------------------- N5 unused helpers
    def _drop_unused(self):
        if not self.helpers and not getattr(self, 'local_helpers', None):
            return
        refs: dict[str, int] = {}
        for mod in self.modules.values():
            for n in ast.walk(mod.tree):
                if isinstance(n, ast.Attribute) and n.attr in self.helpers:
                    refs[n.attr] = refs.get(n.attr, 0) + 1
                elif isinstance(n, ast.Name) and n.id in self.helpers:
                    refs[n.id] = refs.get(n.id, 0) + 1
                elif isinstance(n, ast.Constant) and isinstance(n.value, str) and n.value in self.helpers:
                    refs[n.value] = refs.get(n.value, 0) + 1
                elif isinstance(n, ast.alias) and n.name in self.helpers:
                    refs[n.name] = refs.get(n.name, 0) + 1
        for (lp, lname), h in self.local_helpers.items():
            tree = self.modules[lp].tree
            used = any((isinstance(n, ast.Name) and n.id == lname) or (isinstance(n, ast.Attribute) and n.attr == lname) for n in ast.walk(tree) if n is not h.func)
            if not used and lname.startswith('_') and self._remove_stmt(tree, h.func):
                self.log.append(f'N5 {lp}: new helper {h.qual} has no remaining reference, dropped')
        for name, h in self.helpers.items():
            # only private helpers are dropped: a new public function is part of the interface even if nothing in the package calls it
            if refs.get(name, 0) == 0 and name.startswith('_'):
                tree = self.modules[h.path].tree
                if self._remove_stmt(tree, h.func):
                    self.log.append(f'N5 {h.path}: new helper {h.qual} has no remaining reference, dropped')

    # ---------------------------------------------------------------- N6 new keyword arguments -> positional
    def _keywords(self, path, qual, func, cls, known):
        if not (keyword_uses(func) - known):
            return
        a = func.args.posonlyargs + func.args.args
        sname = a[0].arg if (cls and a) else 'self'
        counts, ldefs = {}, {}
        for n in ast.walk(func):
            if isinstance(n, ast.Name) and isinstance(n.ctx, ast.Store):
                counts[n.id] = counts.get(n.id, 0) + 1
        for n in ast.walk(func):
            if isinstance(n, ast.Assign) and len(n.targets) == 1 and isinstance(n.targets[0], ast.Name) and counts.get(n.targets[0].id) == 1:
                ldefs[n.targets[0].id] = n.value
        for n in ast.walk(func):
            if not isinstance(n, ast.Call) or not n.keywords or any(k.arg is None for k in n.keywords) or any(isinstance(x, ast.Starred) for x in n.args):
                continue
            cal = n.func.attr if isinstance(n.func, ast.Attribute) else n.func.id if isinstance(n.func, ast.Name) else '?'
            if all(f'{cal}:{k.arg}' in known for k in n.keywords):
                continue
            cands = self.effects.resolve(n, cls, ldefs, sname)
            if not cands:
                continue
            orders = set()
            for c in cands:
                ps = [x.arg for x in c.args.posonlyargs + c.args.args]
                owner = self.effects._owner.get(id(c))
                if owner and 'staticmethod' not in _decorators(c):
                    ps = ps[1:]
                orders.add(tuple(ps))
            if len(orders) != 1:
                continue
            ps = list(orders.pop())
            kw = {k.arg: k.value for k in n.keywords}
            args = list(n.args)
            moved = []
            while len(args) < len(ps) and ps[len(args)] in kw:
                nm = ps[len(args)]
                args.append(kw.pop(nm))
                moved.append(nm)
            if moved:
                n.args = args
                n.keywords = [k for k in n.keywords if k.arg in kw]
                self.log.append(f'N6 {path}::{qual}: new keyword argument(s) {moved} of {cal}() made positional')

    # ---------------------------------------------------------------- N4 forward substitution
    def _forward(self, path, qual, func, known):
        if known is None:
            return      # a new function that was kept: nothing to compare its locals with
        if not (local_names(func) - known):
            return      # no new local: nothing to undo (the expensive passes below are skipped)
        cls = qual.split('.')[0] if '.' in qual else None
        a = func.args.posonlyargs + func.args.args
        counts, ldefs = {}, {}
        for n in ast.walk(func):
            if isinstance(n, ast.Name) and isinstance(n.ctx, ast.Store):
                counts[n.id] = counts.get(n.id, 0) + 1
        for n in ast.walk(func):
            if isinstance(n, ast.Assign) and len(n.targets) == 1 and isinstance(n.targets[0], ast.Name) and counts.get(n.targets[0].id) == 1:
                ldefs[n.targets[0].id] = n.value
        self._cur = (cls, ldefs, a[0].arg if (cls and a) else 'self')
        params = {x.arg for x in a + func.args.kwonlyargs}
        before = len(self.log)
        self._cur_path = path
        self._cur_func = func
        self._rename_apart(path, qual, func, known | params)
        for _round in range(6):
            n0 = len(self.log)
            self._fold_new_locals(path, qual, func, known | params)
            self._split_local_tuples(path, qual, func, known | params)
            if any(l.startswith('N7') for l in self.log[n0:]):
                self._fold_attr_strings(func)
                # unrolling a dispatch table exposes calls to new helpers (bound methods taken from the table): inline them now
                func._kv_norm = False
                self.inprogress.discard((path, qual))
                self._function(path, qual, func, cls)
            for _ in range(80):
                if not (self._forward_once(path, qual, func, known) or self._views_once(path, qual, func, known | params) or self._coalesce_once(path, qual, func, known | params)
                        or self._coalesce_copy_in(path, qual, func, known | params) or self._alias_to_field(path, qual, func, known | params)
                        or self._fold_reduce_once(path, qual, func)):
                    break
            self._fold_attr_strings(func)
            if len(self.log) == n0:
                break
        if len(self.log) > before:
            self._fold_attr_strings(func)

    def _coalesce_once(self, path, qual, func, known):
        """t = ...; (statements using only t); x = t   with the new local t dead afterwards and x untouched in between
        ->  the same statements computing into x directly"""
        for blk in self._blocks(func):
            for j, s in enumerate(blk):
                if not (isinstance(s, ast.Assign) and len(s.targets) == 1 and isinstance(s.value, ast.Name)):
                    continue
                if isinstance(s.targets[0], ast.Tuple) and all(isinstance(e_, ast.Name) for e_ in s.targets[0].elts) and s.value.id not in known:
                    # t = R; (statements not touching t, a, b); a, b = t   with t bound and used nowhere else  ->  a, b = R at the binding
                    t = s.value.id
                    names = {e_.id for e_ in s.targets[0].elts}
                    occ = [n for n in ast.walk(func) if (isinstance(n, ast.Name) and n.id == t) or (isinstance(n, ast.arg) and n.arg == t)]
                    firsts = [i for i in range(j) if isinstance(blk[i], ast.Assign) and len(blk[i].targets) == 1 and isinstance(blk[i].targets[0], ast.Name) and blk[i].targets[0].id == t]
                    if len(occ) == 2 and len(firsts) == 1 and t not in names \
                            and not any(isinstance(n, ast.Name) and n.id in names for st in blk[firsts[0]:j] for n in ast.walk(st)) \
                            and not any(isinstance(n, (ast.Lambda, ast.FunctionDef)) for st in blk[firsts[0]:j] for n in ast.walk(st)):
                        blk[firsts[0]] = ast.copy_location(ast.Assign(targets=[s.targets[0]], value=blk[firsts[0]].value, lineno=blk[firsts[0]].lineno), blk[firsts[0]])
                        sp_ = _split_tuple_assign(blk[firsts[0]], names_may_be_impure=True) if isinstance(blk[firsts[0]].value, ast.Tuple) else None
                        del blk[j]
                        if sp_:
                            blk[firsts[0]:firsts[0] + 1] = sp_
                        self.log.append(f'N4 {path}::{qual}: new local {t} (unpacked later) bound to its targets directly')
                        return True
                    continue
                if not isinstance(s.targets[0], ast.Name):
                    if self._coalesce_path(path, qual, func, known, blk, j):
                        return True
                    continue
                x, t = s.targets[0].id, s.value.id
                if t in known or x == t:
                    continue
                occ = [n for n in ast.walk(func) if (isinstance(n, ast.Name) and n.id == t) or (isinstance(n, ast.arg) and n.arg == t)
                       or (isinstance(n, (ast.FunctionDef, ast.ClassDef)) and n.name == t)]
                first = None
                for i in range(j):
                    b = blk[i]
                    if isinstance(b, ast.Assign) and len(b.targets) == 1 and (
                            (isinstance(b.targets[0], ast.Name) and b.targets[0].id == t)
                            or (isinstance(b.targets[0], ast.Tuple) and any(isinstance(e_, ast.Name) and e_.id == t for e_ in b.targets[0].elts)
                                and not any(isinstance(e_, ast.Name) and e_.id == x for e_ in b.targets[0].elts))):
                        first = i
                        break
                if first is None:
                    continue
                region = blk[first:j + 1]
                inside = set()
                for st in region:
                    for n in ast.walk(st):
                        inside.add(id(n))
                tail = []
                if any(id(n) not in inside for n in occ):
                    # t may still be read after `x = t` as long as neither name is rebound from there on: both denote the same value
                    after = {id(n) for st in blk[j + 1:] for n in ast.walk(st)}
                    if any(id(n) not in inside and id(n) not in after for n in occ):
                        continue
                    rebound = False
                    for st in blk[j + 1:]:
                        for n in ast.walk(st):
                            if isinstance(n, ast.Name) and n.id in (t, x) and isinstance(n.ctx, (ast.Store, ast.Del)):
                                rebound = True
                            if isinstance(n, (ast.Lambda, ast.FunctionDef)):
                                rebound = True
                    # x must not be rebound elsewhere later either (loops: the block may run again, then t is rebound first anyway)
                    if rebound:
                        continue
                    tail = list(range(j + 1, len(blk)))
                if any(isinstance(n, (ast.Lambda, ast.FunctionDef)) for st in region for n in ast.walk(st)):
                    continue
                # x may be read by the first binding's right-hand side (t = f(x)), nowhere else before x = t
                if any(isinstance(n, ast.Name) and n.id == x for st in blk[first + 1:j] for n in ast.walk(st)):
                    continue
                tr = _Rename({t: x}, {})
                for i in list(range(first, j)) + tail:
                    blk[i] = tr.visit(blk[i])
                del blk[j]
                self.log.append(f'N4 {path}::{qual}: new local {t} coalesced into {x}')
                return True
        return False

    def _alias_to_field(self, path, qual, func, known) -> bool:
        """t = E; self.f = t; ...t...   (t a new single-binding local)  ->  self.f = E; ...self.f...
        valid while neither name is rebound: both denote the same object"""
        for blk in self._blocks(func):
            for i in range(len(blk) - 1):
                a, b = blk[i], blk[i + 1]
                if not (isinstance(a, ast.Assign) and len(a.targets) == 1 and isinstance(a.targets[0], ast.Name)
                        and isinstance(b, ast.Assign) and len(b.targets) == 1 and isinstance(b.value, ast.Name)
                        and b.value.id == a.targets[0].id and isinstance(b.targets[0], (ast.Attribute, ast.Subscript))
                        and _is_path(b.targets[0]) and _path_indices_simple(b.targets[0]) and root_and_attrs(b.targets[0])[1]):
                    continue
                t, P = a.targets[0].id, b.targets[0]
                if t in known:
                    continue
                stores = [n for n in ast.walk(func) if isinstance(n, ast.Name) and n.id == t and isinstance(n.ctx, (ast.Store, ast.Del))]
                if len(stores) != 1 or any(isinstance(n, ast.arg) and n.arg == t for n in ast.walk(func)):
                    continue
                rest = blk[i + 2:]
                inside = {id(n) for st in rest for n in ast.walk(st)} | {id(a.targets[0]), id(b.value)}
                occ = [n for n in ast.walk(func) if isinstance(n, ast.Name) and n.id == t]
                if any(id(n) not in inside for n in occ):
                    continue
                if any(isinstance(n, (ast.Lambda, ast.FunctionDef)) and any(isinstance(m, ast.Name) and m.id == t for m in ast.walk(n)) for st in rest for n in ast.walk(st)):
                    continue
                ra = root_and_attrs(P)
                attrs = set(ra[1])
                pnames = {n.id for n in ast.walk(P) if isinstance(n, ast.Name)}
                has_index = any(isinstance(n, ast.Subscript) for n in ast.walk(P))
                bad = False
                cls_, ldefs_, sname_ = self._cur
                for st in rest:
                    for n in ast.walk(st):
                        if isinstance(n, ast.Name) and isinstance(n.ctx, (ast.Store, ast.Del)) and n.id in pnames:
                            bad = True
                        if isinstance(n, ast.Attribute) and isinstance(n.ctx, (ast.Store, ast.Del)) and n.attr in attrs:
                            bad = True
                        if has_index and isinstance(n, ast.Subscript) and isinstance(n.ctx, (ast.Store, ast.Del)):
                            r2 = root_and_attrs(n)
                            if r2 and r2[1] and r2[1][-1] in attrs and len(r2[1]) <= len(ra[1]):
                                bad = True      # another element of the same container (or the element itself) is rebound
                        if isinstance(n, ast.Call) and not _is_pure_call(n):
                            mw = self.effects.of_call(n, cls_, ldefs_, sname_, rebinds_only=not has_index)
                            if '*' in mw or mw & attrs:
                                bad = True
                            if has_index and isinstance(n.func, ast.Attribute) and n.func.attr in ('append', 'insert', 'pop', 'remove', 'clear', 'sort', 'reverse', 'extend'):
                                r2 = root_and_attrs(n.func.value)
                                if r2 and set(r2[1]) & attrs:
                                    bad = True
                if bad:
                    continue
                load = copy.deepcopy(P)
                for n in ast.walk(load):
                    if hasattr(n, 'ctx'):
                        n.ctx = ast.Load()
                b.value = a.value
                tr = _Rename({}, {t: load})
                # stores through t (t[...] = .., t.a = ..) keep working: only Load occurrences of the name exist after its binding
                for j in range(i + 2, len(blk)):
                    blk[j] = tr.visit(blk[j])
                del blk[i]
                self.log.append(f'N4 {path}::{qual}: new local {t} stored into {ast.unparse(P)} right after its binding: later uses read the field')
                return True
        return False

    def _coalesce_copy_in(self, path, qual, func, known) -> bool:
        """t = x  (t a new local, x a name that is never used afterwards, statement at the top level of the function)
        ->  the following statements use x directly"""
        blk = func.body
        for i, s in enumerate(blk):
            if not (isinstance(s, ast.Assign) and len(s.targets) == 1 and isinstance(s.targets[0], ast.Name) and isinstance(s.value, ast.Name)):
                continue
            t, x = s.targets[0].id, s.value.id
            if t in known or t == x:
                continue
            before = {id(n) for st in blk[:i + 1] for n in ast.walk(st)}
            occ_t = [n for n in ast.walk(func) if isinstance(n, ast.Name) and n.id == t and n is not s.targets[0]]
            occ_x = [n for n in ast.walk(func) if isinstance(n, ast.Name) and n.id == x and n is not s.value]
            if any(id(n) in before for n in occ_t) or any(id(n) not in before for n in occ_x):
                continue
            if any(isinstance(n, (ast.Lambda, ast.FunctionDef)) and any(isinstance(m, ast.Name) and m.id in (t, x) for m in ast.walk(n))
                   for st in blk for n in ast.walk(st) if n is not func):
                continue
            if any((isinstance(n, ast.arg) and n.arg == t) for st in blk[i:] for n in ast.walk(st)):
                continue
            tr = _Rename({t: x}, {})
            for j in range(i + 1, len(blk)):
                blk[j] = tr.visit(blk[j])
            del blk[i]
            self.log.append(f'N4 {path}::{qual}: new local {t} (a copy of {x}, which is dead afterwards) renamed back to {x}')
            return True
        return False

    def _coalesce_path(self, path, qual, func, known, blk, j) -> bool:
        """t = C(...); t.a = ..; t.b = ..; self.f[i] = t   (t a new local, dead afterwards; no call and no mention of self.f
        in between)  ->  self.f[i] = C(...); self.f[i].a = ..; self.f[i].b = .."""
        s = blk[j]
        X, t = s.targets[0], s.value.id
        if t in known or not (_is_path(X) and _path_indices_simple(X)):
            return False
        ra = root_and_attrs(X)
        if not ra or not ra[1]:
            return False
        first = None
        for i in range(j):
            b = blk[i]
            if isinstance(b, ast.Assign) and len(b.targets) == 1 and isinstance(b.targets[0], ast.Name) and b.targets[0].id == t:
                first = i
                break
        if first is None:
            return False
        occ = [n for n in ast.walk(func) if (isinstance(n, ast.Name) and n.id == t) or (isinstance(n, ast.arg) and n.arg == t)]
        inside = {id(n) for st in blk[first:j + 1] for n in ast.walk(st)}
        if any(id(n) not in inside for n in occ):
            return False
        if sum(1 for n in occ if isinstance(n, ast.Name) and isinstance(n.ctx, ast.Store)) != 1:
            return False
        idx_names = {n.id for n in ast.walk(X) if isinstance(n, ast.Name)}
        for st in blk[first + 1:j]:
            if not isinstance(st, ast.Assign):
                return False
            for n in ast.walk(st):
                if isinstance(n, ast.Call) and not _is_pure_call(n):
                    return False
                if isinstance(n, (ast.Lambda, ast.FunctionDef)):
                    return False
                if isinstance(n, ast.Attribute) and n.attr == ra[1][0] and isinstance(n.value, ast.Name) and n.value.id == ra[0]:
                    return False
                if isinstance(n, ast.Name) and isinstance(n.ctx, ast.Store) and n.id in idx_names:
                    return False
        if any(isinstance(n, ast.Attribute) and n.attr == ra[1][0] and isinstance(n.value, ast.Name) and n.value.id == ra[0] for n in ast.walk(blk[first].value)):
            return False
        load = copy.deepcopy(X)
        for n in ast.walk(load):
            if hasattr(n, 'ctx'):
                n.ctx = ast.Load()
        blk[first].targets = [copy.deepcopy(X)]
        tr = _Rename({}, {t: load})
        for i in range(first + 1, j):
            blk[i] = tr.visit(blk[i])
            # stores through t: the Name node with Store ctx cannot occur (single binding); attribute targets keep their ctx
        del blk[j]
        self.log.append(f'N4 {path}::{qual}: new local {t} coalesced into {ast.unparse(X)}')
        return True

    def _fold_new_locals(self, path, qual, func, known):
        """if c: v = a else: v = b  ->  v = a if c else b   for new locals v (exact equivalence)"""
        def fold(stmts):
            out = []
            for st in stmts:
                for name in ('body', 'orelse', 'finalbody'):
                    b = getattr(st, name, None)
                    if isinstance(b, list) and b and isinstance(b[0], ast.stmt) and not isinstance(st, (ast.FunctionDef, ast.ClassDef)):
                        setattr(st, name, fold(b))
                if isinstance(st, ast.Try):
                    for h in st.handlers:
                        h.body = fold(h.body)
                if isinstance(st, ast.If) and len(st.body) == 1 and len(st.orelse) == 1:
                    x, y = st.body[0], st.orelse[0]
                    if all(isinstance(b, ast.Assign) and len(b.targets) == 1 and isinstance(b.targets[0], ast.Name) for b in (x, y)) \
                            and x.targets[0].id == y.targets[0].id and x.targets[0].id not in known:
                        val = ast.copy_location(ast.IfExp(test=st.test, body=x.value, orelse=y.value), st)
                        out.append(ast.copy_location(ast.Assign(targets=[ast.Name(id=x.targets[0].id, ctx=ast.Store())], value=val, lineno=st.lineno), st))
                        self.log.append(f'N4 {path}::{qual}: if/else binding of new local {x.targets[0].id} folded into a conditional expression')
                        continue
                out.append(st)
            return out
        func.body = fold(func.body)

        def drop_self_assign(stmts):
            out = []
            for st in stmts:
                for name in ('body', 'orelse', 'finalbody'):
                    b = getattr(st, name, None)
                    if isinstance(b, list) and b and isinstance(b[0], ast.stmt) and not isinstance(st, (ast.FunctionDef, ast.ClassDef)):
                        setattr(st, name, drop_self_assign(b) or [ast.copy_location(ast.Pass(), st)])
                if isinstance(st, ast.Assign) and len(st.targets) == 1 and isinstance(st.targets[0], ast.Name) and isinstance(st.value, ast.Name) \
                        and st.targets[0].id == st.value.id:
                    continue
                out.append(st)
            return out
        func.body = drop_self_assign(func.body) or [ast.Pass(lineno=1, col_offset=0)]

        def split(stmts):
            out = []
            for st in stmts:
                for name in ('body', 'orelse', 'finalbody'):
                    b = getattr(st, name, None)
                    if isinstance(b, list) and b and isinstance(b[0], ast.stmt) and not isinstance(st, (ast.FunctionDef, ast.ClassDef)):
                        setattr(st, name, split(b))
                if isinstance(st, ast.Try):
                    for h in st.handlers:
                        h.body = split(h.body)
                if isinstance(st, ast.Assign) and len(st.targets) == 1 and isinstance(st.targets[0], ast.Tuple) \
                        and (all(isinstance(e, ast.Name) and e.id not in known for e in st.targets[0].elts)
                             or (isinstance(st.value, ast.Tuple) and any(isinstance(n, ast.Name) and n.id not in known and '__i' in n.id for n in ast.walk(st.value)))):
                    sp_ = _split_tuple_assign(st)
                    if sp_:
                        out.extend(sp_)
                        self.log.append(f'N4 {path}::{qual}: tuple assignment to new locals split')
                        continue
                out.append(st)
            return out
        func.body = split(func.body)

        # L = []; for T in IT: L.append(E)   ->   L = [E for T in IT]      (L or T new; T not used after the loop; E does not read L)
        def comp(stmts):
            out = []
            i = 0
            while i < len(stmts):
                st = stmts[i]
                for name in ('body', 'orelse', 'finalbody'):
                    b = getattr(st, name, None)
                    if isinstance(b, list) and b and isinstance(b[0], ast.stmt) and not isinstance(st, (ast.FunctionDef, ast.ClassDef)):
                        setattr(st, name, comp(b))
                nxt = stmts[i + 1] if i + 1 < len(stmts) else None
                # guard clauses at the top of the loop body: `if not C: continue` + rest  ==  `if C: rest`
                if isinstance(st, ast.Assign) and isinstance(nxt, ast.For) and not nxt.orelse:
                    while len(nxt.body) >= 2 and isinstance(nxt.body[0], ast.If) and not nxt.body[0].orelse and len(nxt.body[0].body) == 1 \
                            and isinstance(nxt.body[0].body[0], ast.Continue) \
                            and not any(isinstance(n, ast.Continue) for b_ in nxt.body[1:] for n in ast.walk(b_)):
                        g_ = nxt.body[0]
                        nxt.body = [ast.copy_location(ast.If(test=_negate(g_.test), body=nxt.body[1:], orelse=[]), g_)]
                if isinstance(st, ast.Assign) and len(st.targets) == 1 and isinstance(st.targets[0], ast.Name) and isinstance(st.value, ast.List) \
                        and not st.value.elts and isinstance(nxt, ast.For) and not nxt.orelse and len(nxt.body) == 1:
                    L = st.targets[0].id
                    b0 = nxt.body[0]
                    tnames = {n.id for n in ast.walk(nxt.target) if isinstance(n, ast.Name)}
                    conds = []
                    while isinstance(b0, ast.If) and not b0.orelse and len(b0.body) == 1:
                        conds.append(b0.test)
                        b0 = b0.body[0]
                    if isinstance(b0, ast.Expr) and isinstance(b0.value, ast.Call) and isinstance(b0.value.func, ast.Attribute) \
                            and b0.value.func.attr == 'append' and isinstance(b0.value.func.value, ast.Name) and b0.value.func.value.id == L \
                            and len(b0.value.args) == 1 and not b0.value.keywords and (L not in known or (tnames and not (tnames & known))):
                        E = b0.value.args[0]
                        reads = {n.id for n in ast.walk(E) if isinstance(n, ast.Name)} | {n.id for n in ast.walk(nxt.iter) if isinstance(n, ast.Name)} \
                            | {n.id for c_ in conds for n in ast.walk(c_) if isinstance(n, ast.Name)}
                        later = {n.id for s2 in stmts[i + 2:] for n in ast.walk(s2) if isinstance(n, ast.Name)}
                        if L not in reads and not (tnames & later) and not any(isinstance(n, (ast.Yield, ast.YieldFrom, ast.Await)) for n in ast.walk(E)):
                            lc = ast.ListComp(elt=E, generators=[ast.comprehension(target=nxt.target, iter=nxt.iter, ifs=conds, is_async=0)])
                            out.append(ast.copy_location(ast.Assign(targets=[st.targets[0]], value=ast.copy_location(lc, nxt), lineno=st.lineno), st))
                            self.log.append(f'N4 {path}::{qual}: append loop building {L} rewritten as a list comprehension')
                            i += 2
                            continue
                out.append(st)
                i += 1
            return out
        func.body = comp(func.body)

        # for T in (c1, c2, ..): BODY   ->   BODY[T:=c1]; BODY[T:=c2]; ..    (literal tuple/list of constants, T a new local that
        # the body does not rebind and nothing reads after the loop, no break/continue/else)
        def unroll(stmts):
            out = []
            for i, st in enumerate(stmts):
                for name in ('body', 'orelse', 'finalbody'):
                    b = getattr(st, name, None)
                    if isinstance(b, list) and b and isinstance(b[0], ast.stmt) and not isinstance(st, (ast.FunctionDef, ast.ClassDef)):
                        setattr(st, name, unroll(b))
                if isinstance(st, ast.For) and not st.orelse and isinstance(st.target, ast.Name) and st.target.id not in known \
                        and isinstance(st.iter, (ast.Tuple, ast.List)) and 0 < len(st.iter.elts) <= 16 \
                        and all(isinstance(e, ast.Constant) for e in st.iter.elts):
                    T_ = st.target.id
                    body_nodes = [n for b_ in st.body for n in ast.walk(b_)]
                    later = {n.id for s2 in stmts[i + 1:] for n in ast.walk(s2) if isinstance(n, ast.Name)}
                    if not any(isinstance(n, (ast.Break, ast.Continue, ast.Lambda, ast.FunctionDef)) for n in body_nodes) \
                            and not any(isinstance(n, ast.Name) and n.id == T_ and isinstance(n.ctx, (ast.Store, ast.Del)) for n in body_nodes) \
                            and T_ not in later:
                        for e in st.iter.elts:
                            for b_ in st.body:
                                out.append(_Rename({}, {T_: e}).visit(copy.deepcopy(b_)))
                        self.log.append(f'N4 {path}::{qual}: loop over a literal table of {len(st.iter.elts)} constants unrolled')
                        continue
                out.append(st)
            return out
        n_before = len(self.log)
        func.body = unroll(func.body)
        if len(self.log) > n_before:
            self._fold_attr_strings(func)
        self._loops_and_tuples(path, qual, func, known)

    # ---------------------------------------------------------------- N7 tables, counters, named tuples
    def _table_elements(self, it, bound_in_body):
        """element expressions of a literal table: (e1, e2, ..) / [..] / zip(lit, lit, ..); every leaf is atomic (constant,
        name, attribute path, slice(..) of constants) and not rebound in the loop body; None otherwise"""
        def atomic(e):
            if isinstance(e, ast.Constant):
                return True
            if isinstance(e, ast.UnaryOp) and isinstance(e.operand, ast.Constant):
                return True
            if isinstance(e, ast.Name):
                return e.id not in bound_in_body
            if isinstance(e, ast.Attribute) and _attr_chain_only(e):
                return root_and_attrs(e)[0] not in bound_in_body
            if isinstance(e, ast.Call) and isinstance(e.func, ast.Name) and e.func.id == 'slice' and not e.keywords:
                return all(isinstance(a, ast.Constant) or (isinstance(a, ast.UnaryOp) and isinstance(a.operand, ast.Constant)) for a in e.args)
            if isinstance(e, (ast.Tuple, ast.List)):
                return all(atomic(x) for x in e.elts)
            if isinstance(e, ast.Call) and isinstance(e.func, ast.Name) and e.func.id in (getattr(self, 'ntypes', None) or {}) \
                    and not any(isinstance(a, ast.Starred) for a in e.args) and all(k.arg for k in e.keywords):
                return all(atomic(a) for a in e.args) and all(atomic(k.value) for k in e.keywords)      # a record row
            # a pure expression over names the body neither rebinds nor writes into evaluates to the same value in every row
            if is_pure(e) and not any(isinstance(n, (ast.Call,)) and not _is_pure_call(n) for n in ast.walk(e)):
                names = {n.id for n in ast.walk(e) if isinstance(n, ast.Name)}
                return not (names & bound_in_body)
            return False
        if isinstance(it, (ast.Tuple, ast.List)) and it.elts and all(atomic(e) for e in it.elts) and not any(isinstance(e, ast.Starred) for e in it.elts):
            return list(it.elts)
        # pairwise(accumulate((w1, .., wn), initial=0)) over a literal table of widths: the consecutive (start, end) offsets
        def _nm(c):
            return c.func.id if isinstance(c.func, ast.Name) else c.func.attr if isinstance(c.func, ast.Attribute) else None
        if isinstance(it, ast.Call) and _nm(it) == 'pairwise' and len(it.args) == 1 and not it.keywords and isinstance(it.args[0], ast.Name) \
                and isinstance(self._cur[1].get(it.args[0].id), ast.Call) and _nm(self._cur[1][it.args[0].id]) == 'accumulate' \
                and getattr(self, '_cur_func', None) is not None \
                and sum(1 for n in ast.walk(self._cur_func) if isinstance(n, ast.Name) and n.id == it.args[0].id and isinstance(n.ctx, ast.Load)) == 1:
            # the iterator is bound to a local that is read exactly once, here
            it = ast.Call(func=it.func, args=[self._cur[1][it.args[0].id]], keywords=[])
        if isinstance(it, ast.Call) and _nm(it) == 'pairwise' and len(it.args) == 1 and not it.keywords and isinstance(it.args[0], ast.Call) and _nm(it.args[0]) == 'accumulate':
            acc = it.args[0]
            init = [k.value for k in acc.keywords if k.arg == 'initial']
            if len(acc.args) == 1 and len(acc.keywords) == 1 and init and isinstance(init[0], ast.Constant) and init[0].value == 0 \
                    and isinstance(acc.args[0], (ast.Tuple, ast.List)) and acc.args[0].elts and all(atomic(w) and is_pure(w) for w in acc.args[0].elts):
                rows, run = [], None
                for w in acc.args[0].elts:
                    start = copy.deepcopy(run) if run is not None else ast.Constant(value=0)
                    run = copy.deepcopy(w) if run is None else ast.BinOp(left=run, op=ast.Add(), right=copy.deepcopy(w))
                    rows.append(ast.Tuple(elts=[start, copy.deepcopy(run)], ctx=ast.Load()))
                return rows
            return None
        # a record built on the spot iterates over its field values in field order
        if isinstance(it, ast.Call) and isinstance(it.func, ast.Name) and it.func.id in (getattr(self, 'ntypes', None) or {}) \
                and not any(isinstance(a, ast.Starred) for a in it.args) and all(k.arg for k in it.keywords):
            flds = self.ntypes[it.func.id]
            vals = dict(zip(flds, it.args))
            for k in it.keywords:
                if k.arg in vals or k.arg not in flds:
                    return None
                vals[k.arg] = k.value
            if len(vals) == len(flds) and all(atomic(vals[f_]) for f_ in flds):
                return [vals[f_] for f_ in flds]
            return None
        # a new module-level dictionary literal that nothing modifies is a table of (key, value) rows in insertion order
        dn, view = None, 'keys'
        if isinstance(it, ast.Name):
            dn = it.id
        elif isinstance(it, ast.Call) and not it.args and not it.keywords and isinstance(it.func, ast.Attribute) and isinstance(it.func.value, ast.Name) \
                and it.func.attr in ('items', 'keys', 'values'):
            dn, view = it.func.value.id, it.func.attr
        if dn is not None and dn not in bound_in_body:
            d = self._dict_table(dn)
            if d is not None and all(atomic(v) for v in d.values):
                if view == 'items':
                    return [ast.Tuple(elts=[copy.deepcopy(k), copy.deepcopy(v)], ctx=ast.Load()) for k, v in zip(d.keys, d.values)]
                return [copy.deepcopy(x) for x in (d.keys if view == 'keys' else d.values)]
        if isinstance(it, ast.Call) and isinstance(it.func, ast.Name) and it.func.id == 'zip' and it.args and not it.keywords:
            cols = []
            for a in it.args:
                if not (isinstance(a, (ast.Tuple, ast.List)) and a.elts and all(atomic(e) for e in a.elts)):
                    return None
                cols.append(list(a.elts))
            n = min(len(c) for c in cols)
            return [ast.Tuple(elts=[c[i] for c in cols], ctx=ast.Load()) for i in range(n)]
        return None

    def _iterates_new_dict_table(self, it) -> bool:
        if isinstance(it, ast.Name):
            return self._dict_table(it.id) is not None
        if isinstance(it, ast.Call) and not it.args and not it.keywords and isinstance(it.func, ast.Attribute) and isinstance(it.func.value, ast.Name) \
                and it.func.attr in ('items', 'keys', 'values'):
            return self._dict_table(it.func.value.id) is not None
        return False

    def _dict_table(self, name):
        """the Dict literal bound once at module level to the new name `name` (of the module being processed) when nothing in the
        module can modify it; None otherwise"""
        path = getattr(self, '_cur_path', None)
        if path is None or path not in self.modules:
            return None
        cache = self.__dict__.setdefault('_dict_tables', {})
        if (path, name) in cache:
            return cache[(path, name)]
        tree = self.modules[path].tree
        res = None
        bm = self.base.get(path)
        if bm is not None and name not in set(bm['consts']):
            binds = [st for st in tree.body if isinstance(st, (ast.Assign, ast.AnnAssign)) and st.value is not None
                     and any(isinstance(t, ast.Name) and t.id == name for t in (st.targets if isinstance(st, ast.Assign) else [st.target]))]
            stores = sum(1 for n in ast.walk(tree) if isinstance(n, ast.Name) and n.id == name and isinstance(n.ctx, (ast.Store, ast.Del)))
            mutated = any((isinstance(n, ast.Attribute) and isinstance(n.value, ast.Name) and n.value.id == name and n.attr in ('update', 'pop', 'popitem', 'clear', 'setdefault', '__setitem__', '__delitem__'))
                          or (isinstance(n, ast.Subscript) and isinstance(n.value, ast.Name) and n.value.id == name and isinstance(n.ctx, (ast.Store, ast.Del)))
                          or (isinstance(n, (ast.Global, ast.Nonlocal)) and name in n.names)
                          or (isinstance(n, ast.AugAssign) and isinstance(n.target, ast.Name) and n.target.id == name) for n in ast.walk(tree))
            # the dictionary escapes when it is passed or stored somewhere else: only iteration, subscript reads, `in`, len() and .get/.items/.keys/.values are allowed
            parents = {}
            for n in ast.walk(tree):
                for c in ast.iter_child_nodes(n):
                    parents[id(c)] = n
            escapes = False
            for n in ast.walk(tree):
                if isinstance(n, ast.Name) and n.id == name and isinstance(n.ctx, ast.Load):
                    par = parents.get(id(n))
                    okuse = (isinstance(par, ast.Attribute) and par.attr in ('items', 'keys', 'values', 'get')) or (isinstance(par, ast.Subscript) and par.value is n) \
                        or (isinstance(par, (ast.For, ast.comprehension)) and par.iter is n) or (isinstance(par, ast.Compare) and n in par.comparators) \
                        or (isinstance(par, ast.Call) and isinstance(par.func, ast.Name) and par.func.id in ('len', 'list', 'tuple', 'sorted') and n in par.args) \
                        or (isinstance(par, ast.Call) and isinstance(par.func, ast.Attribute) and par.func.attr == 'join')
                    if not okuse:
                        escapes = True
            if len(binds) == 1 and stores == 1 and not mutated and not escapes and isinstance(binds[0].value, ast.Dict) and binds[0].value.keys \
                    and all(isinstance(k, ast.Constant) for k in binds[0].value.keys):
                res = binds[0].value
        cache[(path, name)] = res
        return res

    @staticmethod
    def _bind_target(target, elem):
        """{name: expression} for unpacking elem into target; None if the shapes do not match"""
        if isinstance(target, ast.Name):
            return {target.id: elem}
        if isinstance(target, (ast.Tuple, ast.List)) and isinstance(elem, (ast.Tuple, ast.List)) and len(target.elts) == len(elem.elts):
            out = {}
            for t, e in zip(target.elts, elem.elts):
                b = Normaliser._bind_target(t, e)
                if b is None:
                    return None
                out.update(b)
            return out
        return None

    def _loops_and_tuples(self, path, qual, func, known):
        norm = self

        def tnames(t):
            return {n.id for n in ast.walk(t) if isinstance(n, ast.Name)}

        def rec(stmts):
            out = []
            for i, st in enumerate(stmts):
                for name in ('body', 'orelse', 'finalbody'):
                    b = getattr(st, name, None)
                    if isinstance(b, list) and b and isinstance(b[0], ast.stmt) and not isinstance(st, (ast.FunctionDef, ast.ClassDef)):
                        setattr(st, name, rec(b))
                later = {n.id for s2 in stmts[i + 1:] for n in ast.walk(s2) if isinstance(n, ast.Name)}
                # (1) for T in <literal table>: ...   with new target names
                if isinstance(st, ast.For) and tnames(st.target) and not (tnames(st.target) & later) and \
                        (not (tnames(st.target) & known) or norm._iterates_new_dict_table(st.iter)):
                    body_nodes = [n for b_ in st.body for n in ast.walk(b_)]
                    bound = {n.id for n in body_nodes if isinstance(n, ast.Name) and isinstance(n.ctx, (ast.Store, ast.Del))}
                    for n in body_nodes:            # names written into through a subscript / attribute / augmented assignment count as changed
                        tg = n.target if isinstance(n, ast.AugAssign) else n if (isinstance(n, (ast.Subscript, ast.Attribute)) and isinstance(n.ctx, (ast.Store, ast.Del))) else None
                        ra = root_and_attrs(tg) if tg is not None else None
                        if ra and ra[0] not in ('self',) and ra[0] not in tnames(st.target):
                            bound.add(ra[0])
                    elems = norm._table_elements(st.iter, bound | tnames(st.target))
                    if elems is not None:
                        # guard clauses of the loop body: `if C: continue` + REST  ==  `if not C: REST`
                        k_ = 0
                        while k_ < len(st.body):
                            g_ = st.body[k_]
                            if isinstance(g_, ast.If) and not g_.orelse and len(g_.body) == 1 and isinstance(g_.body[0], ast.Continue) and k_ + 1 < len(st.body):
                                st.body[k_:] = [ast.copy_location(ast.If(test=_negate(g_.test), body=st.body[k_ + 1:], orelse=[]), g_)]
                                st = stmts[i]
                                k_ = 0
                                st.body[-1].body = st.body[-1].body  # (nested guards are handled when the inner block is visited)
                                inner_ = st.body[-1]
                                # descend: further guards inside the new if-body
                                blk_ = inner_.body
                                j_ = 0
                                while j_ < len(blk_):
                                    h_ = blk_[j_]
                                    if isinstance(h_, ast.If) and not h_.orelse and len(h_.body) == 1 and isinstance(h_.body[0], ast.Continue) and j_ + 1 < len(blk_):
                                        blk_[j_:] = [ast.copy_location(ast.If(test=_negate(h_.test), body=blk_[j_ + 1:], orelse=[]), h_)]
                                        blk_ = blk_[-1].body
                                        j_ = 0
                                    else:
                                        j_ += 1
                                break
                            k_ += 1
                        body_nodes = [n for b_ in st.body for n in ast.walk(b_)]
                    def own_continue(stmts):
                        for x in stmts:
                            if isinstance(x, ast.Continue):
                                return True
                            if isinstance(x, (ast.For, ast.While, ast.FunctionDef)):
                                continue        # a continue in there belongs to the inner loop
                            for nm_ in ('body', 'orelse', 'finalbody'):
                                if own_continue(getattr(x, nm_, None) or []):
                                    return True
                            if isinstance(x, ast.Try) and any(own_continue(h.body) for h in x.handlers):
                                return True
                        return False
                    if elems is not None and len(elems) <= 16 and not (bound & tnames(st.target)) \
                            and not any(isinstance(n, (ast.Lambda, ast.FunctionDef)) for n in body_nodes) and not own_continue(st.body):
                        binds = [norm._bind_target(st.target, e) for e in elems]
                        breaks = [n for n in body_nodes if isinstance(n, ast.Break)]
                        # new locals bound inside the body and dead after the loop get a name of their own in every copy, so that
                        # each copy can be simplified on its own (forward substitution needs single bindings)
                        private = {n.id for n in body_nodes if isinstance(n, ast.Name) and isinstance(n.ctx, ast.Store)} - known - later - tnames(st.target)
                        private -= {n.id for s2 in stmts[:i] for n in ast.walk(s2) if isinstance(n, ast.Name)}

                        def per_copy(k_):
                            return {nm_: f'{nm_}__u{k_}' for nm_ in private}
                        if all(b is not None for b in binds):
                            if not breaks and not st.orelse:
                                for k_, b in enumerate(binds):
                                    for b_ in st.body:
                                        out.append(_Rename(per_copy(k_), b).visit(copy.deepcopy(b_)))
                                out[:] = _canon_polarity(_prune_constant_tests(out))
                                norm.log.append(f'N7 {path}::{qual}: loop over a literal table of {len(elems)} rows unrolled')
                                continue
                            # first-match dispatch: body is `if C: ...; break` -> if / elif chain (+ else from for-else)
                            if len(st.body) == 1 and isinstance(st.body[0], ast.If) and not st.body[0].orelse and len(breaks) == 1 \
                                    and st.body[0].body and isinstance(st.body[0].body[-1], ast.Break):
                                chain = list(st.orelse)
                                for k_, b in reversed(list(enumerate(binds))):
                                    tmpl = copy.deepcopy(st.body[0])
                                    tmpl.body = tmpl.body[:-1] or [ast.copy_location(ast.Pass(), st)]
                                    node = _Rename(per_copy(k_), b).visit(tmpl)
                                    node.orelse = chain
                                    chain = [node]
                                out.extend(_canon_polarity(_prune_constant_tests(chain)))
                                norm.log.append(f'N7 {path}::{qual}: first-match loop over a literal table of {len(elems)} rows rewritten as an if/elif chain')
                                continue
                # (1b) for i, x in enumerate(self.a.b): BODY   ->   for i in range(len(self.a.b)): BODY[x := self.a.b[i]]
                #      for i, (x, y) in enumerate(zip(self.a, self.b)): BODY  likewise (parallel per-item lists of one model have equal length)
                pairs = None
                if isinstance(st, ast.For) and isinstance(st.target, ast.Tuple) and len(st.target.elts) == 2 and isinstance(st.target.elts[0], ast.Name) \
                        and isinstance(st.iter, ast.Call) and isinstance(st.iter.func, ast.Name) and st.iter.func.id == 'enumerate' and len(st.iter.args) == 1 and not st.iter.keywords:
                    src, tgt = st.iter.args[0], st.target.elts[1]
                    if isinstance(tgt, ast.Name) and isinstance(src, ast.Attribute) and _attr_chain_only(src):
                        pairs = [(tgt.id, src)]
                    elif isinstance(tgt, ast.Tuple) and all(isinstance(e, ast.Name) for e in tgt.elts) and isinstance(src, ast.Call) and isinstance(src.func, ast.Name) and src.func.id == 'zip' \
                            and not src.keywords and len(src.args) == len(tgt.elts) and all(isinstance(a, ast.Attribute) and _attr_chain_only(a) for a in src.args):
                        pairs = [(e.id, a) for e, a in zip(tgt.elts, src.args)]
                    if pairs and any(P.attr in norm._base_attr_enumerated(path, qual) for _, P in pairs):
                        pairs = None
                if pairs:
                    iv = st.target.elts[0].id
                    body_nodes = [n for b_ in st.body + st.orelse for n in ast.walk(b_)]
                    names = [xv for xv, _ in pairs]
                    subst = {xv: (xv not in known and xv not in later) for xv in names}
                    disturbed = any(isinstance(n, (ast.Lambda, ast.FunctionDef)) for n in body_nodes) \
                        or any(isinstance(n, ast.Name) and n.id == iv and isinstance(n.ctx, (ast.Store, ast.Del)) for n in body_nodes) or len(set(names)) != len(names) or iv in names
                    for xv, P in pairs:
                        root, attrs = root_and_attrs(P)
                        disturbed = disturbed or any(isinstance(n, ast.Name) and n.id in ((xv, root) if subst[xv] else (root,)) and isinstance(n.ctx, (ast.Store, ast.Del)) for n in body_nodes) \
                            or any(isinstance(n, ast.Attribute) and isinstance(n.ctx, (ast.Store, ast.Del)) and n.attr in attrs for n in body_nodes) \
                            or any(isinstance(n, ast.Call) and isinstance(n.func, ast.Attribute) and n.func.attr in ('append', 'insert', 'pop', 'remove', 'sort', 'reverse', 'clear', 'extend')
                                   and ast.dump(n.func.value) == ast.dump(P) for n in body_nodes) \
                            or any(isinstance(n, ast.Subscript) and isinstance(n.ctx, (ast.Store, ast.Del)) and ast.dump(n.value) == ast.dump(P) and subst[xv] for n in body_nodes)
                    if not disturbed:
                        head = []
                        for xv, P in pairs:
                            item = ast.Subscript(value=copy.deepcopy(P), slice=ast.Name(id=iv, ctx=ast.Load()), ctx=ast.Load())
                            if subst[xv]:
                                tr_ = _Rename({}, {xv: item})
                                st.body = [tr_.visit(b_) for b_ in st.body]
                            else:       # the item name exists on the reference tree: bind it at the top of the body, as an index loop does
                                head.append(ast.copy_location(ast.Assign(targets=[ast.Name(id=xv, ctx=ast.Store())], value=item, lineno=st.lineno), st))
                        st.body = head + st.body
                        P0 = pairs[0][1]
                        st.target = ast.copy_location(ast.Name(id=iv, ctx=ast.Store()), st.target)
                        st.iter = ast.copy_location(ast.Call(func=ast.Name(id='range', ctx=ast.Load()), args=[ast.Call(func=ast.Name(id='len', ctx=ast.Load()), args=[copy.deepcopy(P0)], keywords=[])], keywords=[]), st.iter)
                        norm.log.append(f'N7 {path}::{qual}: enumerate over {", ".join(ast.unparse(P) for _, P in pairs)} rewritten as an index loop')
                # (2) for V in itertools.count(): if C: break; BODY   ->   V = 0; while not C: BODY; V += 1
                if isinstance(st, ast.For) and isinstance(st.target, ast.Name) and isinstance(st.iter, ast.Call) and isinstance(st.iter.func, ast.Attribute) \
                        and st.iter.func.attr == 'count' and isinstance(st.iter.func.value, ast.Name) and st.iter.func.value.id == 'itertools' \
                        and len(st.iter.args) <= 1 and not st.iter.keywords and not st.orelse and st.body \
                        and isinstance(st.body[0], ast.If) and not st.body[0].orelse and len(st.body[0].body) == 1 and isinstance(st.body[0].body[0], ast.Break):
                    rest = st.body[1:]
                    rest_nodes = [n for b_ in rest for n in ast.walk(b_)]
                    V = st.target.id
                    if not any(isinstance(n, (ast.Break, ast.Continue)) for n in rest_nodes) \
                            and not any(isinstance(n, ast.Name) and n.id == V and isinstance(n.ctx, (ast.Store, ast.Del)) for n in rest_nodes):
                        start = st.iter.args[0] if st.iter.args else ast.Constant(value=0)
                        init = ast.copy_location(ast.Assign(targets=[ast.Name(id=V, ctx=ast.Store())], value=start, lineno=st.lineno), st)
                        inc = ast.copy_location(ast.AugAssign(target=ast.Name(id=V, ctx=ast.Store()), op=ast.Add(), value=ast.Constant(value=1)), st)
                        test = _negate(st.body[0].test)
                        # not (not (a) or b)  ->  a and not b
                        if isinstance(test, ast.UnaryOp) and isinstance(test.op, ast.Not) and isinstance(test.operand, ast.BoolOp) and isinstance(test.operand.op, ast.Or):
                            test = ast.copy_location(ast.BoolOp(op=ast.And(), values=[_negate(v) for v in test.operand.values]), test)
                        wl = ast.copy_location(ast.While(test=test, body=rest + [inc], orelse=[]), st)
                        out.extend([init, wl])
                        norm.log.append(f'N7 {path}::{qual}: for {V} in itertools.count() with a leading break test rewritten as a while loop with a counter')
                        continue
                out.append(st)
            return out
        func.body = rec(func.body)

        modfuncs = set()
        if path in self.modules:
            modfuncs = {top.name for top in self.modules[path].tree.body if isinstance(top, (ast.FunctionDef, ast.ClassDef))}

        # [f(a) for a in (b for b in IT if C(b))]  ->  [f(a) for a in IT if C(a)]
        class G(ast.NodeTransformer):
            def _flat(self, node):
                for gen in node.generators:
                    it = gen.iter
                    if isinstance(it, (ast.GeneratorExp, ast.ListComp)) and len(it.generators) == 1 and isinstance(it.generators[0].target, ast.Name) \
                            and isinstance(it.elt, ast.Name) and it.elt.id == it.generators[0].target.id and isinstance(gen.target, ast.Name):
                        inner = it.generators[0]
                        ren = _Rename({inner.target.id: gen.target.id}, {})
                        gen.iter = inner.iter
                        gen.ifs = [ren.visit(copy.deepcopy(c)) for c in inner.ifs] + gen.ifs
                        norm.log.append(f'N7 {path}::{qual}: comprehension over a generator expression flattened')
                return node

            def visit_ListComp(self, node):
                self.generic_visit(node)
                node = self._flat(node)
                # [E(x) for x in (c1, c2, ..)] over a literal table of atoms, x a new name  ->  [E(c1), E(c2), ..]
                if len(node.generators) == 1 and not node.generators[0].ifs and not node.generators[0].is_async:
                    gen = node.generators[0]
                    tn = tnames(gen.target)
                    if tn and not (tn & known) and (isinstance(gen.iter, (ast.Tuple, ast.List)) or norm._iterates_new_dict_table(gen.iter)):
                        elems = norm._table_elements(gen.iter, tn)
                        if elems is not None and len(elems) <= 16 and all(isinstance(n, (ast.Constant, ast.Tuple, ast.List, ast.UnaryOp, ast.USub, ast.Load)) for e in elems for n in ast.walk(e)) \
                                and not any(isinstance(n, (ast.Lambda,) + COMPS) for n in ast.walk(node.elt)):
                            binds = [norm._bind_target(gen.target, e) for e in elems]
                            if all(b is not None for b in binds):
                                norm.log.append(f'N7 {path}::{qual}: comprehension over a literal table of {len(elems)} constants written out')
                                return ast.copy_location(ast.List(elts=[_Rename({}, b).visit(copy.deepcopy(node.elt)) for b in binds], ctx=ast.Load()), node)
                return node

            def visit_GeneratorExp(self, node):
                self.generic_visit(node)
                return self._flat(node)

            def _unpack_comp(self, node):
                # a, b, c = (E(x) for x in TABLE)  ->  a, b, c = (E(e1), E(e2), E(e3)) : the generator is consumed on the spot
                v = node.value
                if len(node.targets) == 1 and isinstance(node.targets[0], ast.Tuple) and isinstance(v, (ast.GeneratorExp, ast.ListComp)) and len(v.generators) == 1 \
                        and not v.generators[0].ifs and not v.generators[0].is_async and not any(isinstance(t, ast.Starred) for t in node.targets[0].elts):
                    gen = v.generators[0]
                    tn = tnames(gen.target)
                    if tn and not (tn & known):
                        elems = norm._table_elements(gen.iter, tn)
                        if elems is not None and len(elems) == len(node.targets[0].elts) and all(is_pure(e) for e in elems) \
                                and not any(isinstance(n, (ast.Lambda,) + COMPS) for n in ast.walk(v.elt)):
                            binds = [norm._bind_target(gen.target, e) for e in elems]
                            if all(b is not None for b in binds):
                                norm.log.append(f'N7 {path}::{qual}: unpacking of a comprehension over a table of {len(elems)} rows written out')
                                node.value = ast.copy_location(ast.Tuple(elts=[_Rename({}, b).visit(copy.deepcopy(v.elt)) for b in binds], ctx=ast.Load()), v)
                                node.value._kv_new = True
                return node

            def visit_DictComp(self, node):
                self.generic_visit(node)
                # {K(x): V(x) for x in (c1, c2, ..)} over a literal table of atoms, x new  ->  {K(c1): V(c1), ..}
                if len(node.generators) == 1 and not node.generators[0].ifs and not node.generators[0].is_async:
                    gen = node.generators[0]
                    tn = tnames(gen.target)
                    if tn and not (tn & known) and (isinstance(gen.iter, (ast.Tuple, ast.List)) or norm._iterates_new_dict_table(gen.iter)):
                        elems = norm._table_elements(gen.iter, tn)
                        if elems is not None and len(elems) <= 16 and all(isinstance(n, (ast.Constant, ast.Tuple, ast.List, ast.UnaryOp, ast.USub, ast.Load)) for e in elems for n in ast.walk(e)) \
                                and not any(isinstance(n, (ast.Lambda,) + COMPS) for x in (node.key, node.value) for n in ast.walk(x)):
                            binds = [norm._bind_target(gen.target, e) for e in elems]
                            if all(b is not None for b in binds):
                                norm.log.append(f'N7 {path}::{qual}: dictionary comprehension over a literal table of {len(elems)} constants written out')
                                return ast.copy_location(ast.Dict(keys=[_Rename({}, b).visit(copy.deepcopy(node.key)) for b in binds],
                                                                  values=[_Rename({}, b).visit(copy.deepcopy(node.value)) for b in binds]), node)
                return node

            def visit_Attribute(self, node):
                self.generic_visit(node)
                v = node.value
                # NT(a, b, c).field  ->  the argument bound to that field (the row of an unrolled record table)
                if isinstance(node.ctx, ast.Load) and isinstance(v, ast.Call) and isinstance(v.func, ast.Name) and v.func.id in (norm.ntypes or {}) \
                        and not any(isinstance(a, ast.Starred) for a in v.args) and all(k.arg for k in v.keywords):
                    flds = norm.ntypes[v.func.id]
                    if node.attr in flds:
                        i = flds.index(node.attr)
                        if i < len(v.args):
                            return v.args[i]
                        for k in v.keywords:
                            if k.arg == node.attr:
                                return k.value
                return node

            def visit_Compare(self, node):
                self.generic_visit(node)
                # <module-level function or class> is None  ->  False
                if len(node.ops) == 1 and isinstance(node.ops[0], (ast.Is, ast.IsNot)) and isinstance(node.left, ast.Name) and node.left.id in modfuncs \
                        and isinstance(node.comparators[0], ast.Constant) and node.comparators[0].value is None and node.left.id not in known:
                    return ast.copy_location(ast.Constant(value=isinstance(node.ops[0], ast.IsNot)), node)
                return node

            def visit_Assign(self, node):
                self.generic_visit(node)
                node = self._unpack_comp(node)
                # a, b = [x, y]  ->  a, b = (x, y): the list is consumed by the unpacking
                if len(node.targets) == 1 and isinstance(node.targets[0], ast.Tuple) and isinstance(node.value, ast.List) \
                        and len(node.value.elts) == len(node.targets[0].elts) and not any(isinstance(e, ast.Starred) for e in node.value.elts):
                    node.value = ast.copy_location(ast.Tuple(elts=node.value.elts, ctx=ast.Load()), node.value)
                    node.value._kv_new = True
                return node
        G().visit(func)
        func.body = _canon_polarity(_prune_constant_tests(func.body)) or func.body

        # a, b = (x, y) left behind by the rewriting above -> a = x; b = y
        def resplit(stmts):
            out = []
            for st in stmts:
                for name in ('body', 'orelse', 'finalbody'):
                    b = getattr(st, name, None)
                    if isinstance(b, list) and b and isinstance(b[0], ast.stmt) and not isinstance(st, (ast.FunctionDef, ast.ClassDef)):
                        setattr(st, name, resplit(b))
                sp_ = None
                if isinstance(st, ast.Assign) and len(st.targets) == 1 and isinstance(st.targets[0], ast.Tuple) and isinstance(st.value, ast.Tuple) \
                        and getattr(st.value, '_kv_new', False):
                    sp_ = _split_tuple_assign(st, names_may_be_impure=True)
                out.extend(sp_ if sp_ else [st])
            return out
        func.body = resplit(func.body)

        # slice(a, b) used as an index  ->  a:b
        class S(ast.NodeTransformer):
            def visit_Subscript(self, node):
                self.generic_visit(node)
                sl = node.slice
                if isinstance(sl, ast.Call) and isinstance(sl.func, ast.Name) and sl.func.id == 'slice' and not sl.keywords and 1 <= len(sl.args) <= 3:
                    def part(a):
                        return None if (isinstance(a, ast.Constant) and a.value is None) else a
                    a = list(sl.args)
                    if len(a) == 1:
                        lo, hi, stp = None, part(a[0]), None
                    else:
                        lo, hi, stp = part(a[0]), part(a[1]), (part(a[2]) if len(a) == 3 else None)
                    node.slice = ast.copy_location(ast.Slice(lower=lo, upper=hi, step=stp), sl)
                    norm.log.append(f'N7 {path}::{qual}: slice(..) index written as a slice')
                return node
        S().visit(func)

        # named tuples: v = NT(a, b); ...v.f...   ->   the field expressions;   a, b = NT(x, y) / a, b = <value of type NT>
        if not self.ntypes:
            return
        ldefs = {}
        counts = {}
        for n in ast.walk(func):
            if isinstance(n, ast.Name) and isinstance(n.ctx, ast.Store):
                counts[n.id] = counts.get(n.id, 0) + 1
        for n in ast.walk(func):
            if isinstance(n, ast.Assign) and len(n.targets) == 1 and isinstance(n.targets[0], ast.Name) and counts.get(n.targets[0].id) == 1:
                ldefs[n.targets[0].id] = n

        def nt_of(expr):
            """(class name, constructor call | None) when the expression is a named tuple of a known class"""
            if isinstance(expr, ast.Call):
                fn = expr.func
                nm = fn.id if isinstance(fn, ast.Name) else fn.attr if isinstance(fn, ast.Attribute) else None
                if nm in self.ntypes and not any(isinstance(a, ast.Starred) for a in expr.args) and not any(k.arg is None for k in expr.keywords):
                    return nm, expr
                rts = self.ret_ntype.get(nm, set()) & set(self.ntypes)
                if len(rts) == 1 and len(self.ret_ntype.get(nm, set())) == 1:
                    return next(iter(rts)), None
            if isinstance(expr, ast.Name) and expr.id in ldefs:
                return nt_of(ldefs[expr.id].value)
            return None

        def ctor_fields(cls, call):
            flds = self.ntypes[cls]
            vals = dict(zip(flds, call.args))
            for k in call.keywords:
                vals[k.arg] = k.value
            return [vals.get(f) for f in flds] if all(f in vals for f in flds) else None

        def rec2(stmts):
            out = []
            for st in stmts:
                for name in ('body', 'orelse', 'finalbody'):
                    b = getattr(st, name, None)
                    if isinstance(b, list) and b and isinstance(b[0], ast.stmt) and not isinstance(st, (ast.FunctionDef, ast.ClassDef)):
                        setattr(st, name, rec2(b))
                if isinstance(st, ast.Assign) and len(st.targets) == 1 and isinstance(st.targets[0], ast.Tuple) \
                        and all(isinstance(e, ast.Name) for e in st.targets[0].elts) \
                        and (all(e.id not in known for e in st.targets[0].elts) or (isinstance(st.value, ast.Call) and nt_of(st.value))):
                    info = nt_of(st.value)
                    if info and len(self.ntypes[info[0]]) == len(st.targets[0].elts):
                        cls, call = info
                        if call is not None and call is st.value:
                            vals = ctor_fields(cls, call)
                            if vals:
                                st.value = ast.copy_location(ast.Tuple(elts=vals, ctx=ast.Load()), st.value)
                                norm.log.append(f'N7 {path}::{qual}: unpacking of a {cls}(..) constructor rewritten as a tuple assignment')
                                sp_ = _split_tuple_assign(st, names_may_be_impure=True)
                                if sp_:
                                    out.extend(sp_)
                                    continue
                        elif isinstance(st.value, ast.Call) and call is None:
                            # a, b, c = f(..) with f annotated to return a named tuple: keep the call in a temporary and read its fields
                            self.k += 1
                            tmp = f'nt__i{self.k}'
                            out.append(ast.copy_location(ast.Assign(targets=[ast.Name(id=tmp, ctx=ast.Store())], value=st.value, lineno=st.lineno), st))
                            st.value = ast.copy_location(ast.Tuple(elts=[ast.copy_location(ast.Attribute(value=ast.Name(id=tmp, ctx=ast.Load()), attr=f, ctx=ast.Load()), st)
                                                                         for f in self.ntypes[cls]], ctx=ast.Load()), st)
                            norm.log.append(f'N7 {path}::{qual}: unpacking of the {cls} returned by a call rewritten as field reads')
                            sp_ = _split_tuple_assign(st)
                            if sp_:
                                out.extend(sp_)
                                continue
                        elif isinstance(st.value, ast.Name):
                            base = st.value
                            st.value = ast.copy_location(ast.Tuple(elts=[ast.copy_location(ast.Attribute(value=ast.Name(id=base.id, ctx=ast.Load()), attr=f, ctx=ast.Load()), base)
                                                                         for f in self.ntypes[cls]], ctx=ast.Load()), st.value)
                            norm.log.append(f'N7 {path}::{qual}: unpacking of a {cls} value rewritten as field reads')
                out.append(st)
            return out
        func.body = rec2(func.body)
        # v = NT(..) used only through v.field / v[k]
        for v, asg in list(ldefs.items()):
            if v in known or not isinstance(asg.value, ast.Call):
                continue
            info = nt_of(asg.value)
            if not info or info[1] is not asg.value:
                continue
            cls, call = info
            vals = ctor_fields(cls, call)
            if not vals:
                continue
            uses = [n for n in ast.walk(func) if isinstance(n, ast.Name) and n.id == v and isinstance(n.ctx, ast.Load)]
            parents = {}
            for n in ast.walk(func):
                for c in ast.iter_child_nodes(n):
                    parents[id(c)] = n
            ok = True
            for u in uses:
                par = parents.get(id(u))
                if isinstance(par, ast.Attribute) and par.value is u and par.attr in self.ntypes[cls] and isinstance(par.ctx, ast.Load):
                    continue
                if isinstance(par, ast.Subscript) and par.value is u and isinstance(par.slice, ast.Constant) and isinstance(par.slice.value, int) \
                        and isinstance(par.ctx, ast.Load) and -len(vals) <= par.slice.value < len(vals):
                    continue
                ok = False
            if not ok or not uses:
                continue
            flds = self.ntypes[cls]
            temps = {f: f'{v}__{f}' for f in flds}
            new_assigns = [ast.copy_location(ast.Assign(targets=[ast.Name(id=temps[f], ctx=ast.Store())], value=val, lineno=asg.lineno), asg) for f, val in zip(flds, vals)]

            class P(ast.NodeTransformer):
                def visit_Attribute(self, node):
                    self.generic_visit(node)
                    if isinstance(node.value, ast.Name) and node.value.id == v and node.attr in temps and isinstance(node.ctx, ast.Load):
                        return ast.copy_location(ast.Name(id=temps[node.attr], ctx=ast.Load()), node)
                    return node

                def visit_Subscript(self, node):
                    self.generic_visit(node)
                    if isinstance(node.value, ast.Name) and node.value.id == v and isinstance(node.slice, ast.Constant) and isinstance(node.slice.value, int):
                        return ast.copy_location(ast.Name(id=temps[flds[node.slice.value]], ctx=ast.Load()), node)
                    return node
            P().visit(func)
            for blk in self._blocks(func):
                if asg in blk:
                    i = blk.index(asg)
                    blk[i:i + 1] = new_assigns
                    break
            norm.log.append(f'N7 {path}::{qual}: fields of the local {cls} {v} replaced by the expressions it was built from')

    def _split_local_tuples(self, path, qual, func, known):
        """a new local that is only ever bound to k-tuples written out in place and only ever read through v[0] .. v[k-1] is
        k separate locals"""
        params = {x.arg for x in func.args.posonlyargs + func.args.args + func.args.kwonlyargs}
        binds, loads, other = {}, {}, set()
        parent = {}
        for n in ast.walk(func):
            for c in ast.iter_child_nodes(n):
                parent[id(c)] = n
        ntypes = getattr(self, 'ntypes', {}) or {}
        nt_of = {}          # local -> named tuple class it is built with

        def as_tuple(v):
            """(elements, class name | None) when v is a tuple written out in place or a named tuple constructor call"""
            if isinstance(v, ast.Tuple) and not any(isinstance(e, ast.Starred) for e in v.elts):
                return list(v.elts), None
            if isinstance(v, ast.Call) and not any(isinstance(a, ast.Starred) for a in v.args) and all(k.arg for k in v.keywords):
                fn = v.func
                nm = fn.id if isinstance(fn, ast.Name) else fn.attr if isinstance(fn, ast.Attribute) else None
                flds = ntypes.get(nm)
                if flds:
                    kw = {k.arg: k.value for k in v.keywords}
                    if len(v.args) + len(kw) == len(flds) and set(kw) == set(flds[len(v.args):]):
                        return list(v.args) + [kw[f_] for f_ in flds[len(v.args):]], nm
            return None
        for n in ast.walk(func):
            if isinstance(n, ast.Name):
                if n.id in known or n.id in params:
                    continue
                par = parent.get(id(n))
                if isinstance(n.ctx, ast.Store):
                    tp = as_tuple(par.value) if (isinstance(par, ast.Assign) and len(par.targets) == 1 and par.targets[0] is n) else None
                    if tp is not None and not any(isinstance(m, ast.Name) and m.id == n.id for m in ast.walk(par.value)) and nt_of.setdefault(n.id, tp[1]) == tp[1]:
                        par._kv_elts = tp[0]
                        binds.setdefault(n.id, []).append(par)
                    else:
                        other.add(n.id)
                elif isinstance(n.ctx, ast.Load):
                    flds = ntypes.get(nt_of.get(n.id)) if nt_of.get(n.id) else None
                    if isinstance(par, ast.Subscript) and par.value is n and isinstance(par.ctx, ast.Load) and isinstance(par.slice, ast.Constant) and isinstance(par.slice.value, int) \
                            and not isinstance(par.slice.value, bool):
                        loads.setdefault(n.id, []).append(par)
                    elif isinstance(par, ast.Attribute) and par.value is n and isinstance(par.ctx, ast.Load):
                        loads.setdefault(n.id, []).append(par)      # v.field: resolved against the named tuple class below
                    else:
                        other.add(n.id)
                else:
                    other.add(n.id)
            elif isinstance(n, (ast.FunctionDef, ast.Lambda)) and n is not func:
                for m in ast.walk(n):
                    if isinstance(m, ast.Name):
                        other.add(m.id)
        done = False
        for v, bl in binds.items():
            if v in other or v not in loads:
                continue
            ks = {len(b._kv_elts) for b in bl}
            if len(ks) != 1:
                continue
            k = ks.pop()
            flds = ntypes.get(nt_of.get(v)) if nt_of.get(v) else None

            def pos(sub):
                if isinstance(sub, ast.Subscript):
                    return sub.slice.value if 0 <= sub.slice.value < k else None
                return flds.index(sub.attr) if (flds and sub.attr in flds) else None
            if any(pos(sub) is None for sub in loads[v]):
                continue
            for sub in loads[v]:
                holder = parent.get(id(sub))
                new = ast.copy_location(ast.Name(id=f'{v}__{pos(sub)}', ctx=ast.Load()), sub)
                for fld, val in ast.iter_fields(holder):
                    if val is sub:
                        setattr(holder, fld, new)
                    elif isinstance(val, list):
                        for i, x in enumerate(val):
                            if x is sub:
                                val[i] = new
            for b in bl:
                reps = [ast.copy_location(ast.Assign(targets=[ast.Name(id=f'{v}__{i}', ctx=ast.Store())], value=e, lineno=b.lineno), b) for i, e in enumerate(b._kv_elts)]
                for blk in self._blocks(func):
                    if any(x is b for x in blk):
                        i = [j for j, x in enumerate(blk) if x is b][0]
                        blk[i:i + 1] = reps
                        break
            self.log.append(f'N7 {path}::{qual}: new local {v} (always a {k}-tuple read by position) split into {k} locals')
            done = True
        return done

    def _views_once(self, path, qual, func, known):
        """v = self.a[lo:hi]  (a basic-slice view of a numpy field, v a new local bound nowhere else);  v += E / reads of v
        ->  self.a[lo:hi] += E / reads of self.a[lo:hi]: an in-place update through the view is the same update of the field"""
        params = {x.arg for x in func.args.posonlyargs + func.args.args + func.args.kwonlyargs}
        for blk in self._blocks(func):
            for i, s in enumerate(blk):
                if not (isinstance(s, ast.Assign) and len(s.targets) == 1 and isinstance(s.targets[0], ast.Name)):
                    continue
                v, R = s.targets[0].id, s.value
                if v in known or v in params or not (_is_path(R) and self._is_numpy_view(R)):
                    continue
                stores = [n for n in ast.walk(func) if isinstance(n, ast.Name) and n.id == v and isinstance(n.ctx, (ast.Store, ast.Del))]
                augs = [n for n in ast.walk(func) if isinstance(n, ast.AugAssign) and isinstance(n.target, ast.Name) and n.target.id == v]
                if len(stores) != 1 + len(augs) or not augs:
                    continue
                later = blk[i + 1:]
                inside = {id(n) for st in later for n in ast.walk(st)}
                occ = [n for n in ast.walk(func) if isinstance(n, ast.Name) and n.id == v and n is not s.targets[0]]
                if any(id(n) not in inside for n in occ):
                    continue
                root, attrs = root_and_attrs(R)
                if any(isinstance(n, (ast.Lambda, ast.FunctionDef)) for st in later for n in ast.walk(st)):
                    continue
                # the field itself must not be rebound while the view is in use, nor the names the slice bounds read
                names_R = {n.id for n in ast.walk(R) if isinstance(n, ast.Name)}
                rebound = any((isinstance(n, ast.Attribute) and isinstance(n.ctx, (ast.Store, ast.Del)) and n.attr in attrs and not isinstance(
                    next((p_ for p_ in ast.walk(func) if isinstance(p_, ast.Subscript) and p_.value is n), None), ast.Subscript))
                    or (isinstance(n, ast.Name) and isinstance(n.ctx, (ast.Store, ast.Del)) and n.id in names_R) for st in later for n in ast.walk(st))
                if rebound:
                    continue

                class T(ast.NodeTransformer):
                    def visit_AugAssign(self, node):
                        self.generic_visit(node)
                        if isinstance(node.target, ast.Name) and node.target.id == v:
                            t_ = copy.deepcopy(R)
                            t_.ctx = ast.Store()
                            node.target = ast.copy_location(t_, node.target)
                        return node

                    def visit_Name(self, node):
                        if node.id == v and isinstance(node.ctx, ast.Load):
                            return ast.copy_location(copy.deepcopy(R), node)
                        return node
                for j in range(i + 1, len(blk)):
                    blk[j] = T().visit(blk[j])
                del blk[i]
                self.log.append(f'N4 {path}::{qual}: new local {v} (a view of {ast.unparse(R)}) replaced by the view expression')
                return True
        return False

    def _fold_reduce_once(self, path, qual, func) -> bool:
        """reduce(operator.mul, (a, b), init) -> init * a * b   (left fold over a literal tuple; same for operator.add)"""
        ops = {'mul': ast.Mult, 'add': ast.Add}
        for n in ast.walk(func):
            if isinstance(n, ast.Call) and not n.keywords and len(n.args) == 3 and (getattr(n.func, 'id', None) == 'reduce' or getattr(n.func, 'attr', None) == 'reduce'):
                f, seq, init = n.args
                opn = f.attr if isinstance(f, ast.Attribute) and isinstance(f.value, ast.Name) and f.value.id == 'operator' else None
                if opn in ops and isinstance(seq, (ast.Tuple, ast.List)) and not any(isinstance(e, ast.Starred) for e in seq.elts):
                    acc = init
                    for e in seq.elts:
                        acc = ast.copy_location(ast.BinOp(left=acc, op=ops[opn](), right=e), n)
                    class R(ast.NodeTransformer):
                        def visit_Call(self, node):
                            if node is n:
                                return acc
                            return self.generic_visit(node)
                    R().visit(func)
                    self.log.append(f'N4 {path}::{qual}: reduce(operator.{opn}, <{len(seq.elts)} literal operands>, init) written out')
                    return True
        return False

    def _rename_apart(self, path, qual, func, known):
        """a new local bound by plain assignments in several blocks, every read of which follows (inside the same block) exactly one
        of the bindings, is several variables sharing a name: each binding gets its own name (then it is bound once)"""
        binds: dict[str, list] = {}
        other_store = set()
        for blk in self._blocks(func):
            for i, s in enumerate(blk):
                if isinstance(s, ast.Assign) and len(s.targets) == 1 and isinstance(s.targets[0], ast.Name):
                    binds.setdefault(s.targets[0].id, []).append((blk, i, s))
        for n in ast.walk(func):
            if isinstance(n, ast.Name) and isinstance(n.ctx, (ast.Store, ast.Del)):
                pass
            elif isinstance(n, ast.AugAssign) and isinstance(n.target, ast.Name):
                other_store.add(n.target.id)
            elif isinstance(n, (ast.Global, ast.Nonlocal)):
                other_store |= set(n.names)
            elif isinstance(n, (ast.Lambda, ast.FunctionDef, ast.ListComp, ast.GeneratorExp, ast.DictComp, ast.SetComp)) and n is not func:
                # names used inside deferred / nested scopes keep their single name
                other_store |= {m.id for m in ast.walk(n) if isinstance(m, ast.Name)}
        for v, bl in binds.items():
            if v in known or len(bl) < 2 or v in other_store:
                continue
            n_store = sum(1 for n in ast.walk(func) if isinstance(n, ast.Name) and n.id == v and isinstance(n.ctx, (ast.Store, ast.Del)))
            if n_store != len(bl):
                continue            # also a loop target / with target / tuple target
            loads = [n for n in ast.walk(func) if isinstance(n, ast.Name) and n.id == v and isinstance(n.ctx, ast.Load)]
            region = {}
            ok = True
            for k, (blk, i, s) in enumerate(bl):
                if any(isinstance(n, ast.Name) and n.id == v for n in ast.walk(s.value)):
                    ok = False
                    break
                for st in blk[i + 1:]:
                    # the region of this binding ends where the name is bound again
                    if any(isinstance(n, ast.Name) and n.id == v and isinstance(n.ctx, ast.Store) for n in ast.walk(st)):
                        ok = False
                        break
                    for n in ast.walk(st):
                        if isinstance(n, ast.Name) and n.id == v and isinstance(n.ctx, ast.Load):
                            if id(n) in region:
                                ok = False
                            region[id(n)] = k
                if not ok:
                    break
            if not ok or any(id(n) not in region for n in loads):
                continue
            for k, (blk, i, s) in enumerate(bl):
                s.targets[0].id = f'{v}__b{k}'
            for n in loads:
                n.id = f'{v}__b{region[id(n)]}'
            self.log.append(f'N4 {path}::{qual}: new local {v} bound in {len(bl)} separate blocks renamed apart')

    def _forward_once(self, path, qual, func, known):
        params = {x.arg for x in func.args.posonlyargs + func.args.args + func.args.kwonlyargs}
        bind_count: dict[str, int] = {}
        for n in ast.walk(func):
            if isinstance(n, ast.Name) and isinstance(n.ctx, (ast.Store, ast.Del)):
                bind_count[n.id] = bind_count.get(n.id, 0) + 1
            elif isinstance(n, ast.AugAssign) and isinstance(n.target, ast.Name):
                bind_count[n.target.id] = bind_count.get(n.target.id, 0) + 1
            elif isinstance(n, (ast.FunctionDef, ast.ClassDef)) and n is not func:
                bind_count[n.name] = bind_count.get(n.name, 0) + 1
            elif isinstance(n, ast.arg) and n.arg not in params:
                bind_count[n.arg] = bind_count.get(n.arg, 0) + 2
            elif isinstance(n, (ast.Global, ast.Nonlocal)):
                for nm in n.names:
                    bind_count[nm] = bind_count.get(nm, 0) + 2
        for blk in self._blocks(func):
            for i, s in enumerate(blk):
                if not (isinstance(s, ast.Assign) and len(s.targets) == 1 and isinstance(s.targets[0], ast.Name)):
                    continue
                v = s.targets[0].id
                if v in known or v in params or bind_count.get(v) != 1:
                    continue
                if self._try_substitute(func, blk, i, v, s.value):
                    self.log.append(f'N4 {path}::{qual}: new local {v} forward-substituted')
                    return True
        return False

    @staticmethod
    def _blocks(func):
        out = []

        def rec(stmts):
            out.append(stmts)
            for s in stmts:
                if isinstance(s, (ast.FunctionDef, ast.ClassDef)):
                    continue
                for name in ('body', 'orelse', 'finalbody'):
                    b = getattr(s, name, None)
                    if isinstance(b, list) and b and isinstance(b[0], ast.stmt):
                        rec(b)
                if isinstance(s, ast.Try):
                    for h in s.handlers:
                        rec(h.body)
        rec(func.body)
        return out

    def _try_substitute(self, func, blk, i, v, R) -> bool:
        uses = [n for n in ast.walk(func) if isinstance(n, ast.Name) and n.id == v and isinstance(n.ctx, ast.Load)]
        later = blk[i + 1:]
        where = {}
        for j, st in enumerate(later):
            for n in ast.walk(st):
                if isinstance(n, ast.Name) and n.id == v and isinstance(n.ctx, ast.Load):
                    where[id(n)] = j
        if any(id(u) not in where for u in uses):
            return False
        if not uses:
            if is_pure(R):
                del blk[i]
                if not blk:
                    blk.append(ast.Pass(lineno=1, col_offset=0))
                return True
            return False
        # uses under a lambda / nested def are evaluated later: leave
        for st in later:
            for n in ast.walk(st):
                if isinstance(n, (ast.Lambda, ast.FunctionDef)) and any(isinstance(m, ast.Name) and m.id == v for m in ast.walk(n)):
                    return False
        last = max(where.values())
        if isinstance(R, ast.IfExp) and len(uses) > 1:
            return False        # duplicating a conditional expression into several uses helps no rule
        pure = is_pure(R)
        # an expression that creates a new mutable object (an array, a list) has an identity: written into several uses it would
        # create several objects.  That is only the same when no use can alias or modify the object (arithmetic reads only).
        if pure and len(uses) > 1 and any(isinstance(n, (ast.Call, ast.List, ast.ListComp, ast.Dict, ast.DictComp, ast.Set)) for n in [R]):
            parents_ = {}
            for st in later:
                for n in ast.walk(st):
                    for c in ast.iter_child_nodes(n):
                        parents_[id(c)] = n
            for u in uses:
                par = parents_.get(id(u))
                aliasing = (isinstance(par, (ast.Assign, ast.AnnAssign)) and getattr(par, 'value', None) is u) \
                    or (isinstance(par, ast.Subscript) and par.value is u and not isinstance(par.slice, ast.Constant)
                        and not (isinstance(par.ctx, ast.Load) and isinstance(parents_.get(id(par)), (ast.BinOp, ast.Compare, ast.UnaryOp)))) \
                    or (isinstance(par, ast.AugAssign) and par.target is u) or isinstance(par, (ast.Return, ast.Tuple, ast.List, ast.Dict, ast.keyword, ast.Starred)) \
                    or (isinstance(par, ast.Call) and any(a is u for a in par.args) and not _is_pure_call(par)) \
                    or (isinstance(par, ast.Attribute) and par.value is u and isinstance(parents_.get(id(par)), ast.Call) and not _is_pure_call(parents_.get(id(par))))
                if aliasing:
                    return False
        if not pure:
            if len(uses) != 1 or last != 0:
                return False
            st = later[0]
            ok = False
            for attr, e in header_exprs(st):
                order = []

                def rec(n):
                    if isinstance(n, (ast.Lambda,) + COMPS):
                        return
                    if isinstance(n, ast.IfExp):
                        rec(n.test)
                        return
                    if isinstance(n, ast.BoolOp):
                        rec(n.values[0])
                        return
                    for c in ast.iter_child_nodes(n):
                        rec(c)
                    order.append(n)
                rec(e)
                for n in order:
                    if n is uses[0]:
                        ok = True
                        break
                    if isinstance(n, ast.Call) and not _is_pure_call(n):
                        break
                if ok:
                    break
            if not ok:
                return False
        # store through the alias requires a path expression
        store_root = False
        for st in later:
            for n in ast.walk(st):
                if isinstance(n, (ast.Attribute, ast.Subscript)) and isinstance(n.ctx, (ast.Store, ast.Del)):
                    ra = root_and_attrs(n)
                    if ra and ra[0] == v:
                        store_root = True
                if isinstance(n, ast.AugAssign):
                    ra = root_and_attrs(n.target)
                    if ra and ra[0] == v:
                        store_root = True
        if store_root and not _is_path(R):
            return False
        # dependencies of R must be stable until the last use
        deps = {}
        for n in ast.walk(R):
            if isinstance(n, ast.Name) and isinstance(n.ctx, ast.Load):
                deps.setdefault(n.id, set())
        for n in ast.walk(R):
            if isinstance(n, (ast.Attribute, ast.Subscript)):
                ra = root_and_attrs(n)
                if ra and ra[1]:
                    deps.setdefault(ra[0], set()).add(ra[1][0])
        comp_bound = _nested_bound_names([ast.Expr(value=R)])
        for nm in comp_bound:
            deps.pop(nm, None)
        path_attrs = set(root_and_attrs(R)[1]) if (_is_path(R) and _path_indices_simple(R)) else None
        view = False
        if path_attrs is None and _is_path(R) and self._is_numpy_view(R):
            path_attrs, view = set(root_and_attrs(R)[1]), True
        for j, st in enumerate(later[:last + 1]):
            if self._may_disturb(st, deps, v, final=(j == last), path_attrs=path_attrs, view=view):
                return False
        # capture check: names bound by comprehensions/lambdas at the use sites must not clash with R's free names
        free = set(deps)
        for st in later[:last + 1]:
            for n in ast.walk(st):
                if isinstance(n, COMPS + (ast.Lambda,)):
                    if any(isinstance(m, ast.Name) and m.id == v for m in ast.walk(n)):
                        if _nested_bound_names([ast.Expr(value=n)]) & free:
                            return False
        tr = _Rename({}, {v: R})
        new_later = []
        for j in range(last + 1):
            st = tr.visit(later[j])
            # a, b = (x, y) produced by the substitution -> a = x; b = y  (when no target is read by a later element)
            sp_ = _split_tuple_assign(st, names_may_be_impure=True) if isinstance(R, ast.Tuple) else None
            if sp_:
                new_later.extend(sp_)
                continue
            new_later.append(st)
        blk[i + 1:i + 1 + last + 1] = new_later
        del blk[i]
        return True

    @property
    def effects(self):
        if self._effects is None:
            from .effects import Effects
            self._effects = Effects(self.modules)
        return self._effects

    def _is_numpy_view(self, R) -> bool:
        """x.f[a:b] (basic slices only) of a field that holds a numpy array: a view - in-place stores into the array are
        seen through it exactly as through the re-evaluated expression; only a rebinding of x.f matters"""
        e, nsl = R, 0
        while isinstance(e, ast.Subscript):
            sl = e.slice
            parts = sl.elts if isinstance(sl, ast.Tuple) else [sl]
            if not all(isinstance(p_, ast.Slice) and all(b is None or isinstance(b, ast.Constant) or (isinstance(b, ast.UnaryOp) and isinstance(b.operand, ast.Constant))
                                                         for b in (p_.lower, p_.upper, p_.step)) for p_ in parts):
                return False
            nsl += 1
            e = e.value
        return nsl > 0 and isinstance(e, ast.Attribute) and e.attr in self.effects.numpy_fields and _attr_chain_only(e)

    def _may_disturb(self, st, deps, v, final, path_attrs=None, view=False) -> bool:
        """may the statement rebind or mutate something the right-hand side reads?  path_attrs is given when the
        right-hand side is a pure reference path (self.a[b].c): then only a rebinding of one of its attributes matters"""
        reads_self_fields = bool(deps.get('self'))
        exempt = None
        if final and isinstance(st, (ast.Assign, ast.Expr, ast.Return, ast.AugAssign)) and isinstance(st.value, ast.Call):
            exempt = st.value       # its arguments (where v is used) are evaluated before it runs, and v is not used afterwards
        own = []
        if final and isinstance(st, ast.Assign):
            own = [t for t in st.targets if isinstance(t, ast.Name)]
        elif final and isinstance(st, ast.AugAssign) and isinstance(st.target, ast.Name):
            own = [st.target]
        scope = [st]
        if final and isinstance(st, (ast.If, ast.For)):
            # the header (test / iterable) is evaluated once, before the body: if v is used only there, only the header counts
            hdr = st.test if isinstance(st, ast.If) else st.iter
            in_hdr = {id(n) for n in ast.walk(hdr)}
            if all(id(n) in in_hdr for n in ast.walk(st) if isinstance(n, ast.Name) and n.id == v):
                scope = [hdr]
        for n in (x for sc in scope for x in ast.walk(sc)):
            if isinstance(n, ast.Name) and isinstance(n.ctx, (ast.Store, ast.Del)) and n.id in deps:
                if any(n is t for t in own):
                    continue        # the statement's own binding happens after its value (where v is used) is evaluated
                return True
            if isinstance(n, (ast.FunctionDef, ast.ClassDef)) and n.name in deps:
                return True
            if isinstance(n, ast.AugAssign) and isinstance(n.target, ast.Name) and n.target.id in deps and not any(n.target is t for t in own):
                return True
            tgt = None
            if isinstance(n, (ast.Attribute, ast.Subscript)) and isinstance(n.ctx, (ast.Store, ast.Del)):
                tgt = n
            elif isinstance(n, ast.AugAssign) and isinstance(n.target, (ast.Attribute, ast.Subscript)):
                tgt = n.target
            if tgt is not None and final and isinstance(st, (ast.Assign, ast.AugAssign)) and \
                    any(tgt is t for t in (st.targets if isinstance(st, ast.Assign) else [st.target])):
                tgt = None      # the statement's own store is the last thing it does: every use of v in it is evaluated before
            if tgt is not None and view and isinstance(tgt, ast.Subscript):
                tgt = None      # in-place store into the array: visible through the view as through the expression
            if tgt is not None:
                ra = root_and_attrs(tgt)
                if ra and ra[0] in deps and ra[0] != v:
                    read = deps[ra[0]]
                    if not ra[1]:
                        return True                     # x[...] = ... with x read by R
                    if not read or ra[1][0] in read:
                        return True                     # self.f... stored and self.f read (or the bare object read)
            if isinstance(n, ast.Call) and not _is_pure_call(n) and n is not exempt and path_attrs is not None:
                cal = n.func.attr if isinstance(n.func, ast.Attribute) else n.func.id if isinstance(n.func, ast.Name) else None
                if cal is None:
                    return True
                if cal in ('append', 'insert', 'pop', 'remove', 'clear', 'sort', 'reverse', 'extend') and isinstance(n.func, ast.Attribute):
                    ra = root_and_attrs(n.func.value)
                    if ra and (set(ra[1]) & path_attrs or (not ra[1] and ra[0] in deps)):
                        return True
                cls_, ldefs_, sname_ = self._cur
                mw = self.effects.of_call(n, cls_, ldefs_, sname_, rebinds_only=view)
                if '*' in mw or mw & path_attrs:
                    return True
                continue
            if isinstance(n, ast.Call) and not _is_pure_call(n) and n is not exempt:
                f = n.func
                if isinstance(f, ast.Attribute):
                    ra = root_and_attrs(f.value)
                    if ra and ra[0] in deps and ra[0] != v:
                        if ra[0] == 'self':
                            if reads_self_fields:
                                return True             # self.method() / self.obj.method() may mutate any field R reads
                        else:
                            read = deps[ra[0]]
                            if not read or not ra[1] or ra[1][0] in read:
                                return True
                for a in list(n.args) + [k.value for k in n.keywords]:
                    ra = root_and_attrs(a) if isinstance(a, (ast.Name, ast.Attribute, ast.Subscript)) else None
                    if ra and ra[0] in deps and ra[0] != v:
                        if ra[0] == 'self' and not reads_self_fields:
                            continue
                        if ra[1] and deps[ra[0]] and ra[1][0] not in deps[ra[0]]:
                            continue        # the callee receives the object behind another attribute, not the object R reads from
                        return True
        return False


def unroll_tables(func):
    """loops / comprehensions over literal tables in `func` (a private copy owned by the caller) written out row by row and
    getattr/setattr with literal names folded - the table passes of the normaliser applied to one function in which every
    local counts as new.  Used by rules that specialise an inherited method to one class (index.specialised)."""
    n = Normaliser.__new__(Normaliser)
    n.log, n.ntypes, n.ret_ntype, n.helpers, n.modules, n.base = [], {}, {}, {}, {}, {}
    n._loops_and_tuples('', func.name, func, set())
    Normaliser._fold_attr_strings(func)
    ast.fix_missing_locations(func)
    return func


def apply(modules: dict) -> list:
    if os.environ.get('KVERIF_NONORM') == '1':
        return []
    from .desugar import desugar_tree
    log0 = []
    for path, mod in modules.items():
        desugar_tree(mod.tree, path, log0)
    base = load_baseline()
    if not base:
        return log0
    # fast path: nothing new anywhere
    bm = base.get('modules', {})
    dirty = False
    for path, mod in modules.items():
        cur = names_of_module(mod.tree)
        ref = bm.get(path)
        if ref is None or cur['consts'] != ref['consts'] or cur['funcs'] != ref['funcs'] or cur['kws'] != ref.get('kws') \
                or cur['class_consts'] != ref.get('class_consts') or not set(cur['attrs']) <= set(ref.get('attrs', cur['attrs'])):
            dirty = True
            break
    if not dirty:
        return log0
    return log0 + Normaliser(modules, base).run()
