"""T-NULL: values that may be None must be tested before they are unpacked, subscripted or used in arithmetic."""
from __future__ import annotations
import ast
from . import astutil as U
from . import cfg as C


def _is_none(e):
    return e is None or (isinstance(e, ast.Constant) and e.value is None)


def return_kinds(func):
    """(may_none, may_value, delegates) - delegates: list of call nodes returned directly"""
    g = C.build(func)
    may_none = any(lab == 'fall' for _, lab in g.exit.pred)
    may_value = False
    delegates = []
    for n in U.walk_no_nested(func):
        if isinstance(n, ast.Return):
            if _is_none(n.value):
                may_none = True
            elif isinstance(n.value, ast.Tuple) and n.value.elts and all(_is_none(e) for e in n.value.elts):
                may_value = True     # (None, None): a tuple, not None - tracked separately by the caller if wanted
            else:
                may_value = True
                if isinstance(n.value, ast.Call):
                    delegates.append(n.value)
    return may_none, may_value, delegates


def nullable_functions(repo, index, purity):
    """{(path, qual)} of functions that return None on some path and a value on another (transitively through `return g(..)`)"""
    info = {}
    for p, q, f in repo.all_functions():
        if q.endswith('.__init__') or '/Plot' in p:
            continue
        info[(p, q)] = (f,) + return_kinds(f)
    nullable = {k for k, (f, mn, mv, d) in info.items() if mn and mv}
    changed = True
    while changed:
        changed = False
        for k, (f, mn, mv, delegates) in info.items():
            if k in nullable or not mv:
                continue
            cls_key = None
            if '.' in k[1]:
                try:
                    cls_key = index.class_key(k[0], k[1].split('.')[0])
                except Exception:
                    cls_key = None
            for c in delegates:
                if isinstance(c.func, ast.Name):
                    # nested helper defined inside the same function
                    for sub in ast.walk(f):
                        if isinstance(sub, ast.FunctionDef) and sub is not f and sub.name == c.func.id:
                            mn2, mv2, _ = return_kinds(sub)
                            if mn2 and k not in nullable:
                                nullable.add(k)
                                changed = True
                for (tp, tq, tf) in purity.targets(k[0], cls_key, c):
                    if (tp, tq) in nullable and k not in nullable:
                        nullable.add(k)
                        changed = True
    return nullable, info


def _test_facts(test, label):
    """names known to be non-None when the test evaluates to `label`"""
    out = set()
    if isinstance(test, ast.Compare) and len(test.ops) == 1 and _is_none(test.comparators[0]) and isinstance(test.left, ast.Name):
        if isinstance(test.ops[0], ast.IsNot) and label is True:
            out.add(test.left.id)
        if isinstance(test.ops[0], ast.Is) and label is False:
            out.add(test.left.id)
    elif isinstance(test, ast.BoolOp) and isinstance(test.op, ast.And) and label is True:
        for v in test.values:
            out |= _test_facts(v, True)
    elif isinstance(test, ast.BoolOp) and isinstance(test.op, ast.Or) and label is False:
        for v in test.values:
            out |= _test_facts(v, False)
    elif isinstance(test, ast.UnaryOp) and isinstance(test.op, ast.Not):
        out |= _test_facts(test.operand, (not label) if isinstance(label, bool) else label)
    return out


def unchecked_uses(func, is_nullable_call):
    """[(kind, node, callee name)] where the result of a nullable call reaches a sink without a None test"""
    g = C.build(func)
    # defs: var -> nodes assigning it from a nullable call
    defs = {}
    direct = []
    for n in g.nodes:
        a = n.ast
        if n.kind != 'stmt' or a is None:
            continue
        if isinstance(a, ast.Assign) and isinstance(a.value, ast.Call) and is_nullable_call(a.value):
            t = a.targets[0]
            if len(a.targets) == 1 and isinstance(t, ast.Name):
                defs.setdefault(t.id, []).append(n)
            elif isinstance(t, (ast.Tuple, ast.List)):
                direct.append(('unpack', a, U.call_name(a.value)))
        for sub in ast.walk(a):
            if isinstance(sub, ast.Subscript) and isinstance(sub.value, ast.Call) and is_nullable_call(sub.value):
                direct.append(('subscript', sub, U.call_name(sub.value)))
            if isinstance(sub, ast.BinOp):
                for side in (sub.left, sub.right):
                    if isinstance(side, ast.Call) and is_nullable_call(side):
                        direct.append(('arithmetic', sub, U.call_name(side)))
    out = list(direct)
    if not defs:
        return out
    tracked = set(defs)

    def gen(node, label):
        s = set()
        if node.kind == 'test':
            s |= {v for v in _test_facts(node.ast.test, label) if v in tracked}
        return s

    def kill(node, label):
        k = set()
        a = node.ast
        if node.kind == 'stmt' and isinstance(a, (ast.Assign, ast.AugAssign, ast.AnnAssign)):
            for t in U.flat_targets(a):
                if isinstance(t, ast.Name) and t.id in tracked:
                    k.add(t.id)
        if node.kind == 'for':
            k |= U.target_names(a.target) & tracked
        return k
    IN = must_forward_kill(g, gen, kill)
    # may-be-None reach: var is possibly None at node if a nullable def reaches it without reassignment
    reach = reaching_nullable(g, defs)
    for n in g.nodes:
        eff = C.simple_effect_node(n)
        if eff is None or n.kind in ('entry', 'exit'):
            continue
        facts = IN[n.id]
        if facts is None:
            continue
        for v in tracked:
            if v in facts or v not in reach.get(n.id, ()):
                continue
            for kind, node_ in sinks_of(eff, v, n):
                out.append((kind, node_, v))
    return out


def sinks_of(eff, v, cfgnode):
    res = []
    a = cfgnode.ast
    if cfgnode.kind == 'stmt' and isinstance(a, ast.Assign) and isinstance(a.value, ast.Name) and a.value.id == v \
            and isinstance(a.targets[0], (ast.Tuple, ast.List)):
        res.append(('unpack', a))
    for n in ast.walk(eff):
        if isinstance(n, ast.Subscript) and isinstance(n.value, ast.Name) and n.value.id == v and isinstance(n.ctx, ast.Load):
            res.append(('subscript', n))
        elif isinstance(n, ast.BinOp) and any(isinstance(s, ast.Name) and s.id == v for s in (n.left, n.right)):
            res.append(('arithmetic', n))
        elif isinstance(n, ast.Attribute) and isinstance(n.value, ast.Name) and n.value.id == v and isinstance(n.ctx, ast.Load):
            res.append(('attribute', n))
        elif isinstance(n, ast.Starred) and isinstance(n.value, ast.Name) and n.value.id == v:
            res.append(('unpack', n))
        elif isinstance(n, ast.For) and isinstance(n.iter, ast.Name) and n.iter.id == v:
            res.append(('iterate', n))
    if cfgnode.kind == 'for' and isinstance(cfgnode.ast.iter, ast.Name) and cfgnode.ast.iter.id == v:
        res.append(('iterate', cfgnode.ast))
    return res


def must_forward_kill(g, gen, kill):
    TOP = None
    IN = {n.id: TOP for n in g.nodes}
    IN[g.entry.id] = frozenset()
    work = [g.entry.id]
    while work:
        nid = work.pop()
        node = g.node(nid)
        cur = IN[nid]
        if cur is TOP:
            continue
        for succ, label in node.succ:
            out = (cur - frozenset(kill(node, label))) | frozenset(gen(node, label))
            old = IN[succ]
            new = out if old is TOP else (old & out)
            if old is TOP or new != old:
                IN[succ] = new
                work.append(succ)
    return IN


def reaching_nullable(g, defs):
    """{node id: set(vars that may still hold the result of a nullable call on entry to the node)}"""
    reach = {n.id: set() for n in g.nodes}
    work = []
    for v, nodes in defs.items():
        for n in nodes:
            for succ, _ in n.succ:
                if v not in reach[succ]:
                    reach[succ].add(v)
                    work.append((succ, v))
    while work:
        nid, v = work.pop()
        node = g.node(nid)
        a = node.ast
        killed = False
        if node.kind == 'stmt' and isinstance(a, (ast.Assign, ast.AugAssign, ast.AnnAssign)):
            if any(isinstance(t, ast.Name) and t.id == v for t in U.flat_targets(a)) and node not in defs.get(v, []):
                killed = True
        if killed:
            continue
        for succ, _ in node.succ:
            if v not in reach[succ]:
                reach[succ].add(v)
                work.append((succ, v))
    return reach
