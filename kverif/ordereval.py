"""Abstract interpretation of compare-and-select code over a finite order domain.

Code that touches its inputs only through comparisons and selection (IfExp, min/max, np.minimum/
maximum/fmin/fmax/clip/amin/amax, if-statements assigning one of the inputs) computes a function that
depends only on the *ordering scenario* of the inputs (including NaN-ness).  Enumerating one
representative per scenario is therefore exhaustive.  `Eval` interprets such ASTs with exact
Python / numpy NaN semantics per idiom; anything outside the idiom table raises AnalysisError
(-> UNDECIDED), it is never guessed.
"""
from __future__ import annotations
import ast
import math
from . import astutil as U
from .source import AnalysisError

NAN = float('nan')
INF = float('inf')


def py_min(vals):
    r = vals[0]
    for x in vals[1:]:
        if x < r:
            r = x
    return r


def py_max(vals):
    r = vals[0]
    for x in vals[1:]:
        if x > r:
            r = x
    return r


def np_min(vals):     # np.minimum / np.amin / np.min : NaN propagates
    if any(isinstance(v, float) and math.isnan(v) for v in vals):
        return NAN
    return min(vals)


def np_max(vals):
    if any(isinstance(v, float) and math.isnan(v) for v in vals):
        return NAN
    return max(vals)


def np_fmin(vals):    # NaN ignored unless all NaN
    good = [v for v in vals if not (isinstance(v, float) and math.isnan(v))]
    return min(good) if good else NAN


def np_fmax(vals):
    good = [v for v in vals if not (isinstance(v, float) and math.isnan(v))]
    return max(good) if good else NAN


class Eval:
    """atoms: {structural key of an expression: value}; locals: {name: value}"""

    def __init__(self, atoms, locals_=None):
        self.atoms = dict(atoms)
        self.locals = dict(locals_ or {})

    def ev(self, e):
        k = U.dump(e)
        if isinstance(e, ast.Name) and e.id in self.locals:
            return self.locals[e.id]
        if k in self.atoms:
            return self.atoms[k]
        if isinstance(e, ast.Constant) and isinstance(e.value, (int, float, bool)):
            return e.value
        if isinstance(e, ast.UnaryOp) and isinstance(e.op, ast.Not):
            return not self.ev(e.operand)
        if isinstance(e, ast.UnaryOp) and isinstance(e.op, ast.USub):
            return -self.ev(e.operand)
        if isinstance(e, ast.BoolOp):
            vals = [self.ev(v) for v in e.values]      # no side effects in this idiom: eager is fine
            if isinstance(e.op, ast.And):
                r = vals[0]
                for v in vals[1:]:
                    r = r and v
                return r
            r = vals[0]
            for v in vals[1:]:
                r = r or v
            return r
        if isinstance(e, ast.Compare):
            left = self.ev(e.left)
            res = True
            for op, right in zip(e.ops, e.comparators):
                r = self.ev(right)
                if isinstance(op, ast.Lt):
                    ok = left < r
                elif isinstance(op, ast.LtE):
                    ok = left <= r
                elif isinstance(op, ast.Gt):
                    ok = left > r
                elif isinstance(op, ast.GtE):
                    ok = left >= r
                elif isinstance(op, ast.Eq):
                    ok = left == r
                elif isinstance(op, ast.NotEq):
                    ok = left != r
                else:
                    raise AnalysisError('comparison operator outside the idiom table')
                res = res and ok
                left = r
            return res
        if isinstance(e, ast.IfExp):
            return self.ev(e.body) if self.ev(e.test) else self.ev(e.orelse)
        if isinstance(e, ast.Call):
            name = U.call_name(e) or ''
            args = e.args
            if len(args) == 1 and isinstance(args[0], (ast.List, ast.Tuple)):
                seq = [self.ev(a) for a in args[0].elts]
            else:
                seq = [self.ev(a) for a in args]
            if name == 'min':
                return py_min(seq)
            if name == 'max':
                return py_max(seq)
            if name in ('np.minimum', 'np.amin', 'np.min', 'numpy.minimum'):
                return np_min(seq)
            if name in ('np.maximum', 'np.amax', 'np.max', 'numpy.maximum'):
                return np_max(seq)
            if name in ('np.fmin', 'np.nanmin'):
                return np_fmin(seq)
            if name in ('np.fmax', 'np.nanmax'):
                return np_fmax(seq)
            if name in ('np.clip', 'numpy.clip') and len(seq) == 3:
                return np_min([np_max([seq[0], seq[1]]), seq[2]])
            if name in ('np.isnan', 'math.isnan') and len(seq) == 1:
                return isinstance(seq[0], float) and math.isnan(seq[0])
            if name in ('np.isfinite', 'math.isfinite') and len(seq) == 1:
                return not (isinstance(seq[0], float) and (math.isnan(seq[0]) or math.isinf(seq[0])))
            if name in ('float', 'np.float64') and len(seq) == 1:
                return seq[0]
            raise AnalysisError(f'call {name} outside the compare-and-select idiom table')
        raise AnalysisError(f'expression {U.src(e)} outside the compare-and-select idiom table')

    def run(self, stmts, store_atoms=()):
        """execute assignments / if-statements; targets are local names or attribute chains listed in store_atoms"""
        for s in stmts:
            if isinstance(s, ast.Assign) and len(s.targets) == 1:
                self.store(s.targets[0], self.ev(s.value), store_atoms)
            elif isinstance(s, ast.If):
                self.run(s.body if self.ev(s.test) else s.orelse, store_atoms)
            elif isinstance(s, ast.Pass) or (isinstance(s, ast.Expr) and isinstance(s.value, ast.Constant)):
                continue
            else:
                raise AnalysisError(f'statement {type(s).__name__} outside the compare-and-select idiom table')

    def store(self, target, value, store_atoms):
        if isinstance(target, ast.Name):
            self.locals[target.id] = value
            return
        k = U.dump(target)
        if k in store_atoms or k in self.atoms:
            self.atoms[k] = value
            return
        raise AnalysisError(f'store to {U.src(target)} outside the idiom table')


def same_value(a, b):
    if isinstance(a, float) and math.isnan(a):
        return isinstance(b, float) and math.isnan(b)
    return a == b


def dt_scenarios(lo, hi):
    pts = sorted({lo, hi})
    vals = [NAN, -INF, -3.0, 0.0, INF]
    vals.append(pts[0] - 0.25)
    for p in pts:
        vals.append(p)
    if len(pts) == 2:
        vals.append((pts[0] + pts[1]) / 2)
    vals.append(pts[-1] + 0.25)
    return vals
