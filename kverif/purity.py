"""May-alias-of-a-parameter analysis and in-place mutation sites (T-PURE).

Flow-sensitive over the statement CFG (state = set of local names that may alias the parameter,
join = union), interprocedural through summaries of kawin callees:
  returns  : which returned value (tuple position) may alias which parameter,
  mutates  : which parameters may be written in place.
numpy view/fresh tables decide whether an expression aliases its operand.
"""
from __future__ import annotations
import ast
from . import astutil as U
from . import cfg as C

VIEW_FUNCS = {'atleast_1d', 'atleast_2d', 'atleast_3d', 'asarray', 'asanyarray', 'squeeze', 'ravel',
              'reshape', 'transpose', 'swapaxes', 'moveaxis', 'expand_dims', 'broadcast_to',
              'ascontiguousarray', 'asfortranarray', 'real', 'imag', 'broadcast_arrays', 'rollaxis'}
VIEW_METHODS = {'reshape', 'ravel', 'squeeze', 'view', 'transpose', 'swapaxes'}
VIEW_ATTRS = {'T', 'real', 'imag', 'flat', 'mT'}
INPLACE_METHODS = {'sort', 'fill', 'put', 'itemset', 'resize', 'partition', 'setfield', 'byteswap',
                   'append', 'extend', 'insert', 'pop', 'remove', 'clear', 'reverse', 'update', 'setdefault'}
INPLACE_NP = {'put', 'copyto', 'place', 'putmask', 'fill_diagonal', 'put_along_axis'}
NP_NAMES = {'np', 'numpy'}
# method names too generic to resolve by name alone
NAME_CHA_BLACKLIST = {'get', 'items', 'keys', 'values', 'index', 'copy', 'append', 'sum', 'any', 'all', 'astype',
                      'format', 'join', 'split', 'update', 'reset', 'setup', 'plot', 'compute', 'predict', 'fit',
                      'solve', 'upper', 'lower', 'map', 'min', 'max', 'mean', 'reshape', 'flatten', 'tolist',
                      '__init__', '__call__', 'print', 'record', 'load', 'save', 'validate', 'description'}


class Site:
    def __init__(self, path, qual, node, kind, via=None):
        self.path, self.qual, self.node, self.kind, self.via = path, qual, node, kind, via or []

    def __repr__(self):
        return f'<{self.kind} {self.path}:{getattr(self.node, "lineno", 0)} {self.qual}>'


class Purity:
    def __init__(self, repo, index, name_cha=True, max_depth=6):
        self.repo, self.ix = repo, index
        self.name_cha = name_cha
        self.max_depth = max_depth
        self._memo = {}
        self._active = set()
        self._callables = []      # stack: callable parameters of the function under analysis (opaque programs)
        self.opaque_params_alias = False
        self.resolved_calls = 0
        self.unresolved = []

    # ------------------------------------------------------------------ callee resolution
    def targets(self, path, cls_key, call):
        t = self.ix.resolve_call(path, cls_key, call)
        if t:
            return [x for x in t if x]
        f = call.func
        if isinstance(f, ast.Attribute):
            # function-valued slot: self._f(...)
            if isinstance(f.value, ast.Name) and f.value.id == 'self' and cls_key:
                st = self.ix.slot_targets(cls_key, f.attr)
                if st:
                    return st
            root = U.chain(f)
            if root and root[0] in NP_NAMES:
                return []
            if self.name_cha and f.attr not in NAME_CHA_BLACKLIST:
                cands = self.ix.methods_named(f.attr)
                if 0 < len(cands) <= 8:
                    return cands
        return []

    # ------------------------------------------------------------------ expression aliasing
    def may_alias(self, e, A, path, cls_key, depth, ret_index=None):
        if e is None:
            return False
        if isinstance(e, ast.Name):
            return e.id in A
        if isinstance(e, ast.Attribute):
            c = U.chain(e)
            if c and '[]' not in c and '.'.join(c) in A:
                return True
            return e.attr in VIEW_ATTRS and self.may_alias(e.value, A, path, cls_key, depth)
        if isinstance(e, ast.Subscript):
            if not self.may_alias(e.value, A, path, cls_key, depth):
                return False
            s = e.slice
            if isinstance(s, (ast.Compare, ast.BoolOp, ast.List)) or (isinstance(s, ast.UnaryOp) and isinstance(s.op, ast.Invert)):
                return False      # boolean-mask / fancy index load copies
            return True
        if isinstance(e, ast.IfExp):
            return self.may_alias(e.body, A, path, cls_key, depth) or self.may_alias(e.orelse, A, path, cls_key, depth)
        if isinstance(e, ast.BoolOp):
            return any(self.may_alias(v, A, path, cls_key, depth) for v in e.values)
        if isinstance(e, (ast.Tuple, ast.List)):
            return any(self.may_alias(v, A, path, cls_key, depth) for v in e.elts)
        if isinstance(e, ast.Starred):
            return self.may_alias(e.value, A, path, cls_key, depth)
        if isinstance(e, ast.NamedExpr):
            return self.may_alias(e.value, A, path, cls_key, depth)
        if isinstance(e, ast.Call):
            name = U.call_name(e) or ''
            parts = name.split('.')
            if len(parts) == 2 and parts[0] in NP_NAMES:
                if parts[1] in VIEW_FUNCS and e.args:
                    return self.may_alias(e.args[0], A, path, cls_key, depth)
                if parts[1] == 'array' and e.args:
                    cp = U.kwarg(e, 'copy')
                    if cp is not None and isinstance(cp, ast.Constant) and cp.value is False:
                        return self.may_alias(e.args[0], A, path, cls_key, depth)
                return False
            if isinstance(e.func, ast.Attribute) and e.func.attr in VIEW_METHODS and self.may_alias(e.func.value, A, path, cls_key, depth):
                return True
            if isinstance(e.func, ast.Attribute) and e.func.attr == 'astype':
                # x.astype(t, copy=False) returns x itself when the dtype already matches
                cp = U.kwarg(e, 'copy')
                if cp is not None and not (isinstance(cp, ast.Constant) and cp.value is True):
                    return self.may_alias(e.func.value, A, path, cls_key, depth)
            if name in ('zip', 'enumerate', 'reversed', 'iter', 'list', 'tuple'):
                return any(self.may_alias(a, A, path, cls_key, depth) for a in e.args)
            if self.opaque_params_alias and self._callables and isinstance(e.func, ast.Name) and e.func.id in self._callables[-1]:
                # a callable supplied by the caller is an arbitrary program: it may return (a view of) its argument
                return any(self.may_alias(a, A, path, cls_key, depth) for a in e.args)
            # kawin callee: consult the summaries
            for (tp, tq, tf) in self.targets(path, cls_key, e):
                summ = self.summary(tp, tq, tf, depth + 1)
                for pidx, aexpr in self._bind(tf, e):
                    if not self.may_alias(aexpr, A, path, cls_key, depth):
                        continue
                    rets = summ['returns'].get(pidx, set())
                    if not rets:
                        continue
                    if ret_index is None or None in rets or ret_index in rets:
                        return True
            return False
        return False

    @staticmethod
    def _bind(callee, call):
        """[(param_index, arg_expr)] - indices refer to callee's parameters excluding a leading self"""
        names = [a.arg for a in callee.args.posonlyargs + callee.args.args]
        if names and names[0] in ('self', 'cls'):
            names = names[1:]
        out = []
        for i, a in enumerate(call.args):
            if isinstance(a, ast.Starred):
                continue
            if i < len(names):
                out.append((i, a))
        for k in call.keywords:
            if k.arg in names:
                out.append((names.index(k.arg), k.value))
        return out

    # ------------------------------------------------------------------ function analysis
    def analyse(self, path, qual, func, pidx, depth=0):
        """returns (mutation sites, returns-alias set) for the parameter with index pidx (self excluded)"""
        names = [a.arg for a in func.args.posonlyargs + func.args.args]
        if names and names[0] in ('self', 'cls'):
            names = names[1:]
        if pidx >= len(names):
            return [], set()
        pname = names[pidx]
        cls_key = None
        if '.' in qual:
            try:
                cls_key = self.ix.class_key(path, qual.split('.')[0])
            except Exception:
                cls_key = None
        called = {U.call_name(c) for c in U.calls(func)}
        self._callables.append({n for n in names if n in called})
        try:
            return self._analyse(path, qual, func, pname, cls_key, depth)
        finally:
            self._callables.pop()

    def analyse_seeds(self, path, qual, func, seeds):
        """like analyse(), but the initial alias set is a set of names / dotted chains (e.g. 'Y.composition')"""
        cls_key = None
        if '.' in qual:
            try:
                cls_key = self.ix.class_key(path, qual.split('.')[0])
            except Exception:
                cls_key = None
        self._callables.append(set())
        try:
            return self._analyse(path, qual, func, None, cls_key, 0, seeds=frozenset(seeds))
        finally:
            self._callables.pop()

    def _analyse(self, path, qual, func, pname, cls_key, depth, seeds=None):
        g = C.build(func)
        IN = {n.id: None for n in g.nodes}
        IN[g.entry.id] = frozenset([pname]) if seeds is None else seeds
        work = [g.entry.id]
        while work:
            nid = work.pop()
            node = g.node(nid)
            st = IN[nid]
            out = self._transfer(node, st, path, cls_key, depth)
            for succ, label in node.succ:
                old = IN[succ]
                new = out if old is None else (old | out)
                if old is None or new != old:
                    IN[succ] = new
                    work.append(succ)
        sites, rets = [], set()
        for node in g.nodes:
            A = IN[node.id]
            if A is None or node.ast is None:
                continue
            if not A:
                continue
            eff = C.simple_effect_node(node)
            if eff is None:
                continue
            sites += self._mutations(eff, node, A, path, qual, cls_key, depth)
            if isinstance(node.ast, ast.Return) and node.ast.value is not None:
                v = node.ast.value
                if isinstance(v, ast.Tuple):
                    for i, e in enumerate(v.elts):
                        if self.may_alias(e, A, path, cls_key, depth):
                            rets.add(i)
                elif self.may_alias(v, A, path, cls_key, depth):
                    rets.add(None)
        return sites, rets

    def _transfer(self, node, A, path, cls_key, depth):
        a = node.ast
        if a is None:
            return A
        A = set(A)
        if node.kind == 'for':
            tn = U.target_names(a.target)
            if self.may_alias(a.iter, A, path, cls_key, depth):
                A |= tn
            else:
                A -= tn
            return frozenset(A)
        if node.kind == 'with':
            for item in a.items:
                if item.optional_vars is not None:
                    A -= U.target_names(item.optional_vars)
            return frozenset(A)
        if node.kind != 'stmt':
            return frozenset(A)
        if isinstance(a, ast.Assign):
            for t in a.targets:
                self._assign(t, a.value, A, path, cls_key, depth)
        elif isinstance(a, ast.AnnAssign) and a.value is not None:
            self._assign(a.target, a.value, A, path, cls_key, depth)
        elif isinstance(a, ast.AugAssign):
            pass    # in-place for arrays: the name keeps its aliasing
        elif isinstance(a, ast.Delete):
            for t in a.targets:
                A -= U.target_names(t)
        return frozenset(A)

    def _assign(self, target, value, A, path, cls_key, depth):
        if isinstance(target, ast.Name):
            if self.may_alias(value, A, path, cls_key, depth):
                A.add(target.id)
            else:
                A.discard(target.id)
        elif isinstance(target, ast.Attribute):
            c = U.chain(target)
            if c and '[]' not in c and c[0] == 'self':
                if self.may_alias(value, A, path, cls_key, depth):
                    A.add('.'.join(c))
                else:
                    A.discard('.'.join(c))
        elif isinstance(target, (ast.Tuple, ast.List)):
            if isinstance(value, (ast.Tuple, ast.List)) and len(value.elts) == len(target.elts):
                for t, v in zip(target.elts, value.elts):
                    self._assign(t, v, A, path, cls_key, depth)
            else:
                for i, t in enumerate(target.elts):
                    if isinstance(t, ast.Name):
                        if self.may_alias(value, A, path, cls_key, depth, ret_index=i):
                            A.add(t.id)
                        else:
                            A.discard(t.id)

    def _mutations(self, eff, node, A, path, qual, cls_key, depth):
        sites = []
        a = node.ast if node.kind == 'stmt' else None
        # stores
        if isinstance(a, ast.AugAssign):
            t = a.target
            if isinstance(t, ast.Name) and t.id in A:
                sites.append(Site(path, qual, a, 'augassign'))
            elif isinstance(t, ast.Subscript) and self.may_alias(t.value, A, path, cls_key, depth):
                sites.append(Site(path, qual, a, 'augassign-subscript'))
        if isinstance(a, (ast.Assign, ast.AnnAssign)):
            for t in U.flat_targets(a):
                if isinstance(t, ast.Subscript) and self.may_alias(t.value, A, path, cls_key, depth):
                    sites.append(Site(path, qual, a, 'subscript-store'))
        if isinstance(a, ast.Delete):
            for t in a.targets:
                if isinstance(t, ast.Subscript) and self.may_alias(t.value, A, path, cls_key, depth):
                    sites.append(Site(path, qual, a, 'delete-subscript'))
        # calls
        for call in U.calls(eff) if eff is not None else []:
            name = U.call_name(call) or ''
            parts = name.split('.')
            out = U.kwarg(call, 'out')
            if out is not None and self.may_alias(out, A, path, cls_key, depth):
                sites.append(Site(path, qual, call, 'out='))
            if len(parts) == 2 and parts[0] in NP_NAMES:
                if parts[1] in INPLACE_NP and call.args and self.may_alias(call.args[0], A, path, cls_key, depth):
                    sites.append(Site(path, qual, call, 'np-inplace'))
                continue
            if isinstance(call.func, ast.Attribute) and call.func.attr in INPLACE_METHODS \
                    and self.may_alias(call.func.value, A, path, cls_key, depth):
                sites.append(Site(path, qual, call, 'inplace-method'))
                continue
            if depth >= self.max_depth:
                continue
            tg = self.targets(path, cls_key, call)
            if tg:
                self.resolved_calls += 1
            for (tp, tq, tf) in tg:
                binds = [(i, e) for i, e in self._bind(tf, call) if self.may_alias(e, A, path, cls_key, depth)]
                if not binds:
                    continue
                summ = self.summary(tp, tq, tf, depth + 1)
                for i, e in binds:
                    for s in summ['mutates'].get(i, []):
                        sites.append(Site(s.path, s.qual, s.node, s.kind, via=[(path, qual, call)] + s.via))
        return sites

    def summary(self, path, qual, func, depth=0):
        key = (path, qual)
        if key in self._memo:
            return self._memo[key]
        if key in self._active or depth > self.max_depth:
            return {'mutates': {}, 'returns': {}}
        self._active.add(key)
        names = [a.arg for a in func.args.posonlyargs + func.args.args]
        if names and names[0] in ('self', 'cls'):
            names = names[1:]
        res = {'mutates': {}, 'returns': {}}
        for i in range(len(names)):
            sites, rets = self.analyse(path, qual, func, i, depth)
            if sites:
                res['mutates'][i] = sites
            if rets:
                res['returns'][i] = rets
        self._active.discard(key)
        self._memo[key] = res
        return res

    def param_index(self, func, pname):
        names = [a.arg for a in func.args.posonlyargs + func.args.args]
        if names and names[0] in ('self', 'cls'):
            names = names[1:]
        return names.index(pname) if pname in names else None
