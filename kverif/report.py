"""Verdict collection, stdout protocol, replay files, evidence JSON."""
from __future__ import annotations
import ast
import json
import os
import re
import time
from dataclasses import dataclass, field, asdict

VERIF_DIR = os.path.dirname(os.path.dirname(os.path.abspath(__file__)))
EVIDENCE_DIR = os.path.join(VERIF_DIR, 'evidence')
REPLAY_DIR = os.path.join(EVIDENCE_DIR, 'replay')
KNOWN_FILE = os.path.join(VERIF_DIR, 'known_findings.json')

HOLDS, VIOLATION, UNDECIDED = 'HOLDS', 'VIOLATION', 'UNDECIDED'


def norm(text: str) -> str:
    """normalised construct text: whitespace-free, so that formatting is irrelevant"""
    return re.sub(r'\s+', '', text or '')


@dataclass
class Finding:
    verdict: str
    rule: str
    file: str
    function: str
    line: int
    what: str                 # human readable: what was checked / what fails
    construct: str = ''       # source text of the construct (normalised when used as key)
    detail: dict = field(default_factory=dict)

    def key(self):
        return (self.rule, self.file, self.function, norm(self.construct))

    def loc(self):
        return f'{self.file}:{self.line} {self.function}'


class Ctx:
    """Collects rule-instance verdicts for one property on one tree."""

    def __init__(self, prop: str, repo, tier='quick', seed=0):
        self.prop = prop
        self.repo = repo
        self.tier = tier
        self.seed = seed
        self.findings: list[Finding] = []
        self.analysed = {'modules': set(), 'functions': set(), 'call_sites': 0, 'paths': 0, 'scenarios': 0}
        self.explanation = ''
        self.assumptions: list[str] = []
        self.floors: dict[str, tuple[int, int]] = {}
        self.extra: dict = {}
        self.advisories: list[str] = []

    # ---------------------------------------------------------------- recording
    def _add(self, verdict, rule, file, function, node_or_line, what, construct='', **detail):
        line = getattr(node_or_line, 'lineno', node_or_line) or 0
        if construct == '' and isinstance(node_or_line, ast.AST):
            try:
                construct = self.repo.module(file).segment(node_or_line)
            except Exception:
                construct = ''
        self.findings.append(Finding(verdict, rule, file, function, int(line), what, construct, detail))
        if file:
            self.analysed['modules'].add(file)
            if function:
                self.analysed['functions'].add(f'{file}::{function}')

    def ok(self, rule, file, function, node_or_line, what, construct='', **detail):
        self._add(HOLDS, rule, file, function, node_or_line, what, construct, **detail)

    def violation(self, rule, file, function, node_or_line, what, construct='', **detail):
        self._add(VIOLATION, rule, file, function, node_or_line, what, construct, **detail)

    def undecided(self, rule, file, function, node_or_line, what, construct='', **detail):
        self._add(UNDECIDED, rule, file, function, node_or_line, what, construct, **detail)

    def check(self, cond, rule, file, function, node_or_line, what_ok, what_bad=None, construct='', **detail):
        if cond:
            self.ok(rule, file, function, node_or_line, what_ok, construct, **detail)
        else:
            self.violation(rule, file, function, node_or_line, what_bad or ('NOT: ' + what_ok), construct, **detail)
        return bool(cond)

    def floor(self, rule, found, minimum):
        """a rule that matches fewer instances than confirmed by hand is UNDECIDED, never a pass"""
        self.floors[rule] = (found, minimum)
        if found < minimum:
            self.undecided(rule, '', '', 0, f'rule {rule} matched {found} instance(s), floor confirmed by hand is {minimum}')

    def advisory(self, text):
        self.advisories.append(text)

    # ---------------------------------------------------------------- summary
    def by(self, verdict):
        return [f for f in self.findings if f.verdict == verdict]


def load_known():
    if not os.path.exists(KNOWN_FILE):
        return {'findings': [], 'fixed': []}
    with open(KNOWN_FILE) as fh:
        return json.load(fh)


def is_known(f: Finding, prop: str, known) -> dict | None:
    for k in known.get('findings', []):
        if k.get('property') != prop or k.get('rule') != f.rule:
            continue
        if k.get('file') and k['file'] != f.file:
            continue
        if k.get('function') and k['function'] != f.function:
            continue
        if k.get('construct') and norm(k['construct']) != norm(f.construct):
            continue
        return k
    return None


def finish(ctx: Ctx, level: str, t0: float, level_extra: dict | None = None, write=True, quiet=False):
    """print the protocol lines, write evidence and replay files, return the exit code"""
    known = load_known()
    viol = ctx.by(VIOLATION)
    und = ctx.by(UNDECIDED)
    holds = ctx.by(HOLDS)
    out = []
    new_viol, known_hits = [], []
    for f in viol:
        k = is_known(f, ctx.prop, known)
        if k:
            known_hits.append((f, k))
        else:
            new_viol.append(f)
    out.append(f'[{ctx.prop}] tier={ctx.tier} tree={ctx.repo.root} digest={ctx.repo.digest()} '
               f'modules={len(ctx.repo.modules)} rule-instances={len(ctx.findings)} '
               f'holds={len(holds)} violations={len(new_viol)} known={len(known_hits)} undecided={len(und)}')
    for rule, (found, minimum) in sorted(ctx.floors.items()):
        out.append(f'  floor {rule}: {found} instance(s) (minimum {minimum})')
    for f in holds:
        out.append(f'  HOLDS {f.rule} {f.loc()} - {f.what}')
    for a in ctx.advisories:
        out.append(f'  ADVISORY {a}')
    seen = set()
    for f, k in known_hits:
        key = (k.get('id'), f.key())
        if key in seen:
            continue
        seen.add(key)
        out.append(f'KNOWN-FINDING: property={ctx.prop} {k.get("id", "")} {f.rule} {f.loc()} - {k.get("what", f.what)}')
    for f in und:
        out.append(f'ANALYSIS-ERROR property={ctx.prop} rule={f.rule} at {f.loc()} - {f.what}')
    replay_paths = []
    if write:
        os.makedirs(REPLAY_DIR, exist_ok=True)
        # remove stale replay files of this property
        for fn in os.listdir(REPLAY_DIR):
            if fn.startswith(ctx.prop + '-'):
                try:
                    os.remove(os.path.join(REPLAY_DIR, fn))
                except OSError:
                    pass
    for i, f in enumerate(new_viol):
        path = os.path.join(REPLAY_DIR, f'{ctx.prop}-{i}.json')
        if write:
            with open(path, 'w') as fh:
                json.dump({'property': ctx.prop, 'rule': f.rule, 'file': f.file, 'function': f.function,
                           'line': f.line, 'what': f.what, 'construct': f.construct, 'detail': f.detail,
                           'tree': ctx.repo.root}, fh, indent=1, default=str)
        replay_paths.append(path)
        out.append(f'  violation {f.rule} {f.loc()} - {f.what}' + (f' :: {f.construct[:160]}' if f.construct else ''))
        out.append(f'VIOLATION property={ctx.prop} replay={path}')
    code = 1 if new_viol else (2 if und else 0)
    wall = time.time() - t0
    if write:
        write_evidence(ctx, level, wall, new_viol, known_hits, und, holds, level_extra or {})
    if not quiet:
        print('\n'.join(out))
    return code


def write_evidence(ctx, level, wall, new_viol, known_hits, und, holds, level_extra):
    os.makedirs(EVIDENCE_DIR, exist_ok=True)
    distinct = {f.key() for f in ctx.findings if f.verdict in (HOLDS, VIOLATION) and f.construct}
    samples = []
    for f in (new_viol + [h[0] for h in known_hits] + holds)[:60]:
        samples.append({'verdict': f.verdict, 'rule': f.rule, 'where': f.loc(), 'what': f.what,
                        'construct': f.construct[:200]})
    coverage = {
        'explanation': ctx.explanation or 'rule instances decided on the syntax trees of the current /repo tree',
        'evaluations': max(1, len(ctx.findings)),
        'distinct_nontrivial': len(distinct),
        'rule': 'one evaluation = one rule instance (rule x construct found in the current tree by role); '
                'non-trivial = the instance matched a concrete construct (source text recorded), distinct by '
                '(rule, file, function, normalised construct text)',
        'samples': samples or [{'note': 'no instance'}],
        'obligations': len(ctx.findings),
        'discharged': len(holds),
        'exhaustive': True,
        'analysed': {
            'tree_digest': ctx.repo.digest(),
            'modules_parsed': len(ctx.repo.modules),
            'modules_in_rules': sorted(ctx.analysed['modules']),
            'functions_in_rules': sorted(ctx.analysed['functions']),
            'call_sites': ctx.analysed['call_sites'],
            'paths': ctx.analysed['paths'],
            'scenarios': ctx.analysed['scenarios'],
        },
        'floors': {r: {'found': a, 'minimum': b} for r, (a, b) in ctx.floors.items()},
        'known_findings_reported': [k.get('id') for _, k in known_hits],
        'undecided': [f'{f.rule} {f.loc()} {f.what}' for f in und],
        'advisories': ctx.advisories[:50],
    }
    coverage.update(ctx.extra)
    coverage.update(level_extra)
    ev = {
        'property_id': ctx.prop,
        'tier': ctx.tier,
        'seed': int(ctx.seed),
        'level': level,
        'coverage': coverage,
        'assumptions': ctx.assumptions,
        'wall_s': round(wall, 3),
        'violations': len(new_viol),
    }
    with open(os.path.join(EVIDENCE_DIR, f'{ctx.prop}.json'), 'w') as fh:
        json.dump(ev, fh, indent=1, default=str)
