"""C01 - precipitation conserves solute: the code encodes the stated mass balance on every path.

R1.1 matrix composition = (x0 - sum_p fconc) / (1 - sum_p fv), guarded by sum fv < 1
R1.2 volume fraction and every precipitate-content term carry ONE prefactor Vm_matrix/Vm_prec(p) * volumeFactor(p)
     times a third-order moment of the ARGUMENT distribution x[p]
R1.4 content weights are the interfacial precipitate composition averaged over the two bounding faces
R1.5 postProcess recomputes the dependent terms from the new distribution before appending, then updates the PSD
R1.9 the working record handed out by copySlice shares no memory with the recorded histories
R1.6 the only other store to the matrix composition is the documented clamp of negatives
"""
from __future__ import annotations
import ast
from .. import astutil as U
from .. import cfg as C
from ..formula import single_defs, inline, factors, slice_key
from ..source import AnalysisError, AnchorMissing
from .kwn import EULER, BASE, MODEL, PBASE, phase_loops

EXPLANATION = (
    'The trajectory invariant itself quantifies over runs and is not decided. What is decided, for every path of '
    '_calcMassBalance and postProcess, is that the code encodes the stated balance: one prefactor '
    'Vm_alpha/Vm_beta(p)*volumeFactor(p) on the volume fraction and on every precipitate-content term, third-order moments '
    'taken of the distribution passed in (never of the stored one, except inside the documented increment), weights '
    'from the interfacial precipitate composition of the same phase, matrix composition = (x0 - sum fconc)/(1 - sum fv), '
    'and recomputation of all dependent terms from the new distribution before the record is appended. These are exactly '
    'the three error classes the property names (wrong volume ratio, wrong volume factor, stale precipitate composition).')

VM_MATRIX = ('self', 'matrixParameters', 'volume', 'Vm')


def classify_factor(f, p, e_var, defs):
    """role of one multiplicative factor"""
    c = U.chain(f)
    if c == VM_MATRIX:
        return 'Vm_matrix'
    if c == ('self', 'precipitateParameters', '[]', 'volume', 'Vm'):
        return 'Vm_prec' if _idx_is(f, p) else 'Vm_prec(other phase)'
    if c == ('self', 'precipitateParameters', '[]', 'nucleation', 'volumeFactor'):
        return 'volumeFactor' if _idx_is(f, p) else 'volumeFactor(other phase)'
    if isinstance(f, ast.Call):
        nm = U.call_name(f) or ''
        recv = f.func.value if isinstance(f.func, ast.Attribute) else None
        on_pbm = recv is not None and U.chain(recv) == ('self', 'PBM', '[]') and _idx_is(recv, p)
        if on_pbm and nm.endswith('ThirdMomentFromN') and len(f.args) == 1 and _is_xp(f.args[0], p):
            return 'M3(x[p])'
        if on_pbm and nm.endswith('.MomentFromN') and len(f.args) == 2 and _is_xp(f.args[0], p) and U.is_const(f.args[1], 3):
            return 'M3(x[p])'
        if on_pbm and nm.endswith('WeightedMomentFromN') and len(f.args) == 3 and _is_xp(f.args[0], p) and U.is_const(f.args[1], 3):
            return 'M3w(x[p])'
        if nm in ('np.sum', 'np.nansum') and f.args:
            inner = f.args[0]
            num, den, sg = factors(inner)
            roles = []
            for g in num:
                if isinstance(g, ast.BinOp) and isinstance(g.op, ast.Pow) and U.is_const(g.right, 3) and U.chain(g.left) == ('self', 'PBM', '[]', 'PSDsize') and _idx_is(g.left, p):
                    roles.append('size3')
                elif isinstance(g, ast.BinOp) and isinstance(g.op, ast.Sub) and _is_xp(g.left, p) and U.chain(g.right) == ('self', 'PBM', '[]', 'PSD') and _idx_is(g.right, p):
                    roles.append('dN')
                elif _is_xp(g, p):
                    roles.append('N')
                else:
                    roles.append('w')
            if not den and sg == 1 and sorted(roles) == ['dN', 'size3', 'w']:
                return 'M3w(x[p]-PSD)'
            if not den and sg == 1 and sorted(roles) == ['N', 'size3', 'w']:
                return 'M3w(x[p])'
            if not den and sg == 1 and sorted(roles) == ['N', 'size3']:
                return 'M3(x[p])'
        if on_pbm and ('Moment' in nm):
            return 'moment-of-wrong-order-or-distribution'
    return 'other:' + U.src(f)[:40]


def _idx_is(node, p):
    """all subscripts on the chain are exactly the loop index p"""
    n = node
    ok = True
    while isinstance(n, (ast.Attribute, ast.Subscript)):
        if isinstance(n, ast.Subscript):
            ok = ok and isinstance(n.slice, ast.Name) and n.slice.id == p
        n = n.value
    return ok


def _is_xp(e, p):
    return isinstance(e, ast.Subscript) and isinstance(e.value, ast.Name) and e.value.id == 'x' and isinstance(e.slice, ast.Name) and e.slice.id == p


def check(repo, ctx, index, purity):
    ctx.explanation = EXPLANATION
    ctx.assumptions += ['moment functions of PopulationBalanceModel evaluate the distribution they are given (decided by C08 R8.1)',
                        'the trajectory-level invariant (equality at every recorded step) is not decided']
    q = f'{MODEL}._calcMassBalance'
    f = repo.func(EULER, q)
    pn = U.params(f)
    if 'x' not in pn or 'Y' not in pn:
        ctx.undecided('R1', EULER, q, f, 'signature (self, t, x, Y) changed')
        return
    loops = phase_loops(f)
    if len(loops) != 1:
        ctx.undecided('R1.2', EULER, q, f, f'expected one loop over the phases, found {len(loops)}')
        return
    loop = loops[0]
    p = loop.target.id
    defs = single_defs(f)
    # ---------------------------------------------------------------- R1.2 prefactors
    n_sites = 0
    for st in ast.walk(loop):
        if not isinstance(st, ast.Assign):
            continue
        for t in U.flat_targets(st):
            if not isinstance(t, ast.Subscript):
                continue
            base = U.chain(t.value)
            if base == ('Y', 'volFrac'):
                v = inline(st.value, defs)
                if U.is_const(v):
                    continue          # literal 0 / 1
                n_sites += 1
                clamp = isinstance(v, ast.Call) and U.call_name(v) in ('np.amin', 'np.min', 'min', 'np.minimum') and (
                    (len(v.args) == 1 and isinstance(v.args[0], (ast.List, ast.Tuple)) and len(v.args[0].elts) == 2) or len(v.args) == 2)
                if not clamp:
                    ctx.violation('R1.2', EULER, q, st, 'volume fraction is stored without the min(., 1) bound', construct=U.src(st))
                    continue
                elts = v.args[0].elts if len(v.args) == 1 else v.args
                body = [e for e in elts if not U.is_const(e, 1)]
                if len(body) != 1:
                    ctx.violation('R1.2', EULER, q, st, 'volume fraction is not min(prefactor * third moment, 1)', construct=U.src(st))
                    continue
                _check_term(ctx, q, st, body[0], p, defs, 'volume fraction', want_moment={'M3(x[p])'})
            elif base == ('Y', 'fconc'):
                v = inline(st.value, defs)
                if isinstance(v, ast.Call) and U.call_name(v) in ('np.zeros', 'np.zeros_like'):
                    continue
                # a value handed over by a generator / iterator of the class (for .., term in <call>: Y.fconc[..] = term):
                # the expression lives in another function and is not followed
                gen_t = None
                if isinstance(v, ast.Name):
                    for lp_ in ast.walk(loop):
                        if isinstance(lp_, ast.For) and any(isinstance(n_, ast.Name) and n_.id == v.id for n_ in ast.walk(lp_.target)) \
                                and any(isinstance(c_, ast.Call) and isinstance(c_.func, ast.Attribute) and (U.call_name(c_) or '').startswith('self.') for c_ in ast.walk(lp_.iter)):
                            gen_t = lp_
                if gen_t is not None:
                    ctx.undecided('R1.2', EULER, q, st, f'the precipitate content stored here is produced by {U.src(gen_t.iter)[:60]} (an iterator of the class): its terms are not followed into that function')
                    continue
                n_sites += 1
                # incremental form: previous + increment
                if isinstance(v, ast.BinOp) and isinstance(v.op, ast.Add):
                    prev = [s_ for s_ in (v.left, v.right) if U.chain(s_) == ('self', 'pData', 'fconc', '[]')]
                    inc = [s_ for s_ in (v.left, v.right) if s_ not in prev]
                    if len(prev) == 1 and len(inc) == 1:
                        _check_term(ctx, q, st, inc[0], p, defs, 'precipitate content increment (no diffusion in precipitate)', want_moment={'M3w(x[p]-PSD)'})
                        continue
                _check_term(ctx, q, st, v, p, defs, 'precipitate content (infinite diffusion in precipitate)', want_moment={'M3w(x[p])'})
    ctx.floor('R1.2', n_sites, 3)
    # ---------------------------------------------------------------- R1.4 weights (found by role: the weight operand of the content moments)
    wnodes = []
    for st in ast.walk(loop):
        if isinstance(st, ast.Assign):
            for c in U.calls(st.value):
                nm = U.call_name(c) or ''
                if nm.endswith('WeightedMomentFromN') and len(c.args) == 3 and U.is_const(c.args[1], 3):
                    wnodes.append((st, c.args[2]))
                if nm in ('np.sum', 'np.nansum') and c.args and 'PSDsize' in U.src(c.args[0]) and '** 3' in U.src(c.args[0]):
                    num, den, sg = factors(c.args[0])
                    for g_ in num:
                        if not (isinstance(g_, ast.BinOp) and isinstance(g_.op, (ast.Pow, ast.Sub))) and not _is_xp(g_, p) and 'PSDsize' not in U.src(g_):
                            wnodes.append((st, g_))
    n_w = 0
    for st, w in wnodes:
        base = w.value if isinstance(w, ast.Subscript) else w
        v = inline(base, defs)
        n_w += 1
        num, den, sg = factors(v)
        ok = False
        s_ = [x for x in num if isinstance(x, ast.BinOp) and isinstance(x.op, ast.Add)]
        half = (any(U.is_const(x, 0.5) for x in num) and not den and len(num) == 2) or (len(den) == 1 and U.is_const(den[0], 2) and len(num) == 1)
        if len(s_) == 1 and half:
            a, b = s_[0].left, s_[0].right
            ka = (U.chain(a.value), slice_key(a.slice)) if isinstance(a, ast.Subscript) else None
            kb = (U.chain(b.value), slice_key(b.slice)) if isinstance(b, ast.Subscript) else None
            want = ('self', 'PSDXbeta', '[]')
            if ka and kb and ka[0] == want and kb[0] == want and {ka[1], kb[1]} == {'[:-1]', '[1:]'} \
                    and _idx_is(a.value, p) and _idx_is(b.value, p):
                ok = True
        ctx.check(ok, 'R1.4', EULER, q, st, f'content weights {U.src(w)}: interfacial precipitate composition of phase {p} averaged over the two faces of each class',
                  f'content weights {U.src(w)} = {U.src(v)[:80]} are not the face-averaged interfacial precipitate composition of the same phase', construct=f'{U.src(w)} := {U.src(v)}')
    ctx.floor('R1.4', n_w, 2)
    # ---------------------------------------------------------------- R1.1 / R1.6 composition
    comp_stores = []
    for st in ast.walk(f):
        if isinstance(st, (ast.Assign, ast.AugAssign)):
            for t in U.flat_targets(st):
                if isinstance(t, ast.Subscript) and U.chain(t.value) == ('Y', 'composition'):
                    comp_stores.append((st, t))
    main = [(st, t) for st, t in comp_stores if U.is_const(t.slice, 0)]
    clamp = [(st, t) for st, t in comp_stores if not U.is_const(t.slice, 0)]
    ctx.floor('R1.1', len(main), 1)
    for st, t in main:
        v = inline(st.value, defs)
        num, den, sg = factors(v)
        ok = False
        why = U.src(v)
        if len(num) == 1 and len(den) == 1 and sg == 1:
            n_, d_ = num[0], den[0]
            ok_n = isinstance(n_, ast.BinOp) and isinstance(n_.op, ast.Sub) and U.chain(n_.left) == ('self', 'pData', 'composition', '[]') \
                and U.is_const(n_.left.slice, 0) and _is_sum_over_phases(n_.right, ('Y', 'fconc', '[]'), axis0=True)
            ok_d = isinstance(d_, ast.BinOp) and isinstance(d_.op, ast.Sub) and U.is_const(d_.left, 1) and _is_sum_over_phases(d_.right, ('Y', 'volFrac', '[]'), axis0=False)
            ok = ok_n and ok_d
        ctx.check(ok, 'R1.1', EULER, q, st, 'matrix composition = (initial alloy content - sum over phases of precipitate content) / (1 - sum over phases of volume fraction)',
                  f'matrix composition is not (x0 - sum fconc)/(1 - sum fv): {why}', construct=U.src(st))
        # guard
        guard_ok = False
        for n_ in ast.walk(f):
            if isinstance(n_, ast.If) and st in list(ast.walk(n_)) and isinstance(n_.test, ast.Compare) and len(n_.test.ops) == 1:
                if _is_sum_over_phases(n_.test.left, ('Y', 'volFrac', '[]'), axis0=False) and isinstance(n_.test.ops[0], ast.Lt) and U.is_const(n_.test.comparators[0], 1):
                    guard_ok = True
        ctx.check(guard_ok, 'R1.1', EULER, q, st, 'the balance is applied only while the total precipitate fraction is below 1',
                  'the balance is not guarded by (sum of volume fractions) < 1')
    okc = len(clamp) == 1
    if okc:
        st, t = clamp[0]
        sl = t.slice
        if isinstance(sl, ast.Tuple) and len(sl.elts) == 2 and isinstance(sl.elts[1], ast.Name):
            # the mask held in a local: its only definition, placed after every balance store and before the clamp, is the mask
            mdefs = [a_ for a_ in ast.walk(f) if isinstance(a_, ast.Assign) and len(a_.targets) == 1 and isinstance(a_.targets[0], ast.Name) and a_.targets[0].id == sl.elts[1].id]
            nstores = sum(1 for a_ in ast.walk(f) if isinstance(a_, ast.Name) and isinstance(a_.ctx, ast.Store) and a_.id == sl.elts[1].id)
            if len(mdefs) == 1 and nstores == 1 and all(m_[0].lineno < mdefs[0].lineno for m_ in main) and mdefs[0].lineno < st.lineno:
                sl = ast.Tuple(elts=[sl.elts[0], mdefs[0].value], ctx=ast.Load())
        okc = isinstance(sl, ast.Tuple) and len(sl.elts) == 2 and U.is_const(sl.elts[0], 0) and isinstance(sl.elts[1], ast.Compare) \
            and isinstance(sl.elts[1].ops[0], ast.Lt) and U.is_const(sl.elts[1].comparators[0], 0) \
            and U.chain(st.value) == ('self', 'constraints', 'minComposition')
    ctx.check(okc, 'R1.6', EULER, q, clamp[0][0] if clamp else f, 'the only other store to the matrix composition is the documented clamp of negative values to minComposition',
              f'matrix composition is modified by {len(clamp)} further store(s) that are not the documented negative-value clamp',
              construct='; '.join(U.src(s) for s, _ in clamp) or 'no clamp')
    # ---------------------------------------------------------------- R1.7 no path to a return bypasses the balance
    g0 = C.build(f)
    dom = C.dominators(g0)
    loop_nodes = [n for n in g0.nodes if n.kind == 'for' and n.ast is loop]
    comp_if = [n for n in g0.nodes if n.kind == 'test' and isinstance(n.ast, ast.If) and any(st is main[0][0] for st in ast.walk(n.ast))] if main else []
    rets0 = [n for n in g0.nodes if n.kind == 'stmt' and isinstance(n.ast, ast.Return)]
    okdom = bool(loop_nodes) and bool(rets0) and all(loop_nodes[0].id in dom[r.id] for r in rets0) and bool(comp_if) and all(comp_if[0].id in dom[r.id] for r in rets0)
    bypass = [r for r in rets0 if not (loop_nodes and loop_nodes[0].id in dom[r.id] and comp_if and comp_if[0].id in dom[r.id])]
    ctx.check(okdom, 'R1.7', EULER, q, bypass[0].ast if bypass else f, 'every return of the mass balance is dominated by the phase loop and by the matrix-composition update',
              'a return of the mass balance can be reached without recomputing the per-phase terms / the matrix composition: the record keeps the values of the previous step',
              construct=U.src(bypass[0].ast) if bypass else 'returns dominated by the balance')
    # ---------------------------------------------------------------- R1.6b ownership of the mass-balance slots of the record
    OWNED = ('composition', 'volFrac', 'fconc', 'precipitateDensity')
    n_own = 0
    for path_, cls_ in ((EULER, MODEL), (BASE, PBASE)):
        for qq, ff in repo.functions(path_):
            if not qq.startswith(cls_ + '.') or qq == q:
                continue
            pn_ = U.params(ff)
            seeds = set()
            if 'Y' in pn_:
                seeds |= {f'Y.{s_}' for s_ in OWNED}
            if any(U.chain(n_) and U.chain(n_)[:2] == ('self', '_currY') for n_ in ast.walk(ff) if isinstance(n_, ast.Attribute)):
                seeds |= {f'self._currY.{s_}' for s_ in OWNED}
            if not seeds:
                continue
            n_own += 1
            sites, _ = purity.analyse_seeds(path_, qq, ff, seeds)
            sites = [s_ for s_ in sites if s_.path == path_ and s_.qual == qq]
            if sites:
                for s_ in sites:
                    ctx.violation('R1.6', path_, qq, s_.node, 'a mass-balance result of the record (matrix composition / volume fraction / precipitate content / density) is modified outside the mass balance, '
                                  f'possibly through a view ({s_.kind}): the balance no longer holds for the recorded values', construct=U.src(s_.node)[:120])
            else:
                ctx.ok('R1.6', path_, qq, ff, 'no write to the mass-balance slots of the record (directly or through a view)', construct=f'{qq}: slots {OWNED}')
    ctx.floor('R1.6b', n_own, 6)
    # ---------------------------------------------------------------- R1.5 order in postProcess
    q2 = f'{PBASE}.postProcess'
    f2 = repo.func(BASE, q2)
    g = C.build(f2)
    ORDER = ['_calculateDependentTerms', '_appendArrays', '_updateParticleSizeDistribution']

    def gen(node, label):
        eff = C.simple_effect_node(node)
        out = set()
        if eff is not None and node.kind == 'stmt':
            for c in U.calls(eff):
                nm = U.call_name(c) or ''
                if nm.startswith('self.') and nm.split('.')[1] in ORDER:
                    out.add(nm.split('.')[1])
        return out
    IN = C.must_forward(g, gen)
    probs = []
    sites = {}
    for n in g.nodes:
        eff = C.simple_effect_node(n)
        if eff is None or n.kind != 'stmt':
            continue
        for c in U.calls(eff):
            nm = U.call_name(c) or ''
            if nm.startswith('self.') and nm.split('.')[1] in ORDER:
                k = nm.split('.')[1]
                sites.setdefault(k, []).append(n)
                for earlier in ORDER[:ORDER.index(k)]:
                    if IN[n.id] is None or earlier not in IN[n.id]:
                        probs.append(f'{k} is reached on a path on which {earlier} has not been called')
                for later in ORDER[ORDER.index(k) + 1:]:
                    if IN[n.id] is not None and later in IN[n.id]:
                        probs.append(f'{k} is called after {later}')
    for k in ORDER:
        if len(sites.get(k, [])) != 1:
            probs.append(f'{k} is called {len(sites.get(k, []))} time(s) in postProcess')
    rets = [n for n in g.nodes if n.kind == 'stmt' and isinstance(n.ast, ast.Return)]
    for r in rets:
        for k in ORDER:
            if IN[r.id] is None or k not in IN[r.id]:
                probs.append(f'a return is reachable without {k}')
    ctx.check(not probs, 'R1.5', BASE, q2, f2, 'on every path: dependent terms recomputed from the new distribution, then appended to the histories, then the stored PSD is updated',
              'postProcess order broken: ' + '; '.join(sorted(set(probs))), construct='postProcess: ' + ' -> '.join(ORDER))
    # the dependent terms are computed from the arguments (t, x) of postProcess and the record appended is the current slice
    pn2 = U.params(f2)
    for c in U.calls(f2):
        nm = U.call_name(c)
        if nm == 'self._calculateDependentTerms':
            ok = len(c.args) == 2 and all(isinstance(a, ast.Name) for a in c.args) and [a.id for a in c.args] == pn2[1:3]
            ctx.check(ok, 'R1.5', BASE, q2, c, 'dependent terms are computed from the new time and the new distribution', 'dependent terms are not computed from the new (t, x)')
        if nm == 'self._appendArrays':
            ok = len(c.args) == 1 and U.chain(c.args[0]) == ('self', '_currY')
            ctx.check(ok, 'R1.5', BASE, q2, c, 'the record appended is the freshly computed slice', 'the record appended is not the freshly computed slice')
    # _calculateDependentTerms: mass balance precedes nucleation precedes growth in the recompute branch
    q3 = f'{PBASE}._calculateDependentTerms'
    f3 = repo.func(BASE, q3)
    seq = [U.call_name(c).split('.')[1] for s in ast.walk(f3) if isinstance(s, ast.Assign) and isinstance(s.value, ast.Call)
           and (U.call_name(s.value) or '').startswith('self._') for c in [s.value] if U.call_name(c).split('.')[1] in ('_calcMassBalance', '_calcNucleationRate', '_growthRate')]
    lines = {U.call_name(s.value).split('.')[1]: s.lineno for s in ast.walk(f3) if isinstance(s, ast.Assign) and isinstance(s.value, ast.Call) and (U.call_name(s.value) or '').startswith('self._')}
    ok = all(k in lines for k in ('_calcMassBalance', '_calcNucleationRate', '_growthRate')) and lines.get('_calcMassBalance', 0) < lines.get('_calcNucleationRate', 0) < lines.get('_growthRate', 0)
    ctx.check(ok, 'R1.5', BASE, q3, f3, 'mass balance, then nucleation rate, then growth rate', 'dependent terms are not computed in the order mass balance -> nucleation -> growth',
              construct='_calculateDependentTerms order')
    for s in ast.walk(f3):
        if isinstance(s, ast.Assign) and isinstance(s.value, ast.Call) and U.call_name(s.value) == 'self._calcMassBalance':
            c = s.value
            pn3 = U.params(f3)
            ok = len(c.args) == 3 and isinstance(c.args[1], ast.Name) and c.args[1].id == pn3[2] and U.chain(c.args[2]) == ('self', '_currY')
            ctx.check(ok, 'R1.5', BASE, q3, s, 'mass balance is evaluated on the distribution passed in', 'mass balance is not evaluated on the distribution passed in')


    # ---------------------------------------------------------------- R1.9 the working record does not alias the histories
    from .kwn import working_slice_is_fresh
    working_slice_is_fresh(repo, ctx, 'R1.9')


def _is_sum_over_phases(e, chain, axis0):
    if isinstance(e, ast.Call) and U.call_name(e) in ('np.sum',) and e.args and U.chain(e.args[0]) == chain and U.is_const(e.args[0].slice, 0):
        ax = U.kwarg(e, 'axis')
        if axis0:
            return ax is not None and U.is_const(ax, 0)
        return ax is None or U.is_const(ax, 0)
    return False


def _check_term(ctx, q, st, expr, p, defs, what, want_moment):
    num, den, sg = factors(inline(expr, defs))
    roles_n = sorted(classify_factor(f_, p, None, defs) for f_ in num)
    roles_d = sorted(classify_factor(f_, p, None, defs) for f_ in den)
    moments = [r for r in roles_n if r.startswith('M3')]
    ok = sg == 1 and roles_d == ['Vm_prec'] and len(moments) == 1 and moments[0] in want_moment \
        and sorted(r for r in roles_n if not r.startswith('M3')) == ['Vm_matrix', 'volumeFactor']
    ctx.check(ok, 'R1.2', EULER, q, st, f'{what} = Vm_alpha / Vm_beta({p}) * volumeFactor({p}) * {moments[0] if moments else "?"}',
              f'{what} does not carry the single prefactor Vm_alpha/Vm_beta(p)*volumeFactor(p) times a third moment of the argument distribution: numerator {roles_n}, denominator {roles_d}',
              construct=U.src(st))
