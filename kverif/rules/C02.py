"""C02 - reported precipitate statistics are moments of the size distribution.

R2.1 statistic <-> moment table in _calcMassBalance, incl. the zeroed record below the density threshold
R2.2 UpdatePBMEuler: assign, truncate classes below 1, then record; record() pads all three arrays or none
R2.3 nuclei enter exactly one class and the rate telescopes (the C07 stencil rules, re-evaluated)
R2.4 complete per-phase record in _calcNucleationRate: every path through the phase loop writes all output slots
R2.5 the grid is extended whenever the last class holds particles, whether or not adaptive binning is on
R2.7 the class removals applied to the argument distribution (_processX) and to the stored one agree
"""
from __future__ import annotations
import ast
from .. import astutil as U
from .. import cfg as C
from ..formula import single_defs, inline, factors, slice_key
from ..symfield import SymExec
from ..source import AnalysisError, AnchorMissing
from .kwn import EULER, BASE, PB, MODEL, PBASE, phase_loops, is_zero_value
from . import C07

EXPLANATION = (
    'Decides, on every path of the anchored functions, that each reported statistic is assigned from the moment of the '
    'stated order of the distribution passed in (density: order 0, mean radius: order 1 / density, volume fraction: scaled '
    'order 3 bounded by 1), that below the density threshold and on the early exits of the nucleation routine every slot of '
    'the re-used record is rewritten (an unwritten slot is a stale value of the previous step), that truncation precedes '
    'recording, that nuclei enter one class of a telescoping stencil whose end-face terms can only remove particles, and '
    'that the grid is extended whenever its last class fills. Equality of the histories with the moments at every step of '
    'a run is a trajectory statement and is not decided.')

NUC_SLOTS = ['drivingForce', 'Rcrit', 'Gcrit', 'impingement', 'nucRate', 'Rnuc']
EMPTY_SLOTS = ['Ravg', 'ARavg', 'fconc', 'volFrac']


def slot_writes(stmt, obj='Y'):
    """slots of the record object written by a simple statement: {slot: value expr}"""
    out = {}
    if isinstance(stmt, (ast.Assign, ast.AugAssign)):
        for t in U.flat_targets(stmt):
            if isinstance(t, ast.Subscript):
                c = U.chain(t.value)
                if c and len(c) == 2 and c[0] == obj:
                    out[c[1]] = stmt.value
    return out


def body_paths(ctx, loop, obj='Y', assume_nonempty_inner=True):
    """collecting semantics over the loop body: set of slots written on each path, per exit label"""
    g = C.build(loop.body, region=True)

    def tr(node, st, label):
        st = set(st)
        a = node.ast
        if node.kind == 'stmt':
            for k in slot_writes(a, obj):
                st.add(k)
        if node.kind == 'for' and assume_nonempty_inner and label == 'iter':
            pass
        if node.kind == 'for' and assume_nonempty_inner:
            # element loops run at least once (numberOfElements >= 1): their writes are certain
            for s in ast.walk(a):
                for k in slot_writes(s, obj):
                    st.add(k)
        return frozenset(st)
    at, exits = C.collect(g, frozenset(), tr)
    n = sum(len(v) for v in exits.values())
    ctx.analysed['paths'] += n
    return exits


def r21(repo, ctx):
    q = f'{MODEL}._calcMassBalance'
    f = repo.func(EULER, q)
    loops = phase_loops(f)
    if len(loops) != 1:
        ctx.undecided('R2.1', EULER, q, f, 'phase loop not found')
        return
    loop = loops[0]
    p = loop.target.id
    defs = single_defs(f)

    def is_xp(e):
        return isinstance(e, ast.Subscript) and isinstance(e.value, ast.Name) and e.value.id == 'x' and isinstance(e.slice, ast.Name) and e.slice.id == p

    def moment_order(e):
        """order of a moment call on PBM[p] of x[p], or None"""
        if not isinstance(e, ast.Call):
            return None
        nm = (U.call_name(e) or '').split('.')[-1]
        recv = e.func.value if isinstance(e.func, ast.Attribute) else None
        if recv is None or U.chain(recv) != ('self', 'PBM', '[]') or not e.args or not is_xp(e.args[0]):
            if U.call_name(e) in ('np.sum',) and e.args and is_xp(e.args[0]):
                return 0
            return None
        table = {'ZeroMomentFromN': 0, 'FirstMomentFromN': 1, 'SecondMomentFromN': 2, 'ThirdMomentFromN': 3}
        if nm in table and len(e.args) == 1:
            return table[nm]
        if nm == 'MomentFromN' and len(e.args) == 2:
            try:
                return U.const_value(e.args[1])
            except ValueError:
                return None
        return None

    g0 = C.build(f)
    dom = C.dominators(g0)
    ln = [n for n in g0.nodes if n.kind == 'for' and n.ast is loop]
    rets0 = [n for n in g0.nodes if n.kind == 'stmt' and isinstance(n.ast, ast.Return)]
    bypass = [r for r in rets0 if not (ln and ln[0].id in dom[r.id])]
    ctx.check(bool(rets0) and not bypass, 'R2.1', EULER, q, bypass[0].ast if bypass else f, 'every return of _calcMassBalance is dominated by the per-phase statistics loop',
              'the statistics of the re-used record are not recomputed on a path to a return (stale density / radius / volume fraction)', construct=U.src(bypass[0].ast) if bypass else 'returns dominated by the phase loop')
    found = {'precipitateDensity': 0, 'Ravg': 0}
    for st in loop.body:
        for node in ast.walk(st):
            if not isinstance(node, ast.Assign):
                continue
            w = slot_writes(node)
            if 'precipitateDensity' in w:
                found['precipitateDensity'] += 1
                o = moment_order(inline(node.value, defs))
                ctx.check(o == 0, 'R2.1', EULER, q, node, 'number density = zeroth moment of the distribution passed in',
                          f'number density is not the zeroth moment of the distribution passed in ({U.src(node.value)})')
            if 'Ravg' in w and not is_zero_value(node.value):
                found['Ravg'] += 1
                v = inline(node.value, defs)
                ok = isinstance(v, ast.BinOp) and isinstance(v.op, ast.Div) and moment_order(v.left) == 1 and \
                    (U.chain(v.right) == ('Y', 'precipitateDensity', '[]') or moment_order(v.right) == 0)
                ctx.check(ok, 'R2.1', EULER, q, node, 'mean radius = first moment / zeroth moment of the distribution passed in',
                          f'mean radius is not first moment / number density ({U.src(node.value)})')
    ctx.floor('R2.1', min(found.values()), 1)
    # every moment used by the mass balance is taken of the distribution passed in (x[p]), never of the stored one:
    # the stored distribution is replaced only later in postProcess, so PBM.ThirdMoment() here is last step's
    nm = 0
    for c in U.calls(loop):
        last = (U.call_name(c) or '').split('.')[-1]
        if 'Moment' not in last:
            continue
        recv = c.func.value if isinstance(c.func, ast.Attribute) else None
        rc = U.chain(inline(recv, defs)) if recv is not None else None
        if not rc or rc[:3] != ('self', 'PBM', '[]'):
            continue
        nm += 1
        a0 = inline(c.args[0], defs) if c.args else None
        ctx.check(last.endswith('FromN') and a0 is not None and is_xp(a0), 'R2.1', EULER, q, c,
                  f'{last} is evaluated on the distribution passed in',
                  f'{last}({U.src(c.args[0]) if c.args else ""}) takes the moment of the distribution stored in the population balance, which is still that of the previous step: '
                  'the statistic recorded for this step lags the distribution it is recorded with', construct=U.src(c))
    ctx.floor('R2.1/moments', nm, 4)
    # empty-phase record: the branch taken below the density threshold rewrites every statistic slot with zero
    # (whether it leaves by `continue` or is the if-side of an if/else), and every path through the body recomputes
    exits = body_paths(ctx, loop)
    empties = []
    for node in ast.walk(loop):
        if isinstance(node, ast.If) and 'precipitateDensity' in U.src(inline(node.test, defs)):
            w = {}
            for s in node.body:
                for sub in ast.walk(s):
                    for k, v in slot_writes(sub).items():
                        w.setdefault(k, []).append(v)
            if any(isinstance(s, ast.Continue) for s in node.body) or any(k in EMPTY_SLOTS and all(is_zero_value(v) for v in vs) for k, vs in w.items()):
                empties.append((node, w))
    missing = sorted(set(EMPTY_SLOTS) - set.intersection(*[set(w) for _, w in empties])) if empties else EMPTY_SLOTS
    ctx.check(bool(empties) and not missing, 'R2.1', EULER, q, loop,
              'below the density threshold the mean radius, aspect ratio, volume fraction and precipitate content of the re-used record are all rewritten',
              f'below the density threshold the record keeps stale values: slots not rewritten on the early exit: {missing}',
              construct='_calcMassBalance: early-exit path of the phase loop')
    zero_ok = all(is_zero_value(v) for _, w in empties for k, vs in w.items() if k in EMPTY_SLOTS for v in vs)
    ctx.check(zero_ok, 'R2.1', EULER, q, loop, 'the values written for an empty phase are zeros', 'an empty phase is recorded with non-zero statistics',
              construct='_calcMassBalance: zero record')
    full = set(exits.get('fall', set())) | set(exits.get('continue', set()))
    need = {'Ravg', 'volFrac', 'fconc', 'precipitateDensity'}
    ctx.check(bool(exits.get('fall')) and all(need <= st for st in full), 'R2.1', EULER, q, loop, 'on every path through the phase loop density, mean radius, volume fraction and precipitate content are all rewritten',
              'on some path through the phase loop a statistic is not recomputed', construct='_calcMassBalance: populated path')


def r22(repo, ctx, index):
    key = (PB, 'PopulationBalanceModel')
    sx = SymExec(repo, index, key)
    q = 'PopulationBalanceModel.UpdatePBMEuler'
    f = repo.func(PB, q)
    pn = U.params(f)
    outs = [o for o in sx.run(f) if o.status != 'raise']
    for o in outs:
        ev = [e for e in o.events if e[0] in ('write', 'call') and (e[1] in ('PSD', 'record'))]
        kinds = [e[:2] for e in ev]
        ok = kinds[:1] == [('write', 'PSD')] and ('call', 'record') in kinds and kinds.index(('call', 'record')) == len([k for k in kinds if k == ('write', 'PSD')]) \
            and len([k for k in kinds if k == ('write', 'PSD')]) == 2
        # the first write is the new distribution, the second the truncation of classes below one particle
        w = o.written.get('PSD', [])
        trunc = len(w) >= 2 and '< 1' in w[1] and w[1].rstrip().endswith('= 0')
        ctx.check(ok and trunc, 'R2.2', PB, q, f, 'stored PSD := new distribution, classes below one particle set to zero, then recorded',
                  f'UpdatePBMEuler does not assign, truncate (< 1 -> 0) and then record, in this order (events {kinds}, writes {w})', construct='; '.join(w))
    ctx.floor('R2.2', len(outs), 1)
    q = 'PopulationBalanceModel.record'
    f = repo.func(PB, q)
    outs = [o for o in sx.run(f) if o.status != 'raise']
    R3 = {'_recordedBins', '_recordedPSD', '_recordedTime'}
    for o in outs:
        w = set(o.written) & R3
        ctx.check(w == R3 or not w, 'R2.2', PB, q, f, f'record() extends {"all three recorded arrays" if w else "nothing"} on this path',
                  f'record() extends only {sorted(w)}: recorded times, bounds and distributions get different lengths', construct=f'record: {[c[0] + ":" + c[1] for c in o.conds]}')
    ctx.analysed['paths'] += len(outs)


def r24(repo, ctx):
    q = f'{PBASE}._calcNucleationRate'
    f = repo.func(BASE, q)
    loops = phase_loops(f)
    if len(loops) != 1:
        ctx.undecided('R2.4', BASE, q, f, 'phase loop not found')
        return
    exits = body_paths(ctx, loops[0])
    n = 0
    for label, states in exits.items():
        for st in states:
            n += 1
            missing = sorted(set(NUC_SLOTS) - set(st))
            ctx.check(not missing, 'R2.4', BASE, q, loops[0], f'path leaving the phase loop body by "{label}" rewrites all of {NUC_SLOTS}',
                      f'a path leaving the phase loop body by "{label}" does not write {missing}: the re-used record keeps the previous step\'s values (stale nucleation rate / barrier)',
                      construct=f'_calcNucleationRate[{label}]: missing {missing}')
    ctx.floor('R2.4', n, 2)


def r25(repo, ctx, index):
    key = (PB, 'PopulationBalanceModel')
    sx = SymExec(repo, index, key)
    q = 'PopulationBalanceModel.adjustSizeClassesEuler'
    f = repo.func(PB, q)
    outs = [o for o in sx.run(f) if o.status != 'raise']
    n = 0
    for o in outs:
        tests = []
        for e in o.events:
            if e[0] == 'cond' and 'self.PSD[-1]' in e[2]:
                t = ast.parse(e[2], mode='eval').body
                if isinstance(t, ast.Compare) and len(t.ops) == 1 and U.src(t.left) == 'self.PSD[-1]' and isinstance(t.ops[0], (ast.Gt, ast.GtE)) and U.is_const(t.comparators[0]):
                    tests.append(e)
        n += 1
        if not tests:
            ctx.violation('R2.5', PB, q, f, 'a path leaves adjustSizeClassesEuler without testing whether the last class holds particles: the grid is not extended and growth carries particles out of the distribution',
                          construct=f'adjustSizeClassesEuler: {[c[0] + ":" + c[1] for c in o.conds][:3]}')
            continue
        if tests[0][1] == 'T':
            i = o.events.index(tests[0])
            ok = ('call', 'addSizeClasses') in o.events[i:]
            ctx.check(ok, 'R2.5', PB, q, f, 'last class populated => size classes are added', 'last class populated but no size classes are added',
                      construct=f'adjustSizeClassesEuler: {[c[0] + ":" + c[1] for c in o.conds][:3]}')
        else:
            ctx.ok('R2.5', PB, q, f, 'last class empty: no extension needed', construct=f'adjustSizeClassesEuler: {[c[0] + ":" + c[1] for c in o.conds][:3]}')
    ctx.floor('R2.5', n, 4)
    # the caller invokes it on every step for every phase that is not reset
    q2 = f'{MODEL}._updateParticleSizeDistribution'
    f2 = repo.func(EULER, q2)
    calls = [c for c in U.calls(f2) if U.call_attr(c) == 'adjustSizeClassesEuler']
    ctx.check(len(calls) == 1, 'R2.5', EULER, q2, calls[0] if calls else f2, 'the size classes are adjusted after every PSD update', 'the size classes are not adjusted after the PSD update')


def r27(repo, ctx):
    qa, qb = f'{MODEL}._processX', f'{MODEL}._updateParticleSizeDistribution'
    fa, fb = repo.func(EULER, qa), repo.func(EULER, qb)

    def masks(func, base_pred):
        out = set()
        for st in ast.walk(func):
            if isinstance(st, ast.Assign) and len(st.targets) == 1 and isinstance(st.targets[0], ast.Subscript) and U.is_const(st.value, 0):
                t = st.targets[0]
                if base_pred(t.value):
                    out.add(slice_key(t.slice).replace(' ', ''))
        return out
    ma = masks(fa, lambda b: isinstance(b, ast.Subscript) and isinstance(b.value, ast.Name) and b.value.id == 'x')
    mb = masks(fb, lambda b: U.chain(b) == ('self', 'PBM', '[]', 'PSD'))
    ctx.floor('R2.7', len(ma), 2)
    ctx.check(ma == mb and len(ma) >= 2, 'R2.7', EULER, qb, fb, f'the same classes are emptied in the argument distribution and in the stored one: {sorted(ma)}',
              f'classes emptied before the statistics are computed {sorted(ma)} differ from those emptied in the stored distribution {sorted(mb)}',
              construct=f'{sorted(ma)} vs {sorted(mb)}')


def check(repo, ctx, index, purity):
    ctx.explanation = EXPLANATION
    ctx.assumptions += ['element loops execute at least once (numberOfElements >= 1)',
                        'equality of histories and moments along a trajectory is not decided']
    r21(repo, ctx)
    r22(repo, ctx, index)
    # R2.3 = the stencil rules of C07 on the rate function
    g = repo.func(PB, 'PopulationBalanceModel.getdXdtEuler')
    sub = type(ctx)(ctx.prop, ctx.repo, ctx.tier, ctx.seed)
    F1 = C07.r71_r73(repo, sub, 'getdXdtEuler', g, True)
    if F1 is not None:
        C07.r72(repo, sub, g, F1)
    g2 = repo.func(PB, 'PopulationBalanceModel.correctdXdtEuler')
    C07.r71_r73(repo, sub, 'correctdXdtEuler', g2, False)
    for fnd in sub.findings:
        fnd.rule = 'R2.3/' + fnd.rule
        ctx.findings.append(fnd)
    r24(repo, ctx)
    r25(repo, ctx, index)
    r27(repo, ctx)
    from .kwn import pbm_index_agreement
    pbm_index_agreement(repo, ctx, 'R2.9')
    # R2.8: the record that is appended holds the statistics of the distribution that is stored (C01 R1.5, R1.9)
    from . import C01
    sub = type(ctx)(ctx.prop, ctx.repo, ctx.tier, ctx.seed)
    C01.check(repo, sub, index, purity)
    for fnd in sub.findings:
        if fnd.rule in ('R1.5', 'R1.9'):
            fnd.rule = 'R2.8/' + fnd.rule
            ctx.findings.append(fnd)
