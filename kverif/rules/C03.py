"""C03 - precipitation runs are well formed for every configuration and survive backend faults.

R3.1 T-TABLE  : PrecipitationData.ATTRIBUTES == the arrays created by reset(); every bulk operation iterates ATTRIBUTES
R3.2 T-OWNER  : history arrays of a model's pData are rebound only inside PrecipitationData; slice rebinding only in the frozen list
R3.3 T-DEFASSIGN over the whole package (plot helpers excluded)
R3.4 T-NULL   : results of kawin functions that may return None are tested before they are unpacked / indexed / used in arithmetic
R3.5 bounded writes: volume fraction stores are literals or min(.,1); the site count returns through max(.,0)
R3.6 after a change of the size-class grid the per-phase growth array is re-created before the growth rate is recomputed
R3.7 the clock contract of the solver (C05 R5.1/R5.2) on which 'terminates exactly at the end time' rests
"""
from __future__ import annotations
import ast
from .. import astutil as U
from .. import cfg as C
from .. import defassign, nullflow
from ..formula import single_defs, inline
from ..source import AnalysisError, AnchorMissing
from .kwn import EULER, BASE, PP, MODEL, PBASE, phase_loops
from . import C05

EXPLANATION = (
    'Decides the structural preconditions of a well-formed run on every path: histories can only grow together '
    '(one attribute table drives creation, append, slicing, save and load), nothing outside PrecipitationData rebinds a '
    'history, every local is definitely assigned on every path (the documented fallbacks cannot end in UnboundLocalError), '
    'a None from the thermodynamic backend is tested before use at every call site, volume-fraction stores are bounded, '
    'the per-phase growth array follows the size-class grid, and the solver clock contract holds. Finiteness and ranges of '
    'the recorded numbers for all configurations are runtime facts and are not decided.')

SLICE_REBINDERS = {f'{PBASE}._calculateDependentTerms', f'{MODEL}._growthRateBinary', f'{MODEL}._growthRateMulti', f'{MODEL}.setup'}


def r31(repo, ctx):
    cls = repo.cls(PP, 'PrecipitationData')
    attrs = None
    for s in cls.body:
        if isinstance(s, ast.Assign) and any(isinstance(t, ast.Name) and t.id == 'ATTRIBUTES' for t in s.targets) and isinstance(s.value, (ast.List, ast.Tuple)):
            attrs = [e.value for e in s.value.elts if isinstance(e, ast.Constant)]
    if attrs is None:
        ctx.undecided('R3.1', PP, 'PrecipitationData', cls, 'ATTRIBUTES table not found')
        return
    reset = repo.func(PP, 'PrecipitationData.reset')
    created = []
    for s in ast.walk(reset):
        if isinstance(s, ast.Assign) and isinstance(s.value, ast.Call) and U.call_name(s.value) in ('np.zeros', 'np.empty', 'np.ones', 'np.full'):
            for t in s.targets:
                c = U.chain(t)
                if c and c[0] == 'self' and len(c) == 2:
                    created.append(c[1])
    ctx.check(sorted(attrs) == sorted(created) and len(set(attrs)) == len(attrs), 'R3.1', PP, 'PrecipitationData.reset', reset,
              f'ATTRIBUTES ({len(attrs)} names) == arrays created by reset()',
              f'ATTRIBUTES and the arrays created by reset() differ: only in table {sorted(set(attrs) - set(created))}, only in reset {sorted(set(created) - set(attrs))}',
              construct='ATTRIBUTES vs reset()')
    # leading dimension: every array is created with N (or a tuple starting with N) so that all histories have the same length
    N = U.params(reset)[1] if len(U.params(reset)) > 1 else None
    bad = []
    for s in ast.walk(reset):
        if isinstance(s, ast.Assign) and isinstance(s.value, ast.Call) and U.call_name(s.value) == 'np.zeros' and s.value.args:
            a = s.value.args[0]
            first = a.elts[0] if isinstance(a, ast.Tuple) else a
            if not (isinstance(first, ast.Name) and first.id == N):
                bad.append(U.src(s))
    ctx.check(not bad, 'R3.1', PP, 'PrecipitationData.reset', reset, 'every history is created with the same leading length N', f'histories created with different leading lengths: {bad}',
              construct='reset(): leading dimension')
    n = 0
    for m in ('appendToArrays', 'copySlice', 'setSlice', 'toDict', 'fromDict'):
        f = repo.func(PP, f'PrecipitationData.{m}')
        iters = [x for x in ast.walk(f) if isinstance(x, (ast.For, ast.comprehension)) and U.chain(x.iter) == ('self', 'ATTRIBUTES')]
        n += 1
        ctx.check(len(iters) >= 1, 'R3.1', PP, f'PrecipitationData.{m}', f, f'{m} iterates the ATTRIBUTES table', f'{m} does not iterate the ATTRIBUTES table: some history would be skipped',
                  construct=f'{m}: for name in self.ATTRIBUTES')
    ctx.floor('R3.1', n, 5)
    for m in ('appendToArrays', 'fromDict'):
        f = repo.func(PP, f'PrecipitationData.{m}')
        last = f.body[-1]
        ok = isinstance(last, ast.Assign) and U.chain(last.targets[0]) == ('self', 'n') and 'len(self.time) - 1' in U.src(last.value)
        ctx.check(ok, 'R3.1', PP, f'PrecipitationData.{m}', last, 'the step index n is re-derived from the history length after the arrays changed',
                  'the step index is not re-derived after the histories changed')
    ap = repo.func(PP, 'PrecipitationData.appendToArrays')
    conc = [c for c in U.calls(ap) if U.call_name(c) in ('np.concatenate', 'np.append')]
    ok = bool(conc) and all(U.kwarg(c, 'axis') is not None and U.is_const(U.kwarg(c, 'axis'), 0) for c in conc)
    ctx.check(ok, 'R3.1', PP, 'PrecipitationData.appendToArrays', ap, 'histories are extended along the first axis', 'histories are not extended along the first axis')
    return attrs


def r32(repo, ctx, attrs):
    attrs = set(attrs or [])
    n = 0
    for p, q, f in repo.all_functions():
        if '/Plot' in p or (p == PP and q.startswith('PrecipitationData.')):
            continue
        for s in U.walk_no_nested(f):
            if not isinstance(s, (ast.Assign, ast.AugAssign)):
                continue
            for t in U.flat_targets(s):
                if isinstance(t, ast.Attribute) and t.attr in attrs:
                    c = U.chain(t)
                    if c and len(c) >= 2 and c[-2] == 'pData':
                        n += 1
                        ctx.violation('R3.2', p, q, s, f'history array pData.{t.attr} is rebound outside PrecipitationData: histories can get different lengths',
                                      construct=U.src(s))
                    elif c and c[0] in ('Y',) or (c and c[:2] == ('self', '_currY')):
                        n += 1
                        ok = q in SLICE_REBINDERS
                        lead1 = False
                        v = s.value if isinstance(s, ast.Assign) else None
                        if isinstance(v, ast.Call) and U.call_name(v) == 'np.array' and v.args and isinstance(v.args[0], ast.List) and len(v.args[0].elts) == 1:
                            lead1 = True
                        if isinstance(v, ast.Name):
                            lead1 = True     # arrays built with a leading 1 in the same function (checked below)
                        if isinstance(v, ast.Tuple) and isinstance(s, ast.Assign) and len(s.targets) == 1 and isinstance(s.targets[0], ast.Tuple) \
                                and len(v.elts) == len(s.targets[0].elts) and t in s.targets[0].elts:
                            e_ = v.elts[s.targets[0].elts.index(t)]     # the element this target receives
                            lead1 = isinstance(e_, ast.Name) or (isinstance(e_, ast.Call) and U.call_name(e_) == 'np.array' and e_.args
                                                                 and isinstance(e_.args[0], ast.List) and len(e_.args[0].elts) == 1)
                        if isinstance(v, ast.Call) and isinstance(s, ast.Assign) and len(s.targets) == 1 and isinstance(s.targets[0], ast.Tuple) \
                                and (U.call_name(v) or '').startswith('self.'):
                            lead1 = True     # unpacked straight from the method that builds the one-row arrays
                        ctx.check(ok and lead1, 'R3.2', p, q, s, f'slice field {t.attr} rebound in a function of the frozen list with a one-row value',
                                  f'slice field {t.attr} is rebound in {q} (not in the frozen list {sorted(SLICE_REBINDERS)}) or not with a one-row array', construct=U.src(s))
    ctx.floor('R3.2', n, 6)


def r33(repo, ctx):
    n = 0
    for p, q, f in repo.all_functions():
        if '/Plot' in p:
            continue
        n += 1
        try:
            bad = defassign.check_function(f)
        except AnalysisError as e:
            ctx.undecided('R3.3', p, q, f, str(e))
            continue
        for name, node in bad:
            ctx.violation('R3.3', p, q, node, f'local variable {name} is read on a path on which it was never assigned (UnboundLocalError at run time)',
                          construct=f'{q}: {name}')
    ctx.analysed['paths'] += n
    ctx.ok('R3.3', '', '', 0, f'definite assignment holds in {n} functions of the package (plot helpers excluded)', construct=f'{n} functions')
    ctx.floor('R3.3', n, 500)


def r34(repo, ctx, index, purity):
    nullable, info = nullflow.nullable_functions(repo, index, purity)
    names = {k[1].split('.')[-1] for k in nullable} - {'retrieveFromHashTable'}
    ctx.extra['nullable_functions'] = sorted(f'{k[0]}::{k[1]}' for k in nullable)
    ctx.floor('R3.4/nullable', len(names), 4)

    def isn(call):
        return U.call_attr(call) in names
    sites = 0
    for p, q, f in repo.all_functions():
        if '/Plot' in p or p.endswith('thermo/Surrogate.py'):
            continue
        cs = [c for c in U.calls(f) if isn(c)]
        if not cs:
            continue
        sites += len(cs)
        uses = nullflow.unchecked_uses(f, isn)
        if uses:
            for kind, node, what in uses:
                ctx.violation('R3.4', p, q, node, f'result of {what} may be None (backend did not return an equilibrium) and is used ({kind}) without a None test',
                              construct=U.src(node)[:120])
        else:
            ctx.ok('R3.4', p, q, cs[0], f'{len(cs)} call(s) of may-return-None functions: every use is guarded by a None test', construct=f'{q}: ' + ', '.join(sorted({U.call_attr(c) for c in cs})))
    ctx.analysed['call_sites'] += sites
    ctx.floor('R3.4', sites, 8)


def r35(repo, ctx):
    q = f'{MODEL}._calcNucleationSites'
    f = repo.func(EULER, q)
    rets = [r for r in ast.walk(f) if isinstance(r, ast.Return)]
    ok = bool(rets)
    for r in rets:
        v = r.value
        good = isinstance(v, ast.Call) and U.call_name(v) in ('np.amax', 'np.max', 'max', 'np.maximum') and (
            (len(v.args) == 1 and isinstance(v.args[0], (ast.List, ast.Tuple)) and any(U.is_const(e, 0) for e in v.args[0].elts)) or
            (len(v.args) == 2 and any(U.is_const(e, 0) for e in v.args)))
        ok = ok and good
    ctx.check(ok, 'R3.5', EULER, q, rets[0] if rets else f, 'the number of available sites is returned through max(., 0) on every path',
              'the number of available nucleation sites can be returned negative', construct='; '.join(U.src(r) for r in rets))
    q = f'{MODEL}._calcMassBalance'
    f = repo.func(EULER, q)
    defs = single_defs(f)
    n = 0
    for s in ast.walk(f):
        if isinstance(s, ast.Assign):
            for t in U.flat_targets(s):
                if isinstance(t, ast.Subscript) and U.chain(t.value) == ('Y', 'volFrac'):
                    n += 1
                    v = inline(s.value, defs)
                    ok = U.is_const(v, 0) or U.is_const(v, 1) or (isinstance(v, ast.Call) and U.call_name(v) in ('np.amin', 'np.min', 'min', 'np.minimum')
                                                                  and any(U.is_const(e, 1) for a in v.args for e in (a.elts if isinstance(a, (ast.List, ast.Tuple)) else [a])))
                    ctx.check(ok, 'R3.5', EULER, q, s, 'volume fraction store is a literal 0/1 or min(., 1)', 'volume fraction can be stored above 1', construct=U.src(s))
    ctx.floor('R3.5', n, 1)
    q = 'PopulationBalanceModel.UpdatePBMEuler'


def r36(repo, ctx):
    q = f'{MODEL}._updateParticleSizeDistribution'
    f = repo.func(EULER, q)
    loops = phase_loops(f)
    if len(loops) != 1:
        ctx.undecided('R3.6', EULER, q, f, 'phase loop not found')
        return
    loop = loops[0]
    p = loop.target.id
    # the statement `change, added = self.PBM[p].adjustSizeClassesEuler(...)` and the `if change:` block
    chg = None
    for s in loop.body:
        if isinstance(s, ast.Assign) and isinstance(s.value, ast.Call) and U.call_attr(s.value) == 'adjustSizeClassesEuler' and isinstance(s.targets[0], ast.Tuple):
            chg = s.targets[0].elts[0].id if isinstance(s.targets[0].elts[0], ast.Name) else None
    blocks = [s for s in loop.body if isinstance(s, ast.If) and isinstance(s.test, ast.Name) and s.test.id == chg]
    if chg is None or len(blocks) != 1:
        ctx.undecided('R3.6', EULER, q, loop, 'the grid-change flag returned by adjustSizeClassesEuler and its if-block were not found')
        return
    blk = blocks[0]
    g = C.build(blk.body, region=True)

    def fresh_for(field):
        def gen(node, label):
            a = node.ast
            if node.kind == 'stmt' and isinstance(a, ast.Assign):
                for t in a.targets:
                    if isinstance(t, ast.Subscript) and U.chain(t.value) == ('self', field) and isinstance(t.slice, ast.Name) and t.slice.id == p:
                        v = a.value
                        txt = U.src(v)
                        if isinstance(v, ast.Call) and U.call_name(v) in ('np.zeros', 'np.concatenate') and ('PSDbounds' in txt or 'bins' in txt):
                            return {field}
            return set()
        return gen
    recompute = [n for n in g.nodes if n.kind == 'stmt' and any(U.call_name(c) == 'self._growthRate' for c in U.calls(n.ast))]
    ctx.check(len(recompute) >= 1, 'R3.6', EULER, q, blk, 'after a grid change the growth rate is recomputed', 'after a grid change the growth rate is not recomputed')
    for field in ('growth', 'PSDXalpha', 'PSDXbeta'):
        IN = C.must_forward(g, fresh_for(field))
        ok = bool(recompute) and all(IN[n.id] is not None and field in IN[n.id] for n in recompute)
        if field != 'growth':
            # the binary full-rebuild path re-creates both tables inside _createLookupBinary
            def gen2(node, label, field=field):
                s_ = fresh_for(field)(node, label)
                if node.kind == 'stmt' and any(U.call_name(c) == 'self._createLookupBinary' for c in U.calls(node.ast)):
                    s_ = s_ | {field}
                return s_
            IN = C.must_forward(g, gen2)
            ok = bool(recompute) and all(IN[n.id] is not None and field in IN[n.id] for n in recompute)
        ctx.check(ok, 'R3.6', EULER, q, blk, f'self.{field}[{p}] is re-created with the new number of size classes on every path before the growth rate is recomputed',
                  f'after the size-class grid changed, self.{field}[{p}] keeps its old length on some path to the growth-rate recomputation: the documented fallback (re-use of previous values when the backend returns None) then produces arrays of the wrong length',
                  construct=f'_updateParticleSizeDistribution: {field} after grid change')


def r39(repo, ctx):
    """contradiction rule on the fault paths of the thermodynamics backends: a test `self.D.get(k) is None` / `self.D[k] is None`
    that decides whether a previous result exists is meaningless when D is pre-filled with a non-None value for every phase
    and nothing ever stores None into it - the documented fallback behind the test can then never be taken (or is always
    taken) and the caller receives a record of Nones instead of the None it guards against."""
    files = [p_ for p_ in ('kawin/thermo/MultiTherm.py', 'kawin/thermo/Thermodynamics.py', 'kawin/thermo/BinTherm.py', 'kawin/thermo/Surrogate.py') if repo.has_module(p_)]
    n_tests = 0
    for path in files:
        tree = repo.module(path).tree
        for cnode in [c for c in tree.body if isinstance(c, ast.ClassDef)]:
            stored = {}         # dict field -> list of (kind, value expr)
            for n in ast.walk(cnode):
                if isinstance(n, ast.Assign):
                    for t, v in U.assign_pairs(n):
                        c = U.chain(t)
                        if c and c[0] == 'self' and len(c) == 2 and isinstance(t, ast.Attribute):
                            if isinstance(v, ast.DictComp):
                                stored.setdefault(c[1], []).append(('prefill', v.value))
                            elif isinstance(v, ast.Dict):
                                for x in v.values:
                                    stored.setdefault(c[1], []).append(('prefill' if v.keys else 'empty', x))
                                if not v.keys:
                                    stored.setdefault(c[1], []).append(('empty', None))
                            else:
                                stored.setdefault(c[1], []).append(('other', v))
                        elif c and c[0] == 'self' and len(c) == 3 and c[2] == '[]' and isinstance(t, ast.Subscript):
                            stored.setdefault(c[1], []).append(('item', v))
                elif isinstance(n, ast.Call) and isinstance(n.func, ast.Attribute) and n.func.attr in ('update', 'setdefault', 'pop', 'clear') \
                        and U.chain(n.func.value) and U.chain(n.func.value)[0] == 'self' and len(U.chain(n.func.value)) == 2:
                    stored.setdefault(U.chain(n.func.value)[1], []).append(('other', None))

            def never_none(fld):
                vals = stored.get(fld) or []
                kinds = {k for k, _ in vals}
                if 'prefill' not in kinds or kinds & {'other', 'empty'}:
                    return False
                for k, v in vals:
                    if not isinstance(v, (ast.Call, ast.List, ast.Tuple, ast.Dict, ast.ListComp)) and not (isinstance(v, ast.Constant) and v.value is not None):
                        return False
                return True
            for m in [x for x in cnode.body if isinstance(x, ast.FunctionDef)]:
                for t in ast.walk(m):
                    if not (isinstance(t, ast.Compare) and len(t.ops) == 1 and isinstance(t.ops[0], (ast.Is, ast.IsNot)) and isinstance(t.comparators[0], ast.Constant)
                            and t.comparators[0].value is None):
                        continue
                    l = t.left
                    fld = None
                    if isinstance(l, ast.Name):       # a local that holds the looked-up value
                        binds = [a for a in ast.walk(m) if isinstance(a, ast.Assign) and len(a.targets) == 1 and isinstance(a.targets[0], ast.Name) and a.targets[0].id == l.id]
                        if len(binds) == 1:
                            l = binds[0].value
                    if isinstance(l, ast.Call) and isinstance(l.func, ast.Attribute) and l.func.attr == 'get' and U.chain(l.func.value) and U.chain(l.func.value)[0] == 'self' \
                            and len(U.chain(l.func.value)) == 2 and len(l.args) == 1:
                        fld = U.chain(l.func.value)[1]
                    elif isinstance(l, ast.Subscript) and U.chain(l.value) and U.chain(l.value)[0] == 'self' and len(U.chain(l.value)) == 2:
                        fld = U.chain(l.value)[1]
                    if fld is None or fld not in stored:
                        continue
                    n_tests += 1
                    ctx.check(not never_none(fld), 'R3.9', path, f'{cnode.name}.{m.name}', t, f'the None test on self.{fld} can succeed: the dictionary holds None (or lacks the key) when there is no result',
                              f'{U.src(t)} tests a dictionary that is pre-filled with a non-None value for every phase and never receives None: the test cannot tell whether a previous result exists, '
                              'so the fallback it guards is never (or always) taken and the caller gets a record of Nones where it handles None', construct=f'{cnode.name}.{m.name}: {U.src(t)[:70]}')
    ctx.floor('R3.9', n_tests, 1)


def check(repo, ctx, index, purity):
    ctx.explanation = EXPLANATION
    ctx.assumptions += ['numeric ranges/finiteness of recorded values are not decided',
                        'Surrogate.py is outside R3.4 (its None path is excluded by a correlated branch that a path-insensitive rule cannot see)']
    attrs = r31(repo, ctx)
    r32(repo, ctx, attrs)
    r33(repo, ctx)
    r34(repo, ctx, index, purity)
    r35(repo, ctx)
    r36(repo, ctx)
    r39(repo, ctx)
    # R3.7: the clock contract
    sub = type(ctx)(ctx.prop, ctx.repo, ctx.tier, ctx.seed)
    lo, hi, solve, names, init_nodes, fr = C05.bounds_roles(repo, sub)
    if lo and hi:
        C05.r51_clamp(repo, sub, lo, hi)
        C05.r52_loop(repo, sub, lo, hi, solve, names, init_nodes)
    for fnd in sub.findings:
        fnd.rule = 'R3.7/' + fnd.rule
        ctx.findings.append(fnd)
    ctx.analysed['scenarios'] += sub.analysed['scenarios']
