"""C04 - diffusion conserves every component and honours boundary conditions.

R4.1 flux form: dX/dt = -(J[:,1:] - J[:,:-1]) / dz of ONE face array on a uniform mesh (telescoping sum)
R4.2 boundary table: end faces come from the left/right dictionaries by element name (flux value, or the neighbouring
     face for a fixed composition); both flux routines fill interior faces only and apply the table last
R4.3 setup idempotence: with the is-setup flag set, setup() writes no solver state and records nothing (symbolic execution)
R4.4 postProcess clips to [minComposition, 1 - minComposition] before recording
R4.5 T-OWNER on the composition array
R4.6 no model constructor shares a mutable default argument between instances
"""
from __future__ import annotations
import ast
from .. import astutil as U
from .. import cfg as C
from ..formula import slice_key, factors, single_defs, inline
from ..symfield import SymExec, const, NONE
from ..source import AnalysisError, AnchorMissing
from . import C11

D = 'kawin/diffusion/Diffusion.py'
SP = 'kawin/diffusion/SinglePhase.py'
HM = 'kawin/diffusion/Homogenization.py'
DP = 'kawin/diffusion/DiffusionParameters.py'

EXPLANATION = (
    'Conservation is decided as the algebraic identity of the flux form: the rate is a first difference of one face array '
    'divided by the constant cell width, so the mesh sum of each component changes by (left face - right face)*dt/dz for '
    'every input; the end faces are written last, from the boundary-condition table, by element name. That repeated solve '
    'calls do not drift is decided by symbolically executing setup() with the is-setup flag set: nothing may be written or '
    'recorded. The conserved sums themselves and the homogenization flux frame numerics are not decided.')


def r41(repo, ctx):
    q = 'DiffusionModel.getdXdt'
    f = repo.func(D, q)
    rets = [r for r in ast.walk(f) if isinstance(r, ast.Return)]
    defs = single_defs(f)
    ok = False
    why = 'no return'
    if len(rets) == 1:
        v = rets[0].value
        e = v.elts[0] if isinstance(v, ast.List) and len(v.elts) == 1 else None
        if e is not None:
            num, den, sg = factors(inline(e, defs))
            if len(num) == 1 and len(den) == 1 and U.chain(den[0]) == ('self', 'dz') and isinstance(num[0], ast.BinOp) and isinstance(num[0].op, ast.Sub):
                a, b = num[0].left, num[0].right
                if isinstance(a, ast.Subscript) and isinstance(b, ast.Subscript) and U.same(a.value, b.value):
                    ka, kb = slice_key(a.slice), slice_key(b.slice)
                    if (ka, kb, sg) in (('[:,1:]', '[:,:-1]', -1), ('[:,:-1]', '[:,1:]', 1)):
                        src_ = a.value
                        ok = isinstance(src_, ast.Call) and U.call_name(src_) == 'self._getFluxes' or isinstance(src_, ast.Name)
                        why = ''
                    else:
                        why = f'difference of slices {ka} and {kb} with sign {sg}'
            else:
                why = U.src(e)
    ctx.check(ok, 'R4.1', D, q, rets[0] if rets else f, 'rate = -(J[:,1:] - J[:,:-1]) / dz of one face-flux array: interior faces cancel in the mesh sum',
              f'the rate is not the negative first difference of one face-flux array over dz ({why})', construct=U.src(rets[0].value) if rets else '')
    init = repo.func(D, 'DiffusionModel.__init__')
    dz = [s for s in ast.walk(init) if isinstance(s, ast.Assign) and U.chain(s.targets[0]) == ('self', 'dz')]
    z = [s for s in ast.walk(init) if isinstance(s, ast.Assign) and U.chain(s.targets[0]) == ('self', 'z')]
    ok = len(dz) == 1 and len(z) == 1 and isinstance(z[0].value, ast.Call) and U.call_name(z[0].value) == 'np.linspace' and U.src(dz[0].value).replace(' ', '') == 'self.z[1]-self.z[0]'
    ctx.check(ok, 'R4.1', D, 'DiffusionModel.__init__', dz[0] if dz else init, 'uniform mesh: z = linspace(..), dz = z[1] - z[0]', 'the cell width is not the spacing of a uniform mesh')
    writers = []
    for p_, q_, f_ in repo.all_functions():
        for s in U.walk_no_nested(f_):
            if isinstance(s, (ast.Assign, ast.AugAssign)):
                for t in U.flat_targets(s):
                    c = U.chain(t)
                    if c and c[-1] == 'dz' and c[0] in ('self', 'model', 'm') and p_.startswith('kawin/diffusion'):
                        writers.append(f'{q_}')
    ctx.check(sorted(set(writers)) == ['DiffusionModel.__init__'], 'R4.1', D, 'DiffusionModel', 0, 'only the constructor writes dz', f'dz is written by {sorted(set(writers))}')


def r42(repo, ctx):
    # table (element-name addressing) - shared with C11
    sub = type(ctx)(ctx.prop, ctx.repo, ctx.tier, ctx.seed)
    C11.r114(repo, sub)
    for fnd in sub.findings:
        fnd.rule = 'R4.2/' + fnd.rule
        ctx.findings.append(fnd)
    q = 'BoundaryConditions.applyBoundaryConditionsToFluxes'
    f = repo.func(DP, q)
    arr = U.params(f)[2]
    want = {'0': ('leftBC', 'leftBCtype', '1'), '-1': ('rightBC', 'rightBCtype', '-2')}
    n = 0
    # `if T: a[..] = A else: a[..] = B` is the statement form of `a[..] = A if T else B`
    folded, inside_folded = [], set()
    for s in ast.walk(f):
        if isinstance(s, ast.If) and len(s.body) == 1 and len(s.orelse) == 1 and all(isinstance(b, ast.Assign) and len(b.targets) == 1 for b in (s.body[0], s.orelse[0])) \
                and U.dump(s.body[0].targets[0]) == U.dump(s.orelse[0].targets[0]):
            a_ = ast.copy_location(ast.Assign(targets=[s.body[0].targets[0]], value=ast.copy_location(ast.IfExp(test=s.test, body=s.body[0].value, orelse=s.orelse[0].value), s), lineno=s.lineno), s)
            folded.append(a_)
            inside_folded |= {id(s.body[0]), id(s.orelse[0])}
    for s in [x for x in ast.walk(f) if id(x) not in inside_folded] + folded:
        if isinstance(s, ast.Assign) and isinstance(s.targets[0], ast.Subscript) and isinstance(s.targets[0].value, ast.Name) and s.targets[0].value.id == arr:
            sl = s.targets[0].slice
            col = U.src(sl.elts[1]) if isinstance(sl, ast.Tuple) and len(sl.elts) == 2 else None
            if col not in want:
                ctx.violation('R4.2', DP, q, s, f'boundary routine writes column {col}: only the end faces 0 and -1 belong to the boundary', construct=U.src(s))
                continue
            n += 1
            val, typ, nb = want[col]
            v = s.value
            ok = False
            if isinstance(v, ast.IfExp) and isinstance(v.test, ast.Compare):
                t = v.test
                test_ok = U.chain(t.left) == ('self', typ, '[]') and isinstance(t.ops[0], ast.Eq) and U.chain(t.comparators[0]) == ('self', 'FLUX_BC')
                body_ok = U.chain(v.body) == ('self', val, '[]')
                o = v.orelse
                else_ok = isinstance(o, ast.Subscript) and isinstance(o.value, ast.Name) and o.value.id == arr and isinstance(o.slice, ast.Tuple) and U.src(o.slice.elts[1]) == nb
                ok = test_ok and body_ok and else_ok
            ctx.check(ok, 'R4.2', DP, q, s, f'end face {col}: the prescribed flux of the {val[:-2]} condition, or the neighbouring face {nb} for a fixed composition (zero net flux into the end node)',
                      f'end face {col} is not (flux value if {typ} is FLUX else face {nb}) taken from the {val[:-2]} dictionaries', construct=U.src(s))
    ctx.floor('R4.2', n, 2)
    # both end faces are written for every element: no path through the element loop leaves an end face as the model left it
    from .. import cfg as C
    loops = [l for l in ast.walk(f) if isinstance(l, ast.For) and any(isinstance(t, ast.Subscript) and isinstance(t.value, ast.Name) and t.value.id == arr
                                                                        for st in ast.walk(l) if isinstance(st, ast.Assign) for t in st.targets)]
    outer = [l for l in loops if not any(l is not m and any(x is l for x in ast.walk(m)) for m in loops)]
    for loop in (outer or [f]):      # without an element loop (whole columns written at once) the function body is the region
        g = C.build(U.body_without_docstring(loop) if loop is f else loop.body, region=True)

        def tr(node, st, label):
            st = set(st)
            a = node.ast
            if node.kind == 'stmt' and isinstance(a, ast.Assign):
                for t in a.targets:
                    if isinstance(t, ast.Subscript) and isinstance(t.value, ast.Name) and t.value.id == arr and isinstance(t.slice, ast.Tuple) and len(t.slice.elts) == 2:
                        st.add(U.src(t.slice.elts[1]))
            return frozenset(st)
        at, exits = C.collect(g, frozenset(), tr)
        short = [(lab, sorted(s_)) for lab, sts in exits.items() for s_ in sts if not {'0', '-1'} <= s_]
        ctx.check(not short and 'break' not in exits, 'R4.2', DP, q, loop, 'every path through the element loop writes both end faces (0 and -1)',
                  f'a path through the element loop ({short[0][0] if short else "break"}) writes only the end faces {short[0][1] if short else "of the elements before it"}: '
                  'the face keeps the value the model put there, so a prescribed flux / fixed composition is not applied for that element',
                  construct=f'{q}: both end faces on every path')
    q = 'BoundaryConditions.applyBoundaryConditionsToInitialProfile'
    f = repo.func(DP, q)
    arr = U.params(f)[2]
    n = 0
    for s in ast.walk(f):
        if isinstance(s, ast.If) and isinstance(s.test, ast.Compare):
            side = 'left' if 'leftBCtype' in U.src(s.test) else ('right' if 'rightBCtype' in U.src(s.test) else None)
            if side is None:
                continue
            n += 1
            ok = U.chain(s.test.comparators[0]) == ('self', 'COMPOSITION_BC') and len(s.body) == 1 and isinstance(s.body[0], ast.Assign)
            if ok:
                st = s.body[0]
                tgt = st.targets[0]
                col = U.src(tgt.slice.elts[1]) if isinstance(tgt, ast.Subscript) and isinstance(tgt.slice, ast.Tuple) else None
                ok = col == ('0' if side == 'left' else '-1') and U.chain(st.value) == ('self', f'{side}BC', '[]')
            ctx.check(ok, 'R4.2', DP, q, s, f'{side} fixed composition is written to the {side} end node', f'{side} fixed-composition condition is not written to the {side} end node from the {side} dictionary', construct=U.src(s)[:100])
    ctx.floor('R4.2/init', n, 2)
    # the two flux routines
    for path, q in ((SP, 'SinglePhaseModel._getFluxes'), (HM, 'HomogenizationModel._getFluxes')):
        f = repo.func(path, q)
        rets = [r for r in ast.walk(f) if isinstance(r, ast.Return)]
        if len(rets) != 1 or not isinstance(rets[0].value, ast.Name):
            ctx.undecided('R4.2', path, q, f, 'expected a single return of the flux array')
            continue
        R = rets[0].value.id
        init = [s for s in ast.walk(f) if isinstance(s, ast.Assign) and isinstance(s.targets[0], ast.Name) and s.targets[0].id == R]
        ok_init = len(init) == 1 and isinstance(init[0].value, ast.Call) and U.call_name(init[0].value) == 'np.zeros' and 'self.N + 1' in U.src(init[0].value)
        bc = [c for c in U.calls(f) if U.call_attr(c) == 'applyBoundaryConditionsToFluxes']
        ok_bc = len(bc) == 1 and len(bc[0].args) == 2 and U.chain(bc[0].args[0]) == ('self', 'elements') and isinstance(bc[0].args[1], ast.Name) and bc[0].args[1].id == R
        stores = [s for s in ast.walk(f) if isinstance(s, (ast.Assign, ast.AugAssign)) and any(isinstance(t, ast.Subscript) and isinstance(t.value, ast.Name) and t.value.id == R for t in U.flat_targets(s))]
        interior = all(isinstance(t.slice, ast.Tuple) and slice_key(t.slice).endswith(',1:-1]') for s in stores for t in U.flat_targets(s) if isinstance(t, ast.Subscript))
        sq = U.seq(f)
        last = bool(bc) and all(sq[id(s)] < sq[id(bc[0])] for s in stores) and all(sq[id(s)] < sq[id(bc[0])] for s in init)
        ctx.check(ok_init and ok_bc and interior and last and bool(stores), 'R4.2', path, q, bc[0] if bc else f,
                  'face array of N+1 columns, interior faces 1:-1 filled by the model, end faces written last by the boundary-condition table',
                  f'flux routine does not (create N+1 faces: {ok_init}, fill interior faces only: {interior}, apply the boundary table to the returned array: {ok_bc}, as the last writer: {last})',
                  construct=f'{q}: faces')


def r43(repo, ctx, index):
    n = 0
    targets = [(D, 'DiffusionModel', 'isSetup', {'x', '_recordedX', '_recordedTime', 't'}),
               ('kawin/precipitation/KWNBase.py', 'PrecipitateBase', '_isSetup', {'pData', 'PBM', 'growth'}),
               ('kawin/precipitation/KWNEuler.py', 'PrecipitateModel', '_isSetup', {'pData', 'PBM', 'growth', 'PSDXalpha', 'PSDXbeta', 'eqAspectRatio'})]
    for path, cls, flag, state in targets:
        key = (path, cls)
        sx = SymExec(repo, index, key)
        f = index.lookup_method(key, 'setup')[2]
        try:
            outs = [o for o in sx.run(f, fields={flag: const(True)}) if o.status != 'raise']
        except AnalysisError as e:
            ctx.undecided('R4.3', path, f'{cls}.setup', f, str(e))
            continue
        n += 1
        bad = []
        for o in outs:
            w = set(o.written) & state
            rec = [c for c, _ in o.calls if c.split('.')[-1] in ('record', 'buildProfile', 'applyBoundaryConditionsToInitialProfile', 'setSlice', '_setupAspectRatio')]
            if w or rec:
                bad.append((sorted(w), rec))
        ctx.analysed['paths'] += len(outs)
        ctx.check(bool(outs) and not bad, 'R4.3', path, f'{cls}.setup', f, f'with {flag} set, setup() writes no solver state and records nothing (it is called by every solve())',
                  f'setup() is not idempotent: with {flag} already set it still writes {bad[0][0] if bad else ""} / calls {bad[0][1] if bad else ""} - every additional solve() call changes the state',
                  construct=f'{cls}.setup[{flag}=True]')
        # and the flag is set by the first call
        outs0 = [o for o in sx.run(f, fields={flag: const(False)}) if o.status != 'raise']
        ok = bool(outs0) and all(o.fields.get(flag) == const(True) for o in outs0)
        ctx.check(ok, 'R4.3', path, f'{cls}.setup', f, f'the first setup() sets {flag}', f'setup() does not set {flag} on every path: the initialisation is repeated by the next solve()', construct=f'{cls}.setup[{flag}=False]')
    ctx.floor('R4.3', n, 3)
    gm = repo.func('kawin/GenericModel.py', 'GenericModel.solve')
    first = U.first_action_on(gm) or U.body_without_docstring(gm)[0]
    ctx.check(isinstance(first, ast.Expr) and U.call_name(first.value) == 'self.setup', 'R4.3', 'kawin/GenericModel.py', 'GenericModel.solve', first, 'solve() calls setup() every time (hence the idempotence requirement)', 'solve() no longer calls setup() first')


def r44_r45(repo, ctx, index):
    q = 'DiffusionModel.postProcess'
    f = repo.func(D, q)
    clip = None
    rec = None
    for s in f.body:
        if isinstance(s, ast.Assign) and U.chain(s.targets[0]) == ('self', 'x') and isinstance(s.value, ast.Call) and U.call_name(s.value) == 'np.clip':
            clip = s
        if isinstance(s, ast.Expr) and U.call_name(s.value) == 'self.record':
            rec = s
    ok = False
    if clip is not None:
        a = clip.value.args
        ok = len(a) == 3 and U.chain(a[0]) == ('self', 'x') and U.chain(a[1]) == ('self', 'constraints', 'minComposition') \
            and isinstance(a[2], ast.BinOp) and isinstance(a[2].op, ast.Sub) and U.is_const(a[2].left, 1) and U.chain(a[2].right) == ('self', 'constraints', 'minComposition')
    ctx.check(ok and rec is not None and U.seq(f)[id(clip)] < U.seq(f)[id(rec)], 'R4.4', D, q, clip or f, 'compositions are clipped to [minComposition, 1 - minComposition] before they are recorded',
              'the new compositions are not clipped to [minComposition, 1 - minComposition] before recording')
    pn = U.params(f)
    st = [s for s in f.body if isinstance(s, ast.Assign) and U.chain(s.targets[0]) == ('self', 't')]
    ctx.check(len(st) == 1 and isinstance(st[0].value, ast.Name) and st[0].value.id == pn[1], 'R4.4', D, q, st[0] if st else f, 'the model clock is set to the time given by the solver', 'the model clock is not set to the solver time')
    key = (D, 'DiffusionModel')
    writers = sorted({qq.split('.')[-1] for (_, qq, _, _) in index.field_writes(key, include_mro=False).get('x', [])})
    allowed = {'reset', 'setup', 'postProcess', 'fromDict', 'setMeshtoRecordedTime'}
    ctx.check(set(writers) <= allowed, 'R4.5', D, 'DiffusionModel', 0, f'the composition array is written only by {writers}', f'the composition array is also written by {sorted(set(writers) - allowed)}', construct=f'writers of x: {writers}')


def r46(repo, ctx, index):
    n = 0
    gm = ('kawin/GenericModel.py', 'GenericModel')
    for p_, q_, f_ in repo.all_functions():
        if not q_.endswith('.__init__') or '/Plot' in p_:
            continue
        try:
            k = index.class_key(p_, q_.split('.')[0])
        except Exception:
            continue
        if gm not in index.mro(k):
            continue
        n += 1
        a = f_.args
        bad = []
        for d in list(a.defaults) + [k for k in a.kw_defaults if k is not None]:
            if isinstance(d, (ast.List, ast.Dict, ast.Set)):
                bad.append(U.src(d))
            elif isinstance(d, ast.Call):
                nm = U.call_name(d) or ''
                if nm[:1].isupper() or nm in ('list', 'dict', 'set', 'np.zeros', 'np.array', 'np.ones'):
                    bad.append(U.src(d))
        if bad:
            ctx.violation('R4.6', p_, q_, f_, f'constructor default {bad} is created once at definition time and shared by all instances: configuring one model changes the others', construct=f'{q_}: default {bad[0]}')
    ctx.ok('R4.6', '', '', 0, f'no constructor ({n} checked) has a mutable object as default argument', construct=f'{n} constructors')
    ctx.floor('R4.6', n, 4)


def check(repo, ctx, index, purity):
    ctx.explanation = EXPLANATION
    ctx.assumptions += ['the conserved sums themselves (floating point) are not decided', 'homogenization flux-frame numerics are not decided']
    r41(repo, ctx)
    r42(repo, ctx)
    r43(repo, ctx, index)
    r44_r45(repo, ctx, index)
    r46(repo, ctx, index)
