"""C05 - the solver honours its time and state contract for any model.

R5.1 clamp over the finite order domain (exhaustive scenarios, NaN semantics per idiom)
R5.2 loop protocol of DESolver.solve (typestate over the loop-body CFG)
R5.3 built-in iterators pass dt through (shared with C06's interpreter)
R5.4 cursor discipline in unflattenX / size bookkeeping in Coupler.flattenX
R5.5 time window set by GenericModel.setTimeInfo / solve
R5.6 the default unflattenX returns a copy of the reference state (container type preserved)
"""
from __future__ import annotations
import ast
import math
from .. import astutil as U
from .. import cfg as C
from ..ordereval import Eval, dt_scenarios, same_value, NAN
from ..source import AnalysisError, AnchorMissing
from . import C06

SOLVER = 'kawin/solver/Solver.py'
GM = 'kawin/GenericModel.py'

EXPLANATION = (
    'R5.1 interprets the def-use chain from the model\'s getDt result to the returned dt over every ordering '
    'scenario of (dt, lo, hi) incl. NaN/inf/zero/negative and lo<hi, lo=hi, lo>hi (the latter arises on the last, '
    'shortened step); the chain may only compare and select, so one representative per scenario is exhaustive. '
    'R5.2 is a typestate check over all paths of the loop body of DESolver.solve. Together with R5.3 they give, over '
    'the reals: hi <= tf-currTime before each step, the step dt satisfies min(lo,hi) <= dt <= hi and is never NaN, '
    'currTime += dt exactly once per iteration, so currTime strictly increases (lo>0, remaining>0), never exceeds tf, '
    'the loop ends when currTime reaches tf or when postProcess returns stop. Floating-point exactness of the last '
    'addition and termination for minDtFrac=0 are runtime quantities and are not decided.')


def _field_from_param(repo, ctx, cls_init, pname):
    """field assigned from constructor parameter pname: self.<F> = pname"""
    for s in ast.walk(cls_init):
        for t, v in U.assign_pairs(s):
            if isinstance(v, ast.Name) and v.id == pname:
                c = U.chain(t)
                if c and c[0] == 'self' and len(c) == 2:
                    return c[1]
    return None


def bounds_roles(repo, ctx):
    """(lo_field, hi_field, solve FunctionDef): fields of DESolver assigned in solve() as frac*(tf-t0)"""
    init = repo.func(SOLVER, 'DESolver.__init__')
    solve = repo.func(SOLVER, 'DESolver.solve')
    fmin = _field_from_param(repo, ctx, init, 'minDtFrac')
    fmax = _field_from_param(repo, ctx, init, 'maxDtFrac')
    if not fmin or not fmax:
        raise AnchorMissing('DESolver.__init__ does not store minDtFrac/maxDtFrac')
    pn = U.params(solve)
    if len(pn) < 4:
        raise AnchorMissing('DESolver.solve signature changed')
    t0, tf = pn[1], pn[3]
    lo = hi = None
    lo_node = hi_node = None
    for s in solve.body:
        if isinstance(s, ast.While) and not (isinstance(s.test, ast.Constant) and not s.test.value):
            break
        if isinstance(s, ast.Assign) and len(s.targets) == 1:
            c = U.chain(s.targets[0])
            if c and c[0] == 'self' and len(c) == 2 and isinstance(s.value, ast.BinOp) and isinstance(s.value.op, ast.Mult):
                sides = [s.value.left, s.value.right]
                fr = [x for x in sides if U.chain(x) in (('self', fmin), ('self', fmax))]
                span = [x for x in sides if isinstance(x, ast.BinOp) and isinstance(x.op, ast.Sub)
                        and isinstance(x.left, ast.Name) and x.left.id == tf and isinstance(x.right, ast.Name) and x.right.id == t0]
                if len(fr) == 1 and len(span) == 1:
                    if U.chain(fr[0])[1] == fmin:
                        lo, lo_node = c[1], s
                    else:
                        hi, hi_node = c[1], s
    return lo, hi, solve, (t0, tf), (lo_node, hi_node), (fmin, fmax)


def r51_clamp(repo, ctx, lo, hi):
    f = repo.func(SOLVER, 'DESolver._getdXdt')
    q = 'DESolver._getdXdt'
    # locate the block that returns (dXdt, dt) and the call of the model's step proposal
    found = None
    for parent in ast.walk(f):
        for attr in ('body', 'orelse'):
            body = getattr(parent, attr, None)
            if not isinstance(body, list):
                continue
            for i, s in enumerate(body):
                if isinstance(s, ast.Return) and isinstance(s.value, ast.Tuple) and len(s.value.elts) == 2:
                    found = (body, i)
    if not found:
        ctx.undecided('R5.1', SOLVER, q, f, 'return (dXdt, dt) not found')
        return
    body, iret = found
    ret = body[iret]
    res_expr = ret.value.elts[1]
    prop_calls = [c for s in body[:iret + 1] for c in U.calls(s) if U.call_name(c) == 'self._getDt']
    if len(prop_calls) != 1:
        ctx.undecided('R5.1', SOLVER, q, ret, f'expected exactly one call of the model step proposal (self._getDt) before the return, found {len(prop_calls)}')
        return
    prop_key = U.dump(prop_calls[0])
    # backward slice: statements that (transitively) define the names used by the returned dt
    need = set(U.names_in(res_expr))
    rel = []
    for s in reversed(body[:iret]):
        tn = set()
        for n_ in ast.walk(s):
            if isinstance(n_, (ast.Assign, ast.AugAssign)):
                for t in U.flat_targets(n_):
                    tn |= U.target_names(t)
        if tn & need:
            rel.insert(0, s)
            # the step proposal is an atom of the evaluation: what it is computed from does not belong to the clamp chain
            atom_names = set()
            for c in U.calls(s):
                if U.dump(c) == prop_key:
                    atom_names |= {id(x) for x in ast.walk(c)}
            need |= {x.id for x in ast.walk(s) if isinstance(x, ast.Name) and id(x) not in atom_names}
    var = None
    lo_k, hi_k = U.dump(ast.parse(f'self.{lo}', mode='eval').body), U.dump(ast.parse(f'self.{hi}', mode='eval').body)
    n = 0
    bad = []
    try:
        for (L, H) in ((1.0, 2.0), (1.0, 1.0), (2.0, 1.0)):
            for d in dt_scenarios(L, H):
                ev = Eval({lo_k: L, hi_k: H, prop_key: d})
                ev.run(rel)
                r = ev.ev(res_expr)
                n += 1
                probs = []
                if isinstance(r, float) and math.isnan(r):
                    probs.append('result is NaN')
                else:
                    if not any(same_value(r, x) for x in (d, L, H)):
                        probs.append('result is none of dt, lo, hi')
                    if not (r <= H):
                        probs.append('result exceeds the upper bound')
                    if L <= H and not (r >= L):
                        probs.append('result is below the lower bound')
                if probs:
                    bad.append((d, L, H, r, probs))
    except AnalysisError as e:
        ctx.undecided('R5.1', SOLVER, q, ret, f'clamp chain left the compare-and-select idiom: {e}')
        return
    ctx.analysed['scenarios'] += n
    text = '; '.join(U.src(s) for s in rel) + ' -> ' + U.src(res_expr)
    if bad:
        d, L, H, r, probs = bad[0]
        ctx.violation('R5.1', SOLVER, q, rel[0] if rel else ret,
                      f'step clamp fails in {len(bad)} of {n} ordering scenarios, e.g. proposal={d}, lo={L}, hi={H} gives {r}: {", ".join(probs)}',
                      construct=text, scenarios=[(str(a), b, c, str(e_), p) for a, b, c, e_, p in bad[:8]])
    else:
        ctx.ok('R5.1', SOLVER, q, rel[0] if rel else ret,
               f'step clamp: all {n} ordering scenarios give a non-NaN value in {{dt,lo,hi}}, <= hi, and >= lo when lo<=hi', construct=text)


def r52_loop(repo, ctx, lo, hi, solve, names, init_nodes):
    q = 'DESolver.solve'
    t0, tf = names
    loops = [s for s in solve.body if isinstance(s, ast.While) and not (isinstance(s.test, ast.Constant) and not s.test.value)]
    if len(loops) != 1:
        ctx.undecided('R5.2', SOLVER, q, solve, f'expected exactly one top-level while loop in solve, found {len(loops)}')
        return
    loop = loops[0]
    # (vi) initial bounds
    ctx.check(init_nodes[0] is not None and init_nodes[1] is not None, 'R5.2', SOLVER, q, init_nodes[0] or solve,
              f'before the loop: self.{lo} = minfrac*(tf-t0), self.{hi} = maxfrac*(tf-t0)',
              'lower/upper step bounds are not initialised as fraction*(tf-t0) before the loop')
    # loop test
    test = loop.test
    conj = test.values if isinstance(test, ast.BoolOp) and isinstance(test.op, ast.And) else [test]
    cur = stop = None
    strict = False
    for c in conj:
        if isinstance(c, ast.Compare) and len(c.ops) == 1:
            l, r = c.left, c.comparators[0]
            if isinstance(r, ast.Name) and r.id == tf and isinstance(l, ast.Name) and isinstance(c.ops[0], (ast.Lt, ast.LtE)):
                cur, strict = l.id, isinstance(c.ops[0], ast.Lt)
            elif isinstance(l, ast.Name) and l.id == tf and isinstance(r, ast.Name) and isinstance(c.ops[0], (ast.Gt, ast.GtE)):
                cur, strict = r.id, isinstance(c.ops[0], ast.Gt)
        elif isinstance(c, ast.UnaryOp) and isinstance(c.op, ast.Not) and isinstance(c.operand, ast.Name):
            stop = c.operand.id
    if cur is None or stop is None:
        ctx.violation('R5.2', SOLVER, q, loop, 'loop test is not a conjunction of (currTime < tf) and (not stop)', construct=U.src(test))
        return
    extra = [c for c in conj if not ((isinstance(c, ast.Compare) and tf in U.names_in(c) and cur in U.names_in(c))
                                     or (isinstance(c, ast.UnaryOp) and isinstance(c.op, ast.Not) and isinstance(c.operand, ast.Name) and c.operand.id == stop))]
    ctx.check(not extra, 'R5.2', SOLVER, q, loop, 'the loop has no exit other than currTime reaching tf or a stop request',
              f'the loop test has a further conjunct ({U.src(extra[0]) if extra else ""}): when it fails the run ends before tf although no stop was requested',
              construct='solve: extra loop exit')
    def _exits(stmts):
        for st in stmts:
            if isinstance(st, (ast.Break, ast.Return)):
                yield st
            elif isinstance(st, (ast.For, ast.While)):
                yield from (x for x in _exits(st.body + st.orelse) if isinstance(x, ast.Return))
            elif not isinstance(st, (ast.FunctionDef, ast.ClassDef)):
                for fld in ('body', 'orelse', 'finalbody'):
                    yield from _exits(getattr(st, fld, None) or [])
                for h in getattr(st, 'handlers', None) or []:
                    yield from _exits(h.body)
    jumps = list(_exits(loop.body))
    ctx.check(not jumps, 'R5.2', SOLVER, q, jumps[0] if jumps else loop, 'no break / return leaves the loop body',
              'a break / return inside the loop body ends the run before tf although no stop was requested', construct='solve: jump out of the loop')
    ctx.check(strict, 'R5.2', SOLVER, q, loop, 'loop runs while currTime < tf (strict) and not stop',
              'loop test uses <=: at currTime == tf the remaining time is 0 and the loop cannot make progress', construct=U.src(test))
    # initial values
    pre = solve.body[:solve.body.index(loop)]
    init_cur = [s for s in pre if isinstance(s, ast.Assign) and any(isinstance(t, ast.Name) and t.id == cur for t in s.targets)]
    ctx.check(len(init_cur) >= 1 and isinstance(init_cur[-1].value, ast.Name) and init_cur[-1].value.id == t0, 'R5.2', SOLVER, q,
              init_cur[-1] if init_cur else loop, 'clock starts at t0', 'clock is not initialised to t0')
    init_stop = [s for s in pre if isinstance(s, ast.Assign) and any(isinstance(t, ast.Name) and t.id == stop for t in s.targets)]
    ctx.check(len(init_stop) >= 1 and U.is_const(init_stop[-1].value, False), 'R5.2', SOLVER, q,
              init_stop[-1] if init_stop else loop, 'stop flag starts False', 'stop flag is not initialised to False')

    hi_chain = ('self', hi)
    lo_chain = ('self', lo)
    g = C.build(loop.body, region=True)
    rem_key = None

    def classify(node):
        """events of one CFG node"""
        ev = []
        a = node.ast
        if node.kind == 'test' and isinstance(a, ast.If):
            return ev
        if node.kind != 'stmt':
            return ev
        tg = U.flat_targets(a) if isinstance(a, (ast.Assign, ast.AugAssign, ast.AnnAssign)) else []
        for t in tg:
            c = U.chain(t)
            if c == hi_chain:
                ev.append('hi')
            if c == lo_chain:
                ev.append('lo!')
            if c == ('self', '_X0'):
                ev.append('X0')
            if isinstance(t, ast.Name) and t.id == tf:
                ev.append('tf!')
            if isinstance(t, ast.Name) and t.id == cur:
                ev.append('time')
            if isinstance(t, ast.Name) and t.id == stop:
                ev.append('stopw')
        for c in U.calls(a):
            nm = U.call_name(c)
            if nm == 'self.iterator':
                ev.append('iter')
            if nm == 'self.postProcess':
                ev.append('post')
        return ev

    ORDER = ['hi', 'X0', 'iter', 'time', 'post']

    def transfer(node, st, label):
        st = dict(st)
        for e in classify(node):
            st[e] = min(2, st.get(e, 0) + 1)
            # ordering: record the events already seen when this one happens
            st['before:' + e] = tuple(sorted(k for k in ORDER if st.get(k, 0) > 0 and k != e))
        return tuple(sorted(st.items()))

    def tr(node, st, label):
        return transfer(node, dict(st), label)

    at, exits = C.collect(g, tuple(), tr)
    ctx.analysed['paths'] += sum(len(v) for v in exits.values())
    problems = []
    for label, states in exits.items():
        if label == 'break':
            continue
        for st in states:
            d = dict(st)
            if d.get('iter', 0) != 1:
                problems.append(f'iterator called {d.get("iter", 0)} time(s) on a path through the loop body')
            if d.get('time', 0) != 1:
                problems.append(f'clock updated {d.get("time", 0)} time(s) on a path through the loop body')
            if d.get('post', 0) != 1:
                problems.append(f'postProcess called {d.get("post", 0)} time(s) on a path through the loop body')
            if d.get('X0', 0) < 1 or 'iter' in d.get('before:X0', ()):
                problems.append('reference state _X0 is not stored before the iterator call')
            if 'iter' in d.get('before:hi', ()):
                problems.append('upper bound is written after the iterator call')
            if d.get('time') and 'iter' not in d.get('before:time', ()):
                problems.append('clock is updated before the iterator call')
            if d.get('post') and 'time' not in d.get('before:post', ()):
                problems.append('postProcess is called before the clock update')
            if d.get('lo!') or d.get('tf!'):
                problems.append('lower bound or end time is written inside the loop')
            if d.get('stopw', 0) > 1:
                problems.append('stop flag written more than once per iteration')
    problems = sorted(set(problems))
    if problems:
        for p in problems:
            ctx.violation('R5.2', SOLVER, q, loop, p, construct='loop body of DESolver.solve: ' + p)
    else:
        ctx.ok('R5.2', SOLVER, q, loop, 'on every path through the loop body: _X0 stored and upper bound written before exactly one iterator call, '
               'then exactly one clock update, then exactly one postProcess; lo/tf untouched', construct='loop body of DESolver.solve (typestate)')

    # (i) the shrink computes min(hi, tf-currTime): order-domain evaluation of the statements that write hi
    hi_stmts = []
    for s in loop.body:
        if any(U.chain(t) == hi_chain for n in ast.walk(s) if isinstance(n, (ast.Assign, ast.AugAssign)) for t in U.flat_targets(n)):
            hi_stmts.append(s)
    if not hi_stmts:
        ctx.violation('R5.2', SOLVER, q, loop, 'the upper step bound is never limited to the remaining time inside the loop',
                      construct='no write of the upper bound in the loop')
    else:
        rem = ast.parse(f'{tf} - {cur}', mode='eval').body
        hi_e = ast.parse(f'self.{hi}', mode='eval').body
        okk, n, worst = True, 0, None
        try:
            for H, R in ((2.0, 1.0), (1.0, 1.0), (1.0, 2.0), (float('inf'), 1.0), (0.5, 3.0)):
                ev = Eval({U.dump(rem): R, U.dump(hi_e): H})
                ev.run(hi_stmts, store_atoms={U.dump(hi_e)})
                n += 1
                if ev.atoms[U.dump(hi_e)] != min(H, R):
                    okk, worst = False, (H, R, ev.atoms[U.dump(hi_e)])
        except AnalysisError as e:
            ctx.undecided('R5.2', SOLVER, q, hi_stmts[0], f'upper-bound update left the compare-and-select idiom: {e}')
            okk = None
        ctx.analysed['scenarios'] += n
        if okk is not None:
            ctx.check(okk, 'R5.2', SOLVER, q, hi_stmts[0], 'upper bound becomes min(upper bound, tf - currTime) before the step',
                      f'upper bound is not limited to the remaining time (hi={worst and worst[0]}, remaining={worst and worst[1]} gives {worst and worst[2]})',
                      construct='; '.join(U.src(s) for s in hi_stmts))

    # def-use details: iterator call gets the clock, its dt feeds the clock, postProcess gets the clock and defines stop
    it_calls = [c for s in loop.body for c in U.calls(s) if U.call_name(c) == 'self.iterator']
    for c in it_calls:
        ctx.check(len(c.args) >= 2 and isinstance(c.args[1], ast.Name) and c.args[1].id == cur, 'R5.2', SOLVER, q, c,
                  'iterator receives the current clock as its time argument', 'iterator is not given the current clock value')
    dtvar = None
    for s in loop.body:
        if isinstance(s, ast.Assign) and isinstance(s.value, ast.Call) and U.call_name(s.value) == 'self.iterator':
            t = s.targets[0]
            if isinstance(t, ast.Tuple) and len(t.elts) == 2 and isinstance(t.elts[1], ast.Name):
                dtvar = t.elts[1].id
    upd = [s for s in ast.walk(loop) if isinstance(s, (ast.Assign, ast.AugAssign)) and any(isinstance(t, ast.Name) and t.id == cur for t in U.flat_targets(s))]
    for s in upd:
        good = False
        if isinstance(s, ast.AugAssign) and isinstance(s.op, ast.Add) and isinstance(s.value, ast.Name) and s.value.id == dtvar:
            good = True
        if isinstance(s, ast.Assign) and isinstance(s.value, ast.BinOp) and isinstance(s.value.op, ast.Add):
            ids = sorted(x.id for x in (s.value.left, s.value.right) if isinstance(x, ast.Name))
            good = dtvar is not None and ids == sorted([cur, dtvar])
        ctx.check(good, 'R5.2', SOLVER, q, s, 'clock advances by exactly the dt returned by the iterator',
                  'clock update is not currTime += (dt returned by the iterator)')
    for s in loop.body:
        for c in U.calls(s):
            if U.call_name(c) == 'self.postProcess':
                a_ok = len(c.args) >= 1 and isinstance(c.args[0], ast.Name) and c.args[0].id == cur
                t_ok = isinstance(s, ast.Assign) and isinstance(s.targets[0], ast.Tuple) and len(s.targets[0].elts) == 2 \
                    and isinstance(s.targets[0].elts[1], ast.Name) and s.targets[0].elts[1].id == stop
                ctx.check(a_ok and t_ok, 'R5.2', SOLVER, q, s, 'postProcess receives the updated clock and its second result is the stop flag tested by the loop',
                          'postProcess result does not define the stop flag / does not receive the clock')
    other_stop = [s for s in ast.walk(loop) if isinstance(s, (ast.Assign, ast.AugAssign)) and any(isinstance(t, ast.Name) and t.id == stop for t in U.flat_targets(s))
                  and not (isinstance(getattr(s, 'value', None), ast.Call) and U.call_name(s.value) == 'self.postProcess')]
    ctx.check(not other_stop, 'R5.2', SOLVER, q, other_stop[0] if other_stop else loop, 'stop flag is written only from the postProcess result',
              'stop flag is overwritten inside the loop by something other than the postProcess result')


def r53_iterators(repo, ctx):
    its = C06.iterator_functions(repo)
    ctx.floor('R5.3', len(its), 2)
    for q, f in its:
        try:
            itp = C06.Interp(f)
            itp.run(f)
            res = itp.result
            ok = isinstance(res, tuple) and len(res) == 3 and res[2] == itp.dt and itp.dt_defined
            first_t = itp.stages and itp.stages[0][0] == itp.t and itp.stages[0][1] == itp.X
        except AnalysisError as e:
            ctx.undecided('R5.3', C06.ITER, q, f, f'iterator left the straight-line idiom: {e}')
            continue
        ctx.check(ok, 'R5.3', C06.ITER, q, f, 'returns the dt obtained from the single f(t, X, True) call unmodified',
                  'iterator modifies or replaces the time step obtained from the solver wrapper', construct=f'{q}: returned dt')
        ctx.check(bool(first_t), 'R5.3', C06.ITER, q, f, 'the step proposal is requested at (t, X_old)',
                  'the step proposal is not requested at the current time and state', construct=f'{q}: first stage')


def _loop_cursor_check(ctx, path, q, func, flat_param, rule='R5.4'):
    """every path through each loop body that reads flat[c] / flat[c:c+L] advances c by exactly that length"""
    loops = [n for n in ast.walk(func) if isinstance(n, ast.For)]
    n_checked = 0
    for loop in loops:
        reads = [n for n in ast.walk(loop) if isinstance(n, ast.Subscript) and isinstance(n.value, ast.Name) and n.value.id == flat_param]
        if not reads:
            continue
        cursors = set()
        for r in reads:
            s = r.slice
            low = s.lower if isinstance(s, ast.Slice) else s
            if isinstance(low, ast.Name):
                cursors.add(low.id)
        if len(cursors) != 1:
            ctx.undecided(rule, path, q, loop, 'could not identify a single cursor variable indexing the flat array')
            continue
        cur = cursors.pop()
        g = C.build(loop.body, region=True)

        def tr(node, st, label, cur=cur):
            used, adv, nread, env_ = st
            env = dict(env_)

            def val(e):
                # the value of e in terms of the names as they stood on entry to the loop body (locals bound on this path are unfolded)
                class R(ast.NodeTransformer):
                    def visit_Name(self, n):
                        if isinstance(n.ctx, ast.Load) and n.id in env and n.id != cur:
                            return ast.parse(env[n.id], mode='eval').body
                        return n
                import copy as _copy
                return U.src(R().visit(_copy.deepcopy(e)))
            used, adv, nread = _tr(node, (used, adv, nread), label, cur, val)
            a = node.ast
            if node.kind == 'stmt' and isinstance(a, ast.Assign) and len(a.targets) == 1 and isinstance(a.targets[0], ast.Name) and a.targets[0].id != cur:
                env[a.targets[0].id] = val(a.value)
            elif node.kind == 'stmt' and isinstance(a, (ast.Assign, ast.AugAssign, ast.AnnAssign)):
                for t_ in (U.flat_targets(a) if isinstance(a, ast.Assign) else [a.target]):
                    if isinstance(t_, ast.Name):
                        env.pop(t_.id, None)
                        env[t_.id] = f'__opaque_{node.id}__'
            return (used, adv, nread, tuple(sorted(env.items())))

        def _tr(node, st, label, cur, val):
            used, adv, nread = st
            a = node.ast
            eff = C.simple_effect_node(node)
            if eff is not None:
                for r in ast.walk(eff):
                    if isinstance(r, ast.Subscript) and isinstance(r.value, ast.Name) and r.value.id == flat_param:
                        s = r.slice
                        if isinstance(s, ast.Slice):
                            up = s.upper
                            L = None
                            if isinstance(up, ast.BinOp) and isinstance(up.op, ast.Add):
                                if isinstance(up.left, ast.Name) and up.left.id == cur:
                                    L = val(up.right)
                                elif isinstance(up.right, ast.Name) and up.right.id == cur:
                                    L = val(up.left)
                            used = used + ((L if (isinstance(s.lower, ast.Name) and s.lower.id == cur and s.step is None) else 'BAD'),)
                        else:
                            used = used + (('1' if isinstance(s, ast.Name) and s.id == cur else 'BAD'),)
                        nread += 1
            if node.kind == 'stmt' and isinstance(a, ast.AugAssign) and isinstance(a.target, ast.Name) and a.target.id == cur:
                adv = adv + ((val(a.value) if isinstance(a.op, ast.Add) else 'BAD'),)
            elif node.kind == 'stmt' and isinstance(a, ast.Assign) and any(isinstance(t, ast.Name) and t.id == cur for t in U.flat_targets(a)):
                v = a.value
                if isinstance(v, ast.BinOp) and isinstance(v.op, ast.Add) and isinstance(v.left, ast.Name) and v.left.id == cur:
                    adv = adv + (val(v.right),)
                elif isinstance(v, ast.BinOp) and isinstance(v.op, ast.Add) and isinstance(v.right, ast.Name) and v.right.id == cur:
                    adv = adv + (val(v.left),)
                else:
                    adv = adv + ('BAD',)
            return (used, adv, nread)

        at, exits = C.collect(g, (tuple(), tuple(), 0, tuple()), tr)
        bad = []
        npaths = 0
        for label, states in exits.items():
            for used, adv, nread, _env in states:
                npaths += 1
                if label == 'break':
                    continue
                if len(used) != 1 or len(adv) != 1 or used[0] != adv[0] or 'BAD' in used or 'BAD' in adv or used[0] is None:
                    bad.append((used, adv))
        ctx.analysed['paths'] += npaths
        n_checked += 1
        ctx.check(not bad, rule, path, q, loop, f'on all {npaths} paths of the loop body the cursor {cur} advances by exactly the length of the slice read from {flat_param}',
                  f'cursor {cur} is not advanced by exactly the length of the slice it just read (on {len(bad)} path(s))',
                  construct=f'{q}: cursor {cur} over {flat_param}')
    return n_checked


def r56_container(repo, ctx):
    """R5.6: the default unflattenX hands the callbacks a state with the nested structure the model supplied: what it returns is a
    copy of the reference state (whose items it replaces), not a container of a fixed type built from scratch"""
    q = 'GenericModel.unflattenX'
    f = repo.func(GM, q)
    ref = U.params(f)[2] if len(U.params(f)) >= 3 else None
    rets = [n for n in U.walk_no_nested(f) if isinstance(n, ast.Return) and n.value is not None]
    if ref is None or not rets:
        ctx.undecided('R5.6', GM, q, f, 'expected unflattenX(self, X_flat, X_ref) returning the rebuilt state')
        return
    n = 0
    for r in rets:
        v = r.value
        if isinstance(v, ast.Name):
            binds = [a for a in U.walk_no_nested(f) if isinstance(a, ast.Assign) and any(isinstance(t, ast.Name) and t.id == v.id for t in a.targets)]
            if len(binds) == 1:
                v = binds[0].value
        fixed = isinstance(v, (ast.List, ast.ListComp, ast.Tuple, ast.Dict, ast.DictComp, ast.GeneratorExp)) or \
            (isinstance(v, ast.Call) and (U.call_name(v) or '') in ('list', 'tuple', 'np.array', 'np.asarray', 'dict'))
        copyish = isinstance(v, ast.Call) and ((U.call_name(v) or '') in ('copy.copy', 'copy.deepcopy', 'copy', 'deepcopy', f'{ref}.copy', f'type({ref})')
                                               or (isinstance(v.func, ast.Call) and (U.call_name(v.func) or '') == 'type')) and ref in U.names_in(v)
        n += 1
        if fixed:
            ctx.violation('R5.6', GM, q, r, f'unflattenX returns a container built from scratch ({U.src(v)[:70]}): a model whose state is not of that type (an array of scalars, a '
                          'tuple, ...) receives a differently structured state in getdXdt / correctdXdt / postProcess', construct='unflattenX: container type')
        elif copyish:
            ctx.ok('R5.6', GM, q, r, f'the returned state is a copy of the reference state {ref} with its items replaced', construct='unflattenX: container type')
        else:
            ctx.undecided('R5.6', GM, q, r, f'origin of the returned container not recognised: {U.src(v)[:70]}')
    ctx.floor('R5.6', n, 1)


def _running_sum_slices(ctx, path, q, func, flat_param, rule='R5.4'):
    """the cursor written as a running sum: (start, end) pairs taken from pairwise(accumulate(sizes, initial=0)) are consecutive
    and start at 0 by construction; the flat vector must be read only through flat[start:end] with that pair"""
    binds = {st.targets[0].id: st.value for st in ast.walk(func) if isinstance(st, ast.Assign) and len(st.targets) == 1 and isinstance(st.targets[0], ast.Name)}

    def nm(c):
        return c.func.id if isinstance(c.func, ast.Name) else c.func.attr if isinstance(c.func, ast.Attribute) else None

    def is_running(e):
        if isinstance(e, ast.Name) and e.id in binds:
            if sum(1 for n in ast.walk(func) if isinstance(n, ast.Name) and n.id == e.id and isinstance(n.ctx, ast.Load)) != 1:
                return False            # an iterator can be consumed once
            e = binds[e.id]
        if not (isinstance(e, ast.Call) and nm(e) == 'pairwise' and len(e.args) == 1 and isinstance(e.args[0], ast.Call) and nm(e.args[0]) == 'accumulate'):
            return False
        acc = e.args[0]
        init = [k.value for k in acc.keywords if k.arg == 'initial']
        return len(acc.args) == 1 and len(init) == 1 and U.is_const(init[0], 0)
    found = 0
    for node in ast.walk(func):
        gens = node.generators if isinstance(node, (ast.ListComp, ast.GeneratorExp)) else [node] if isinstance(node, ast.For) else []
        for g in gens:
            it = g.iter
            if not (isinstance(it, ast.Call) and nm(it) == 'zip' and isinstance(g.target, ast.Tuple) and len(g.target.elts) == len(it.args)):
                continue
            for a, t in zip(it.args, g.target.elts):
                if is_running(a) and isinstance(t, ast.Tuple) and len(t.elts) == 2 and all(isinstance(x, ast.Name) for x in t.elts):
                    lo, hi = t.elts[0].id, t.elts[1].id
                    body = [node.elt] if not isinstance(node, ast.For) else node.body
                    reads = [s_ for b in body for s_ in ast.walk(b) if isinstance(s_, ast.Subscript) and isinstance(s_.value, ast.Name) and s_.value.id == flat_param]
                    ok = bool(reads) and all(isinstance(r.slice, ast.Slice) and isinstance(r.slice.lower, ast.Name) and r.slice.lower.id == lo
                                             and isinstance(r.slice.upper, ast.Name) and r.slice.upper.id == hi and r.slice.step is None for r in reads)
                    other = [n for n in ast.walk(func) if isinstance(n, ast.Name) and n.id == flat_param and isinstance(n.ctx, ast.Load)]
                    ok = ok and len(other) == len(reads)
                    found += 1
                    ctx.check(ok, rule, path, q, node, f'{flat_param} is read only through {flat_param}[{lo}:{hi}] with ({lo}, {hi}) consecutive offsets of the running sum of the recorded sizes',
                              f'{flat_param} is not read exactly through the consecutive (start, end) offsets of the running sum', construct=f'{q}: running-sum offsets over {flat_param}')
    return found


def r54_cursors(repo, ctx):
    r56_container(repo, ctx)
    n = 0
    for q in ('GenericModel.unflattenX', 'Coupler.unflattenX'):
        f = repo.func(GM, q)
        k = _loop_cursor_check(ctx, GM, q, f, U.params(f)[1])
        if k == 0:
            k = _running_sum_slices(ctx, GM, q, f, U.params(f)[1])
        n += k
    ctx.floor('R5.4', n, 2)
    # Coupler.flattenX: _sizeRef assigned on all paths from the arrays that are concatenated
    q = 'Coupler.flattenX'
    f = repo.func(GM, q)
    g = C.build(f)

    def gen(node, label):
        a = node.ast
        if node.kind == 'stmt' and isinstance(a, ast.Assign) and any(U.chain(t) == ('self', '_sizeRef') for t in a.targets):
            return {'size'}
        return set()
    IN = C.must_forward(g, gen)
    rets = [n_ for n_ in g.nodes if n_.kind == 'stmt' and isinstance(n_.ast, ast.Return)]
    allp = all(IN[r.id] is not None and 'size' in IN[r.id] for r in rets) and bool(rets)
    ctx.check(allp, 'R5.4', GM, q, f, 'the per-model sizes (_sizeRef) are recorded on every path through flattenX',
              'the per-model sizes are not recorded on every call of flattenX, so unflattenX can slice with stale sizes after a model changed its state shape',
              construct='Coupler.flattenX: self._sizeRef written on all paths')
    asg = [s for s in ast.walk(f) if isinstance(s, ast.Assign) and any(U.chain(t) == ('self', '_sizeRef') for t in s.targets)]
    for s in asg:
        v = s.value
        src_list = None
        if isinstance(v, ast.ListComp) and len(v.generators) == 1 and isinstance(v.generators[0].iter, ast.Name):
            gen_ = v.generators[0]
            e = v.elt
            tn = gen_.target.id if isinstance(gen_.target, ast.Name) else None
            if isinstance(e, ast.Call) and U.call_name(e) == 'len' and isinstance(e.args[0], ast.Name) and e.args[0].id == tn:
                src_list = gen_.iter.id
            if isinstance(e, ast.Attribute) and e.attr == 'size' and isinstance(e.value, ast.Name) and e.value.id == tn:
                src_list = gen_.iter.id
        if isinstance(v, ast.Call) and isinstance(v.func, ast.Name) and v.func.id in ('list', 'tuple') and len(v.args) == 1 and isinstance(v.args[0], ast.Call) \
                and isinstance(v.args[0].func, ast.Name) and v.args[0].func.id == 'map' and len(v.args[0].args) == 2 \
                and isinstance(v.args[0].args[0], ast.Name) and v.args[0].args[0].id == 'len' and isinstance(v.args[0].args[1], ast.Name):
            src_list = v.args[0].args[1].id          # list(map(len, X_new))
        ok = False
        if src_list:
            for r in rets:
                v2 = r.ast.value
                if isinstance(v2, ast.Call) and U.call_name(v2) in ('np.concatenate', 'np.hstack') and v2.args and isinstance(v2.args[0], ast.Name) and v2.args[0].id == src_list:
                    ok = True
        ctx.check(ok, 'R5.4', GM, q, s, 'sizes are the lengths of exactly the arrays that are concatenated',
                  'recorded sizes are not derived from the arrays that are concatenated')


def r55_window(repo, ctx):
    q = 'GenericModel.setTimeInfo'
    f = repo.func(GM, q)
    pn = U.params(f)
    cur, sim = pn[1], pn[2]
    vals = {}
    for s in ast.walk(f):
        if isinstance(s, ast.Assign) and len(s.targets) == 1:
            c = U.chain(s.targets[0])
            if c and c[0] == 'self' and len(c) == 2:
                vals[c[1]] = s
    it = vals.get('initialTime')
    ft = vals.get('finalTime')
    ok1 = it is not None and isinstance(it.value, ast.Name) and it.value.id == cur
    ok2 = False
    if ft is not None and isinstance(ft.value, ast.BinOp) and isinstance(ft.value.op, ast.Add):
        ids = sorted(x.id for x in (ft.value.left, ft.value.right) if isinstance(x, ast.Name))
        ok2 = ids == sorted([cur, sim])
    ctx.check(ok1 and ok2, 'R5.5', GM, q, ft or f, 'initialTime = currTime and finalTime = currTime + simTime',
              'time window is not (currTime, currTime + simTime)')
    q = 'GenericModel.solve'
    f = repo.func(GM, q)
    calls = [c for c in U.calls(f) if U.call_attr(c) == 'solve' and U.call_name(c) != 'self.solve']
    ok = False
    for c in calls:
        a0, a2 = U.call_arg(c, 0, 't0'), U.call_arg(c, 2, 'tf')
        if a0 is not None and a2 is not None and U.chain(a0) == ('self', 'initialTime') and U.chain(a2) == ('self', 'finalTime'):
            ok = True
    sti = [c for c in U.calls(f) if U.call_name(c) == 'self.setTimeInfo']
    ok_sti = False
    simname = U.params(f)[1]
    for c in sti:
        a1 = U.call_arg(c, 1, U.params(repo.func(GM, 'GenericModel.setTimeInfo'))[2])
        if isinstance(a1, ast.Name) and a1.id == simname:
            ok_sti = True
    ctx.check(ok and ok_sti, 'R5.5', GM, q, calls[0] if calls else f, 'solver is run from initialTime to finalTime with simTime as given by the caller',
              'GenericModel.solve does not pass (initialTime, X0, finalTime) to the solver / setTimeInfo(t, simTime)')
    # setup precedes everything
    body = U.body_without_docstring(f)
    first = U.first_action_on(f) or (body[0] if body else None)
    ctx.check(isinstance(first, ast.Expr) and isinstance(first.value, ast.Call) and U.call_name(first.value) == 'self.setup', 'R5.5', GM, q, first or f,
              'setup() is the first action of solve()', 'setup() is not called first in solve()')


def check(repo, ctx, index, purity):
    ctx.explanation = EXPLANATION
    ctx.assumptions += ['real arithmetic for the clock argument (floating-point exactness of the final step is not decided)',
                        'user-supplied iterators are outside the decided part',
                        'Python/numpy NaN semantics of min/max/np.minimum/np.fmin as tabulated in kverif/ordereval.py']
    lo, hi, solve, names, init_nodes, fr = bounds_roles(repo, ctx)
    if lo is None or hi is None:
        ctx.violation('R5.2', SOLVER, 'DESolver.solve', solve, 'step bounds are not initialised as minDtFrac*(tf-t0) / maxDtFrac*(tf-t0) before the loop',
                      construct='bounds initialisation')
        return
    r51_clamp(repo, ctx, lo, hi)
    r52_loop(repo, ctx, lo, hi, solve, names, init_nodes)
    r53_iterators(repo, ctx)
    r54_cursors(repo, ctx)
    r55_window(repo, ctx)
    ctx.extra['exhaustive'] = True
