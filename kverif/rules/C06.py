"""C06 - integrators reach their nominal order, stage times as documented, state not mutated.

R6.1  Butcher tableau extracted from each built-in iterator by abstract interpretation over
      polynomial forms in (t, dt, X, k_i) with exact rationals; obligations: explicit scheme,
      row-sum consistency c_i = sum_j a_ij, order conditions up to the nominal order, documented
      stage times.
R6.2  DESolver._updateX returns x + F(dxdt)*dt without touching x; DESolver._getdXdt forwards its
      t unchanged to the model callback.
R6.3  T-PURE on X_old of every iterator and on x of _updateX.
"""
from __future__ import annotations
import ast
from fractions import Fraction
from .. import astutil as U
from ..source import AnalysisError, AnchorMissing

ITER = 'kawin/solver/Iterators.py'
SOLVER = 'kawin/solver/Solver.py'
NOMINAL = {'ExplicitEulerIterator': (1, [Fraction(0)]),
           'RK4Iterator': (4, [Fraction(0), Fraction(1, 2), Fraction(1, 2), Fraction(1)])}

EXPLANATION = (
    'Each built-in iterator is interpreted symbolically (no execution): f(tau, Y[,True]) yields a fresh stage '
    'derivative k_i and records (tau_i, Y_i); updateX(x,d,h) is x + h*d (justified by R6.2 on DESolver._updateX). '
    'From the recorded forms the Butcher tableau (c, A, b) is read off with exact rationals. The classical '
    'order-condition theorem (Butcher; Hairer-Norsett-Wanner II.2) then decides the order of accuracy for every '
    'smooth ODE: conditions up to order p plus the row-sum condition c_i = sum_j a_ij (which is exactly what makes '
    'the autonomous order conditions sufficient for explicitly time-dependent right-hand sides).')


def iterator_functions(repo):
    out = []
    for q, f in repo.functions(ITER):
        names = U.params(f)
        if len(names) == 4 and '.' not in q:
            out.append((q, f))
    return out


class Interp:
    """straight-line interpreter over sympy polynomial forms"""

    def __init__(self, func):
        import sympy as sp
        self.sp = sp
        names = U.params(func)
        self.fname, self.tname, self.xname, self.uname = names
        self.t, self.dt, self.X = sp.symbols('t dt X')
        # names refer to boxes: `a = b` shares the box, an augmented assignment on an array-valued box
        # (one that contains X or a stage derivative) is in place and therefore visible through every alias
        self.boxes = [self.t, self.X]
        self.ref = {self.tname: 0, self.xname: 1}
        self.ks = []
        self.stages = []       # (tau_expr, Y_expr, call node)
        self.dt_defined = False
        self.result = None

    def bind(self, name, value):
        self.boxes.append(value)
        self.ref[name] = len(self.boxes) - 1

    def k(self):
        s = self.sp.Symbol(f'k{len(self.ks) + 1}')
        self.ks.append(s)
        return s

    def ev(self, e):
        sp = self.sp
        if isinstance(e, ast.Constant) and isinstance(e.value, (int, float)) and not isinstance(e.value, bool):
            return sp.Rational(str(e.value)) if isinstance(e.value, float) else sp.Integer(e.value)
        if isinstance(e, ast.Name):
            if e.id in self.ref:
                return self.boxes[self.ref[e.id]]
            raise AnalysisError(f'unknown name {e.id}')
        if isinstance(e, ast.UnaryOp) and isinstance(e.op, (ast.USub, ast.UAdd)):
            v = self.ev(e.operand)
            return -v if isinstance(e.op, ast.USub) else v
        if isinstance(e, ast.BinOp):
            a, b = self.ev(e.left), self.ev(e.right)
            if isinstance(e.op, ast.Add):
                return a + b
            if isinstance(e.op, ast.Sub):
                return a - b
            if isinstance(e.op, ast.Mult):
                return a * b
            if isinstance(e.op, ast.Div):
                return a / b
            if isinstance(e.op, ast.Pow):
                return a ** b
            raise AnalysisError('unsupported operator')
        if isinstance(e, ast.Call):
            fn = U.call_name(e)
            if fn == self.fname:
                if len(e.args) < 2:
                    raise AnalysisError('derivative callback called with fewer than 2 arguments')
                tau, Y = self.ev(e.args[0]), self.ev(e.args[1])
                want_dt = len(e.args) >= 3 and isinstance(e.args[2], ast.Constant) and e.args[2].value is True
                want_dt = want_dt or any(k.arg == 'getDt' and isinstance(k.value, ast.Constant) and k.value.value is True for k in e.keywords)
                kk = self.k()
                self.stages.append((tau, Y, e))
                if want_dt:
                    if self.dt_defined:
                        raise AnalysisError('time step requested from the model more than once')
                    self.dt_defined = True
                    return ('tuple', kk, self.dt)
                return kk
            if fn == self.uname:
                if len(e.args) != 3:
                    raise AnalysisError('updateX called with wrong arity')
                x, d, h = (self.ev(a) for a in e.args)
                return x + h * d
            raise AnalysisError(f'unknown call {fn}')
        if isinstance(e, ast.Tuple):
            return ('tuple',) + tuple(self.ev(x) for x in e.elts)
        raise AnalysisError(f'unsupported expression {U.src(e)}')

    def run(self, func):
        self.func = func
        for s in U.body_without_docstring(func):
            if isinstance(s, ast.Assign) and len(s.targets) == 1:
                t = s.targets[0]
                if getattr(self, 'func', None) is not None and U.dead_callfree_store(self.func, s):
                    continue
                if isinstance(t, ast.Name) and isinstance(s.value, ast.Name) and s.value.id in self.ref:
                    self.ref[t.id] = self.ref[s.value.id]          # alias: same object
                    continue
                v = self.ev(s.value)
                if isinstance(t, ast.Name):
                    self.bind(t.id, v)
                elif isinstance(t, ast.Tuple) and isinstance(v, tuple) and v[0] == 'tuple' and len(v) - 1 == len(t.elts):
                    for tt, vv in zip(t.elts, v[1:]):
                        if not isinstance(tt, ast.Name):
                            raise AnalysisError('unsupported target')
                        self.bind(tt.id, vv)
                else:
                    raise AnalysisError('unsupported assignment')
            elif isinstance(s, ast.AugAssign) and isinstance(s.target, ast.Name):
                cur = self.ev(ast.Name(id=s.target.id, ctx=ast.Load()))
                rhs = self.ev(s.value)
                op = s.op
                if isinstance(op, ast.Add):
                    new = cur + rhs
                elif isinstance(op, ast.Sub):
                    new = cur - rhs
                elif isinstance(op, ast.Mult):
                    new = cur * rhs
                elif isinstance(op, ast.Div):
                    new = cur / rhs
                else:
                    raise AnalysisError('unsupported augmented assignment')
                arrayish = hasattr(cur, 'free_symbols') and any(sym == self.X or sym in self.ks for sym in cur.free_symbols)
                if arrayish:
                    self.boxes[self.ref[s.target.id]] = new        # in place: seen through all aliases
                else:
                    self.bind(s.target.id, new)
            elif isinstance(s, ast.Return):
                self.result = self.ev(s.value)
                return
            elif isinstance(s, ast.Expr) and isinstance(s.value, ast.Constant):
                continue
            elif isinstance(s, (ast.Pass, ast.Assert, ast.Import, ast.ImportFrom)) or U.is_inert_output(s) or U.is_raise_guard(s):
                continue        # an assertion either holds or ends the step with an exception: the values on the normal path are unchanged
            else:
                raise AnalysisError(f'statement kind {type(s).__name__} outside the straight-line iterator idiom')
        raise AnalysisError('iterator does not return')


def tableau(interp):
    sp = interp.sp
    t, dt, X, ks = interp.t, interp.dt, interp.X, interp.ks
    s = len(ks)
    c, A = [], []
    for i, (tau, Y, _) in enumerate(interp.stages):
        ci = sp.simplify((sp.expand(tau) - t) / dt)
        if not ci.is_Rational:
            raise AnalysisError(f'stage {i + 1} time is not of the form t + c*dt: {tau}')
        c.append(Fraction(int(ci.p), int(ci.q)))
        row = []
        Yx = sp.expand(Y - X)
        rest = Yx
        for kj in ks:
            co = sp.expand(Yx).coeff(kj)
            aij = sp.simplify(co / dt)
            if not aij.is_Rational:
                raise AnalysisError(f'stage {i + 1} state is not X + dt*sum a_ij k_j')
            row.append(Fraction(int(aij.p), int(aij.q)))
            rest = sp.expand(rest - co * kj)
        if rest != 0:
            raise AnalysisError(f'stage {i + 1} state has a term outside X + dt*sum a_ij k_j: {rest}')
        A.append(row)
    res = interp.result
    if not (isinstance(res, tuple) and res[0] == 'tuple' and len(res) == 3):
        raise AnalysisError('iterator must return (X_new, dt)')
    Xn, dtr = res[1], res[2]
    b = []
    rest = sp.expand(Xn - X)
    for kj in ks:
        co = sp.expand(Xn - X).coeff(kj)
        bj = sp.simplify(co / dt)
        if not bj.is_Rational:
            raise AnalysisError('returned state is not X + dt*sum b_j k_j')
        b.append(Fraction(int(bj.p), int(bj.q)))
        rest = sp.expand(rest - co * kj)
    if rest != 0:
        raise AnalysisError(f'returned state has a term outside X + dt*sum b_j k_j: {rest}')
    return c, A, b, dtr


def order_conditions(c, A, b, p):
    s = len(b)
    R = range(s)
    conds = []
    conds.append(('sum b = 1', sum(b), Fraction(1)))
    if p >= 2:
        conds.append(('sum b c = 1/2', sum(b[i] * c[i] for i in R), Fraction(1, 2)))
    if p >= 3:
        conds.append(('sum b c^2 = 1/3', sum(b[i] * c[i] ** 2 for i in R), Fraction(1, 3)))
        conds.append(('sum b A c = 1/6', sum(b[i] * A[i][j] * c[j] for i in R for j in R), Fraction(1, 6)))
    if p >= 4:
        conds.append(('sum b c^3 = 1/4', sum(b[i] * c[i] ** 3 for i in R), Fraction(1, 4)))
        conds.append(('sum b c A c = 1/8', sum(b[i] * c[i] * A[i][j] * c[j] for i in R for j in R), Fraction(1, 8)))
        conds.append(('sum b A c^2 = 1/12', sum(b[i] * A[i][j] * c[j] ** 2 for i in R for j in R), Fraction(1, 12)))
        conds.append(('sum b A A c = 1/24', sum(b[i] * A[i][j] * A[j][k] * c[k] for i in R for j in R for k in R), Fraction(1, 24)))
    return conds


def check(repo, ctx, index, purity):
    ctx.explanation = EXPLANATION
    ctx.assumptions += ['Python ast parser', 'sympy polynomial arithmetic over exact rationals',
                        'order-condition theorem for Runge-Kutta methods (applies to sufficiently smooth right-hand sides)',
                        'user-supplied iterators are outside the property as decided here']
    its = iterator_functions(repo)
    ctx.floor('R6.1', len(its), 2)
    tableaux = {}
    for q, f in its:
        try:
            itp = Interp(f)
            itp.run(f)
            c, A, b, dtr = tableau(itp)
        except AnalysisError as e:
            # branching iterator: the tableau is not read off, but every path to a return must still evaluate every stage
            from .. import cfg as C
            fname = U.params(f)[0]
            g = C.build(f)

            def tr(node, st, label, fname=fname):
                eff = C.simple_effect_node(node)
                k = sum(1 for c in (U.calls(eff) if eff is not None else []) if isinstance(c.func, ast.Name) and c.func.id == fname)
                return min(st + k, 99)
            try:
                at, exits = C.collect(g, 0, tr)
                counts = sorted({s_ for lab, sts in exits.items() if lab in ('return', 'fall') for s_ in sts})
            except Exception:
                counts = []
            if len(counts) > 1:
                ctx.violation('R6.1', ITER, q, f, f'paths through {q} return after {counts[:-1]} evaluation(s) of the right-hand side while the full scheme uses {counts[-1]}: on the short path '
                              'the remaining stages are skipped, which is only exact for an autonomous right-hand side that stays zero - for a time-dependent problem the step loses its order',
                              construct=f'{q}: stage evaluations per path {counts}')
            else:
                ctx.undecided('R6.1', ITER, q, f, f'iterator left the straight-line idiom: {e}')
            continue
        s = len(b)
        tableaux[q] = {'c': [str(x) for x in c], 'A': [[str(x) for x in r] for r in A], 'b': [str(x) for x in b]}
        ctx.analysed['scenarios'] += s
        # explicit
        expl = all(A[i][j] == 0 for i in range(s) for j in range(i, s))
        ctx.check(expl, 'R6.1', ITER, q, f, 'scheme is explicit (A strictly lower triangular)',
                  'stage uses a derivative that is not yet available', construct=f'{q}: A={tableaux[q]["A"]}')
        # returned dt is the model's dt
        ctx.check(dtr == itp.dt and itp.dt_defined, 'R6.1', ITER, q, f, 'second result is the dt obtained from the single f(...,True) call, unmodified',
                  'returned time step is not the one obtained from the model callback', construct=f'{q}: returns dt={dtr}')
        # consistency
        for i in range(s):
            rs = sum(A[i])
            call = itp.stages[i][2]
            ctx.check(c[i] == rs, 'R6.1', ITER, q, call,
                      f'stage {i + 1}: c={c[i]} equals row sum of A ({rs}) - stage time matches stage state',
                      f'stage {i + 1} is evaluated at t+{c[i]}*dt but its state is advanced by {rs}*dt: inconsistent for time-dependent right-hand sides',
                      construct=f'{q} stage {i + 1}: {U.src(call)}')
        nominal = NOMINAL.get(q)
        p = nominal[0] if nominal else 1
        for name, lhs, rhs in order_conditions(c, A, b, p):
            ctx.check(lhs == rhs, 'R6.1', ITER, q, f, f'order condition {name} (value {lhs})',
                      f'order condition {name} violated: value {lhs}', construct=f'{q}: {name}')
        if nominal:
            ctx.check(c == nominal[1], 'R6.1', ITER, q, f, f'documented stage times {[str(x) for x in nominal[1]]}',
                      f'stage times {[str(x) for x in c]} differ from the documented {[str(x) for x in nominal[1]]}',
                      construct=f'{q}: c={[str(x) for x in c]}')
        else:
            ctx.advisory(f'{q}: iterator without a documented nominal order; checked for consistency and order 1 only')
    ctx.extra['tableaux'] = tableaux

    # R6.5 the clock advances by the dt the iterator integrated with (shared with C05 R5.2): an order-p step of size dt that is
    # booked as a different time step is not an order-p method on the solver's time grid
    from . import C05
    sub = type(ctx)(ctx.prop, ctx.repo, ctx.tier, ctx.seed)
    lo, hi, solve, names, init_nodes, fr = C05.bounds_roles(repo, sub)
    if lo and hi:
        C05.r52_loop(repo, sub, lo, hi, solve, names, init_nodes)
    for fnd in sub.findings:
        fnd.rule = 'R6.5/' + fnd.rule
        ctx.findings.append(fnd)

    # R6.2 wrapper shape
    try:
        upd = repo.func(SOLVER, 'DESolver._updateX')
        getd = repo.func(SOLVER, 'DESolver._getdXdt')
    except AnchorMissing as e:
        ctx.undecided('R6.2', SOLVER, 'DESolver', 0, str(e))
        upd = getd = None
    if upd is not None:
        pn = U.params(upd)          # self, x, dxdt, dt
        rets = [n for n in ast.walk(upd) if isinstance(n, ast.Return)]
        ok = False
        what = 'no return'
        if len(rets) == 1 and len(pn) == 4:
            v = rets[0].value
            xn, dn, hn = pn[1], pn[2], pn[3]
            # x + <expr depending on dxdt-derived value> * dt   (either operand order)
            if isinstance(v, ast.BinOp) and isinstance(v.op, ast.Add):
                for a, b2 in ((v.left, v.right), (v.right, v.left)):
                    if isinstance(a, ast.Name) and a.id == xn and isinstance(b2, ast.BinOp) and isinstance(b2.op, ast.Mult):
                        sides = (b2.left, b2.right)
                        has_dt = any(isinstance(s_, ast.Name) and s_.id == hn for s_ in sides)
                        other = [s_ for s_ in sides if not (isinstance(s_, ast.Name) and s_.id == hn)]
                        if has_dt and len(other) == 1 and xn not in U.names_in(other[0]) and hn not in U.names_in(other[0]):
                            ok = True
            what = U.src(v)
        ctx.check(ok, 'R6.2', SOLVER, 'DESolver._updateX', rets[0] if rets else upd,
                  'returns x + F(dxdt)*dt (one first-order term, x untouched)', f'update is not x + F(dxdt)*dt: {what}')
    if getd is not None:
        pn = U.params(getd)
        tname = pn[1] if len(pn) > 1 else None
        sites = [c for c in U.calls(getd) if U.call_name(c) == 'self._f']
        ctx.floor('R6.2', len(sites), 1)
        rebound = any(tname in U.target_names(t) for s in ast.walk(getd) if isinstance(s, (ast.Assign, ast.AugAssign)) for t in U.assign_targets(s))
        for c in sites:
            ok = bool(c.args) and isinstance(c.args[0], ast.Name) and c.args[0].id == tname and not rebound
            ctx.check(ok, 'R6.2', SOLVER, 'DESolver._getdXdt', c, 'time argument is forwarded unchanged to the model callback',
                      'time passed to the model callback is not the time the iterator supplied')
    # R6.4 every getdXdt wrapper between the iterator and a model forwards the stage time unchanged
    n64 = 0
    for p_, q_, f_ in repo.all_functions():
        if not q_.endswith('.getdXdt') or len(U.params(f_)) < 3:
            continue
        tname = U.params(f_)[1]
        rebound = any(tname in U.target_names(t) for s_ in ast.walk(f_) if isinstance(s_, (ast.Assign, ast.AugAssign, ast.For)) for t in ([s_.target] if isinstance(s_, ast.For) else U.assign_targets(s_)))
        for c in U.calls(f_):
            if U.call_attr(c) in ('getdXdt', '_getdXdt', '_calculateDependentTerms', '_getFluxes', 'coupledXdt') and isinstance(c.func, ast.Attribute):
                n64 += 1
                ok = bool(c.args) and isinstance(c.args[0], ast.Name) and c.args[0].id == tname and not rebound
                ctx.check(ok, 'R6.4', p_, q_, c, f'stage time {tname} is forwarded unchanged to {U.call_name(c)}',
                          f'{U.call_name(c)} is not given the stage time the iterator supplied: a time-dependent right-hand side is evaluated at the wrong time')
    ctx.floor('R6.4', n64, 4)
    # R6.5 the default flatten functions hand the iterator fresh arrays: a stage derivative must not alias a buffer the model re-uses
    GMP = 'kawin/GenericModel.py'
    n65 = 0
    for qf in ('GenericModel.flattenX', 'Coupler.flattenX'):
        try:
            ff = repo.func(GMP, qf)
        except AnchorMissing as e:
            ctx.undecided('R6.5', GMP, qf, 0, str(e))
            continue
        n65 += 1
        _, rets_alias = purity.analyse(GMP, qf, ff, 0)
        rr = [r for r in ast.walk(ff) if isinstance(r, ast.Return)]
        ctx.check(not rets_alias, 'R6.5', GMP, qf, rr[0] if rr else ff, 'the flattened array is a fresh copy on every path (np.hstack / np.concatenate), never a view of the model\'s arrays',
                  'the flattened array can be a view of what the model returned: stage derivatives k1..k4 then alias one buffer when the model re-uses it, and the state handed to the iterator aliases the model state',
                  construct='; '.join(U.src(r) for r in rr))
    ctx.floor('R6.5', n65, 2)
    # R6.3 purity (callables given to an iterator are arbitrary programs: what they return may alias what they got)
    purity.opaque_params_alias = True
    for q, f in its:
        pidx = 2
        sites, _ = purity.analyse(ITER, q, f, pidx)
        if sites:
            for s in sites:
                ctx.violation('R6.3', s.path, s.qual, s.node, f'state vector given to {q} may be modified in place ({s.kind})')
        else:
            ctx.ok('R6.3', ITER, q, f, f'no in-place write through an alias of parameter {U.params(f)[2]}', construct=f'{q}({", ".join(U.params(f))})')
    if upd is not None:
        sites, _ = purity.analyse(SOLVER, 'DESolver._updateX', upd, 0)
        if sites:
            for s in sites:
                ctx.violation('R6.3', s.path, s.qual, s.node, f'_updateX may modify its x argument in place ({s.kind})')
        else:
            ctx.ok('R6.3', SOLVER, 'DESolver._updateX', upd, 'no in-place write through an alias of x', construct='DESolver._updateX(x)')
    purity.opaque_params_alias = False
