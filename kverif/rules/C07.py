"""C07 - size-class transport is conservative and bounded (stencil structure of the population balance).

R7.1 telescoping: both transport functions return F[:-1] - F[1:] of ONE face array F (bins+1); the only later
     change is one scalar-indexed += nucRate; in getdXdtEuler F is freshly zeroed on every call
R7.2 upwind alignment of the accumulated face fluxes (slice typing)
R7.3 nucleation class = argmax(PSDbounds > R) - 1, identical in both siblings
R7.4 limiter table in correctdXdtEuler (left faces >= -psd/dt, right faces <= +psd/dt, all faces covered)
R7.5 step limit formula of getDTEuler
R7.6 T-PURE on flux / psd / growth
"""
from __future__ import annotations
import ast
from .. import astutil as U
from .. import cfg as C
from ..formula import push_slices, canon_ufuncs, reaching_value, single_defs, inline, factors, slice_key
from ..source import AnalysisError, AnchorMissing

PB = 'kawin/precipitation/PopulationBalance.py'
CLS = 'PopulationBalanceModel'

EXPLANATION = (
    'Conservation is decided as an algebraic identity of the stencil: the returned rate is F[:-1]-F[1:] of one face '
    'array plus nucRate in one class, so its sum telescopes to F[0]-F[-1]+nucRate for every input. Upwinding and the '
    'limiter are decided by slice typing: each face-flux term couples growth[S], the un-shifted population and the '
    'sign mask of the same slice S; the limiter clamps left faces from below by -psd/dt and right faces from above by '
    '+psd/dt on all bins+1 faces. Non-negativity for all step sizes is a numeric consequence that is not decided here.')

LEFT, RIGHT = '[:-1]', '[1:]'


def _sub(e):
    """(base expr, slice key) of a subscript, else (e, None)"""
    if isinstance(e, ast.Subscript):
        return e.value, slice_key(e.slice)
    return e, None


def _is_widths(e, defs):
    e = inline(e, defs)
    if isinstance(e, ast.BinOp) and isinstance(e.op, ast.Sub):
        a, sa = _sub(e.left)
        b, sb = _sub(e.right)
        if U.chain(a) == ('self', 'PSDbounds') and U.chain(b) == ('self', 'PSDbounds') and sa == RIGHT and sb == LEFT:
            return True
    if isinstance(e, ast.Call) and U.call_name(e) == 'np.diff' and e.args and U.chain(e.args[0]) == ('self', 'PSDbounds'):
        return True
    return False


def face_array(func):
    """the face array F: expression X such that the function computes X[:-1] - X[1:]"""
    for n in ast.walk(func):
        if isinstance(n, ast.BinOp) and isinstance(n.op, ast.Sub):
            a, sa = _sub(n.left)
            b, sb = _sub(n.right)
            if sa == LEFT and sb == RIGHT and U.same(a, b):
                return a, n
    return None, None


def _maps_minus_one_to_zero(v, nm):
    """v is an elementwise expression of the array `nm` that is 0 where nm == -1 and nm elsewhere (on {-1, 0, 1}):
    decided by tabulating the recognised forms on the three values np.sign can take"""
    def ev(e, x):
        if isinstance(e, ast.Name) and e.id == nm:
            return x
        if isinstance(e, ast.Constant) and isinstance(e.value, (int, float)) and not isinstance(e.value, bool):
            return e.value
        if isinstance(e, ast.UnaryOp) and isinstance(e.op, ast.USub):
            return -ev(e.operand, x)
        if isinstance(e, ast.Compare) and len(e.ops) == 1:
            import operator as op
            fn = {ast.Eq: op.eq, ast.NotEq: op.ne, ast.Lt: op.lt, ast.LtE: op.le, ast.Gt: op.gt, ast.GtE: op.ge}.get(type(e.ops[0]))
            if fn is None:
                raise ValueError
            return fn(ev(e.left, x), ev(e.comparators[0], x))
        if isinstance(e, ast.Call) and not e.keywords:
            name = U.call_name(e)
            a = [ev(z, x) for z in e.args]
            if name == 'np.where' and len(a) == 3:
                return a[1] if a[0] else a[2]
            if name in ('np.maximum', 'np.fmax', 'max') and len(a) == 2:
                return max(a)
            if name in ('np.minimum', 'np.fmin', 'min') and len(a) == 2:
                return min(a)
            if name == 'np.clip' and len(a) == 3:
                return min(max(a[0], a[1]), a[2])
        raise ValueError
    try:
        return all(ev(v, x) == max(x, 0) for x in (-1, 0, 1)) and any(isinstance(n, ast.Name) and n.id == nm for n in ast.walk(v))
    except (ValueError, TypeError):
        return False


def positive_mask_var(func, flux):
    """name s such that s is the positive-part indicator of the growth array"""
    for st in ast.walk(func):
        if isinstance(st, ast.Assign) and len(st.targets) == 1 and isinstance(st.targets[0], ast.Name):
            v = st.value
            nm = st.targets[0].id
            if isinstance(v, ast.Call) and U.call_name(v) == 'np.sign' and v.args and isinstance(v.args[0], ast.Name) and v.args[0].id == flux:
                # requires the store s[s == -1] = 0  (or s[s < 0] = 0)
                for st2 in ast.walk(func):
                    if isinstance(st2, ast.Assign) and isinstance(st2.targets[0], ast.Subscript):
                        t = st2.targets[0]
                        if isinstance(t.value, ast.Name) and t.value.id == nm and U.is_const(st2.value, 0) and isinstance(t.slice, ast.Compare):
                            c = t.slice
                            if isinstance(c.left, ast.Name) and c.left.id == nm and len(c.ops) == 1:
                                if (isinstance(c.ops[0], ast.Eq) and U.is_const(c.comparators[0], -1)) or \
                                   (isinstance(c.ops[0], ast.Lt) and U.is_const(c.comparators[0], 0)):
                                    return nm, 'sign'
                # or a rebinding through an elementwise map that sends -1 to 0 and keeps 0 and 1
                for st2 in ast.walk(func):
                    if isinstance(st2, ast.Assign) and len(st2.targets) == 1 and isinstance(st2.targets[0], ast.Name) and st2.targets[0].id == nm and st2 is not st \
                            and _maps_minus_one_to_zero(st2.value, nm):
                        return nm, 'sign'
                return nm, 'sign-unfixed'
            cmpv = v
            if isinstance(v, ast.Call) and isinstance(v.func, ast.Attribute) and v.func.attr == 'astype':
                cmpv = v.func.value
            if isinstance(cmpv, ast.Compare) and isinstance(cmpv.left, ast.Name) and cmpv.left.id == flux and len(cmpv.ops) == 1 \
                    and isinstance(cmpv.ops[0], (ast.Gt, ast.GtE)) and U.is_const(cmpv.comparators[0], 0):
                return nm, 'cmp'
    return None, None


def _opaque_return(func):
    """source of a call in the definition of the returned value that is not a numpy function (so the value is not a closed
    array expression of this function), else None"""
    rets = [n for n in U.walk_no_nested(func) if isinstance(n, ast.Return) and n.value is not None]
    seen, todo = set(), [r.value for r in rets]
    while todo:
        e = todo.pop()
        for n in ast.walk(e):
            if isinstance(n, ast.Call):
                nm = U.call_name(n) or ''
                if not nm.startswith('np.') and nm not in ('abs', 'float', 'int', 'len', 'min', 'max'):
                    return U.src(n)[:60]
            if isinstance(n, ast.Name) and isinstance(n.ctx, ast.Load) and n.id not in seen:
                seen.add(n.id)
                for st in U.walk_no_nested(func):
                    if isinstance(st, ast.Assign) and any(isinstance(t, ast.Name) and t.id == n.id for t in st.targets):
                        todo.append(st.value)
    return None


def r71_r73(repo, ctx, q, func, fresh_required):
    fq = f'{CLS}.{q}'
    F, diffnode = face_array(func)
    if F is None:
        # a verdict needs a closed expression for the returned rate: when it is produced by calls the normaliser could not
        # resolve (objects carrying views of the face array, ...) the rule has nothing to compare and says so
        opaque = _opaque_return(func)
        if opaque:
            ctx.undecided('R7.1', PB, fq, func, f'the returned rate is produced by {opaque}: no closed expression to compare with F[:-1] - F[1:]')
            return None
        ctx.violation('R7.1', PB, fq, func, 'returned rate is not a first difference F[:-1] - F[1:] of one face array: exchange between neighbouring classes does not cancel',
                      construct=f'{fq}: no telescoping difference')
        return None
    # the difference must define the returned variable
    rets = [n for n in ast.walk(func) if isinstance(n, ast.Return)]
    retname = rets[-1].value.id if rets and isinstance(rets[-1].value, ast.Name) else None
    defining = None
    for st in ast.walk(func):
        if isinstance(st, ast.Assign) and len(st.targets) == 1 and isinstance(st.targets[0], ast.Name) and st.targets[0].id == retname:
            defining = st
    ok = False
    if defining is not None:
        v = defining.value
        ok = v is diffnode
    elif rets and rets[-1].value is diffnode:
        ok = True
    ctx.check(len(rets) == 1 and ok, 'R7.1', PB, fq, diffnode, f'returned rate is {U.src(F)}[:-1] - {U.src(F)}[1:] (telescoping first difference of one face array)',
              'the value returned is not the telescoping first difference of the face array', construct=U.src(diffnode))
    # later modifications of the returned array
    mods = []
    for st in ast.walk(func):
        if isinstance(st, (ast.Assign, ast.AugAssign)):
            for t in U.flat_targets(st):
                if isinstance(t, ast.Subscript) and isinstance(t.value, ast.Name) and t.value.id == retname:
                    mods.append(st)
                if isinstance(t, ast.Name) and t.id == retname and st is not defining:
                    mods.append(st)
    pn = U.params(func)
    nuc_ok = False
    nuc_stmt = None
    for st in mods:
        if isinstance(st, ast.AugAssign) and isinstance(st.op, ast.Add) and isinstance(st.target, ast.Subscript) \
                and not isinstance(st.target.slice, (ast.Slice, ast.Tuple)) and isinstance(st.value, ast.Name) and st.value.id == 'nucRate' and 'nucRate' in pn:
            nuc_ok, nuc_stmt = True, st
    ctx.check(len(mods) == 1 and nuc_ok, 'R7.1', PB, fq, mods[0] if mods else func,
              'the only later change of the rate is one scalar-indexed += nucRate (nuclei enter exactly one class)',
              f'the rate array is modified {len(mods)} time(s) after the difference / not by a single scalar-indexed += nucRate',
              construct='; '.join(U.src(m) for m in mods) or 'no nucleation term')
    # R7.3 nucleation class
    if nuc_stmt is not None:
        defs = single_defs(func)
        e = nuc_stmt.target.slice
        if isinstance(e, ast.Name):
            e = defs.get(e.id)
        good = False
        if e is not None and isinstance(e, ast.BinOp) and isinstance(e.op, ast.Sub) and U.is_const(e.right, 1):
            c = e.left
            if isinstance(c, ast.Call) and U.call_name(c) == 'np.argmax' and c.args and isinstance(c.args[0], ast.Compare):
                cmp_ = c.args[0]
                if U.chain(cmp_.left) == ('self', 'PSDbounds') and len(cmp_.ops) == 1 and isinstance(cmp_.ops[0], ast.Gt) \
                        and isinstance(cmp_.comparators[0], ast.Name) and cmp_.comparators[0].id == 'nucRadius':
                    good = True
        ctx.check(good, 'R7.3', PB, fq, nuc_stmt, 'nucleation class is argmax(PSDbounds > nucRadius) - 1: the class that contains the nucleation radius',
                  'nuclei are not added to the class that contains the nucleation radius', construct=U.src(e) if e is not None else U.src(nuc_stmt))
    # freshness of the face array
    if fresh_required:
        g = C.build(func)
        Fk = U.dump(F)

        def gen(node, label):
            a = node.ast
            if node.kind == 'stmt' and isinstance(a, ast.Assign) and any(U.dump(t) == Fk for t in a.targets):
                v = a.value
                if isinstance(v, ast.Call) and U.call_name(v) in ('np.zeros', 'np.zeros_like'):
                    return {'fresh'}
            return set()
        IN = C.must_forward(g, gen)
        uses = []
        for n in g.nodes:
            eff = C.simple_effect_node(n)
            if eff is None or n.kind != 'stmt':
                continue
            if isinstance(n.ast, (ast.AugAssign, ast.Assign)):
                for t in U.flat_targets(n.ast):
                    if isinstance(t, ast.Subscript) and U.dump(t.value) == Fk:
                        uses.append(n)
        stale = [n for n in uses if IN[n.id] is None or 'fresh' not in IN[n.id]]
        ctx.check(bool(uses) and not stale, 'R7.1', PB, fq, stale[0].ast if stale else func,
                  f'{U.src(F)} is re-created as zeros on every path before face fluxes are accumulated into it',
                  f'face fluxes are accumulated into {U.src(F)} on a path where it was not freshly zeroed: contributions of an earlier call leak into this one',
                  construct=f'{fq}: fresh face array')
    return F


def r72(repo, ctx, func, F):
    fq = f'{CLS}.getdXdtEuler'
    pn = U.params(func)
    flux, psd = pn[1], pn[4]
    defs = single_defs(func)
    s, kind = positive_mask_var(func, flux)
    if s is None:
        ctx.undecided('R7.2', PB, fq, func, 'positive-part indicator of the growth array not recognised (np.sign(..) with -1 -> 0, or growth > 0)')
        return
    if kind == 'sign-unfixed':
        ctx.violation('R7.2', PB, fq, func, 'np.sign of the growth rate is used as mask without mapping -1 to 0: dissolving faces get a doubled / sign-flipped flux',
                      construct='fluxSign without -1 -> 0')
        return
    Fk = U.dump(F)
    accs = []
    for st in ast.walk(func):
        if isinstance(st, (ast.AugAssign, ast.Assign)):
            for t in U.flat_targets(st):
                if isinstance(t, ast.Subscript) and U.dump(t.value) == Fk:
                    accs.append((st, slice_key(t.slice)))
    ctx.floor('R7.2', len(accs), 2)
    seen = set()
    for st, S in accs:
        if isinstance(st, ast.AugAssign) and not isinstance(st.op, ast.Add):
            ctx.violation('R7.2', PB, fq, st, 'face flux accumulated with an operator other than +=')
            continue
        if S not in (LEFT, RIGHT):
            ctx.violation('R7.2', PB, fq, st, f'face fluxes written to slice {S}: only left faces [:-1] and right faces [1:] of the un-shifted cells are admissible', construct=U.src(st))
            continue
        num, den, sign = factors(push_slices(inline(st.value, defs)))
        got = {'flux': None, 'psd': 0, 'mask': None, 'other': []}
        for f_ in num:
            b, sl = _sub(f_)
            if isinstance(b, ast.Name) and b.id == flux and sl is not None:
                got['flux'] = sl
            elif isinstance(f_, ast.Name) and f_.id == psd:
                got['psd'] += 1
            elif isinstance(b, ast.Name) and b.id == s and sl is not None:
                got['mask'] = ('pos', sl)
            elif isinstance(f_, ast.BinOp) and isinstance(f_.op, ast.Sub) and U.is_const(f_.left, 1):
                b2, sl2 = _sub(f_.right)
                if isinstance(b2, ast.Name) and b2.id == s and sl2 is not None:
                    got['mask'] = ('neg', sl2)
                else:
                    got['other'].append(U.src(f_))
            else:
                got['other'].append(U.src(f_))
        want_mask = ('neg', LEFT) if S == LEFT else ('pos', RIGHT)
        problems = []
        if sign != 1:
            problems.append('sign of the term is flipped')
        if got['flux'] != S:
            problems.append(f'growth factor carries slice {got["flux"]} instead of {S}')
        if got['psd'] != 1:
            problems.append('population factor is not the un-shifted cell array')
        if got['mask'] != want_mask:
            problems.append(f'sign mask is {got["mask"]} but {"dissolution (1-s)" if S == LEFT else "growth (s)"} on slice {S} is required')
        if got['other']:
            problems.append(f'unexpected factor(s) {got["other"]}')
        if len(den) != 1 or not _is_widths(den[0], defs):
            problems.append('term is not divided by the class widths PSDbounds[1:]-PSDbounds[:-1]')
        seen.add(S)
        ctx.check(not problems, 'R7.2', PB, fq, st,
                  f'{"left" if S == LEFT else "right"} faces {S}: growth{S} * n_i * {"(1-s)" if S == LEFT else "s"}{S} / dR - particles move only to the adjacent {"smaller" if S == LEFT else "larger"} class',
                  'upwind stencil misaligned: ' + '; '.join(problems), construct=U.src(st))
    ctx.check(seen == {LEFT, RIGHT}, 'R7.2', PB, fq, func, 'both the dissolution (left-face) and the growth (right-face) contributions are present',
              f'face contributions present only for {sorted(seen)}', construct='getdXdtEuler: left and right face terms')


def _limiter_sides(func, F, psd, dt, defs):
    """recognise limiter stores; returns {slice: description} for correctly limited sides and a list of problems"""
    Fk = U.dump(F)
    sides, problems, stores = {}, [], []
    for st in ast.walk(func):
        if not isinstance(st, (ast.Assign, ast.AugAssign)):
            continue
        for t in U.flat_targets(st):
            base, mask = (t.value, t.slice) if isinstance(t, ast.Subscript) else (None, None)
            # form A:  F[S][mask] = +-psd[mask] / dt
            if isinstance(base, ast.Subscript) and U.dump(base.value) == Fk:
                S = slice_key(base.slice)
                stores.append(st)
                m = inline(mask, defs) if isinstance(mask, ast.Name) else mask
                if isinstance(m, ast.Name):         # bound more than once (an unrolled table): take the definition that reaches the store
                    rv = reaching_value(func, m.id, st)
                    m = inline(rv, defs) if rv is not None else m
                m = canon_ufuncs(m)
                val_num, val_den, vsign = factors(push_slices(canon_ufuncs(inline(st.value, defs))))
                val_ok = len(val_num) == 1 and len(val_den) == 1 and isinstance(val_den[0], ast.Name) and val_den[0].id == dt \
                    and isinstance(val_num[0], ast.Subscript) and isinstance(val_num[0].value, ast.Name) and val_num[0].value.id == psd \
                    and (U.same(val_num[0].slice, mask) or U.same(val_num[0].slice, m))
                cmp_ok = None
                if isinstance(m, ast.Compare) and len(m.ops) == 1:
                    ln, ld, lsign = factors(m.left)
                    rn, rd, rsign = factors(m.comparators[0])
                    left_is = len(ln) == 2 and not ld and any(isinstance(x, ast.Name) and x.id == dt for x in ln) and \
                        any(isinstance(x, ast.Subscript) and U.dump(x.value) == Fk and slice_key(x.slice) == S for x in ln) and lsign == 1
                    right_is = len(rn) == 1 and not rd and isinstance(rn[0], ast.Name) and rn[0].id == psd
                    if left_is and right_is:
                        if isinstance(m.ops[0], (ast.Lt, ast.LtE)) and rsign == -1:
                            cmp_ok = 'below'
                        elif isinstance(m.ops[0], (ast.Gt, ast.GtE)) and rsign == 1:
                            cmp_ok = 'above'
                if val_ok and cmp_ok == 'below' and vsign == -1:
                    sides[S] = 'below'
                elif val_ok and cmp_ok == 'above' and vsign == 1:
                    sides[S] = 'above'
                else:
                    problems.append(f'limiter store {U.src(st)} does not clamp faces {S} to -/+ psd/dt under the matching test')
            # form B:  F[S] = np.maximum(F[S], -psd/dt) / np.minimum(F[S], psd/dt) / np.clip(F[S], lo, hi)
            elif isinstance(t, ast.Subscript) and U.dump(t.value) == Fk and isinstance(st, ast.Assign) and isinstance(st.value, ast.Call):
                S = slice_key(t.slice)
                stores.append(st)
                cn = U.call_name(st.value)
                args = [inline(a, defs) for a in st.value.args]

                def is_F(a):
                    return isinstance(a, ast.Subscript) and U.dump(a.value) == Fk and slice_key(a.slice) == S

                def bound(a):
                    n_, d_, sg = factors(a)
                    if len(n_) == 1 and len(d_) == 1 and isinstance(n_[0], ast.Name) and n_[0].id == psd and isinstance(d_[0], ast.Name) and d_[0].id == dt:
                        return sg
                    return None
                if cn in ('np.maximum', 'np.fmax') and len(args) == 2 and any(is_F(a) for a in args) and any(bound(a) == -1 for a in args):
                    sides[S] = 'below'
                elif cn in ('np.minimum', 'np.fmin') and len(args) == 2 and any(is_F(a) for a in args) and any(bound(a) == 1 for a in args):
                    sides[S] = 'above'
                else:
                    problems.append(f'limiter {U.src(st)} on faces {S} is not max(F, -psd/dt) / min(F, psd/dt) on the un-shifted cells')
    return sides, problems, stores


def r74(repo, ctx, func, F):
    fq = f'{CLS}.correctdXdtEuler'
    pn = U.params(func)
    dt, psd = pn[1], pn[5]
    defs = single_defs(func)
    sides, problems, stores = _limiter_sides(func, F, psd, dt, defs)
    if not stores:
        ctx.violation('R7.4', PB, fq, func, 'the face fluxes are not limited at all before the difference is taken: a class can lose more particles than it holds',
                      construct='correctdXdtEuler: no limiter')
        return
    for p in problems:
        ctx.violation('R7.4', PB, fq, stores[0], p, construct=p)
    ok = sides.get(LEFT) == 'below' and sides.get(RIGHT) == 'above'
    ctx.check(ok, 'R7.4', PB, fq, stores[0],
              'left faces [:-1] limited from below by -psd/dt and right faces [1:] from above by +psd/dt: all bins+1 faces covered, no class loses more than it holds through one face',
              f'limiter does not cover all faces of every class (found {sides}): need left faces [:-1] >= -psd/dt and right faces [1:] <= psd/dt',
              construct='; '.join(U.src(s) for s in stores))
    # limiter precedes the difference
    F2, diffnode = face_array(func)
    if diffnode is not None:
        sq = U.seq(func)
        last_store = max(sq[id(s)] for s in stores)
        ctx.check(sq[id(diffnode)] > last_store, 'R7.4', PB, fq, diffnode, 'the difference is taken from the limited face array',
                  'the difference is taken before the face fluxes are limited')


def r75(repo, ctx):
    q = 'getDTEuler'
    fq = f'{CLS}.{q}'
    func = repo.func(PB, fq)
    pn = U.params(func)
    curr, growth, dis = pn[1], pn[2], pn[3]
    ratio_param = pn[4] if len(pn) > 4 else None
    defs = single_defs(func)
    rets = [n for n in ast.walk(func) if isinstance(n, ast.Return)]
    n_formula = 0
    for r in rets:
        v = r.value
        if isinstance(v, ast.Name) and v.id == curr:
            continue
        num, den, sign = factors(inline(v, defs))
        problems = []
        ratio = [x for x in num if (U.chain(x) == ('self', 'maxRatio')) or (isinstance(x, ast.Name) and x.id == ratio_param)]
        width = [x for x in num if isinstance(x, ast.BinOp) and isinstance(x.op, ast.Sub)
                 and U.chain(x.left) == ('self', 'PSDbounds', '[]') and U.chain(x.right) == ('self', 'PSDbounds', '[]')
                 and U.is_const(x.left.slice, 1) and U.is_const(x.right.slice, 0)]
        if len(num) != 2 or len(ratio) != 1 or len(width) != 1 or sign != 1:
            problems.append('numerator is not ratio * (PSDbounds[1] - PSDbounds[0])')
        gf = None
        if len(den) == 1 and isinstance(den[0], ast.Call) and U.call_name(den[0]) in ('np.amax', 'np.max') and den[0].args:
            inner = den[0].args[0]
            if isinstance(inner, ast.Call) and U.call_name(inner) in ('np.abs', 'np.absolute', 'abs') and inner.args:
                gf = inner.args[0]
        if gf is None:
            problems.append('denominator is not max|growth|')
        else:
            # growth[dis:-1][self.PSD[dis:] > 0]
            okg = False
            if isinstance(gf, ast.Subscript) and isinstance(gf.value, ast.Subscript) and isinstance(gf.value.value, ast.Name) and gf.value.value.id == growth:
                s1, m = gf.value.slice, gf.slice
                if isinstance(s1, ast.Slice) and isinstance(s1.lower, ast.Name) and s1.lower.id == dis and U.is_const(s1.upper, -1):
                    if isinstance(m, ast.Compare) and isinstance(m.ops[0], ast.Gt) and U.is_const(m.comparators[0], 0) and isinstance(m.left, ast.Subscript) \
                            and U.chain(m.left.value) == ('self', 'PSD') and isinstance(m.left.slice, ast.Slice) and isinstance(m.left.slice.lower, ast.Name) \
                            and m.left.slice.lower.id == dis and m.left.slice.upper is None:
                        okg = True
            if not okg:
                problems.append('growth is not restricted to populated classes at or above the dissolution index (growth[dis:-1][PSD[dis:] > 0])')
        n_formula += 1
        ctx.check(not problems, 'R7.5', PB, fq, r, 'step limit = ratio * class width / max|growth over populated classes >= dissolution index|',
                  'step limit formula: ' + '; '.join(problems), construct=U.src(v))
    ctx.floor('R7.5', n_formula, 1)
    # ratio is the parameter
    if ratio_param:
        asg = [s for s in ast.walk(func) if isinstance(s, ast.Assign) and any(U.chain(t) == ('self', 'maxRatio') for t in s.targets)]
        for s in asg:
            ctx.check(isinstance(s.value, ast.Name) and s.value.id == ratio_param, 'R7.5', PB, fq, s, 'the ratio is the stated fraction given by the caller',
                      'the ratio used is not the stated fraction parameter')


def check(repo, ctx, index, purity):
    ctx.explanation = EXPLANATION
    ctx.assumptions += ['vectorised numpy formulation of the stencil (a rewrite as explicit loops is reported as undecided)',
                        'non-negativity for all step sizes and huge dynamic ranges are numeric consequences, not decided']
    g = repo.func(PB, f'{CLS}.getdXdtEuler')
    c = repo.func(PB, f'{CLS}.correctdXdtEuler')
    F1 = r71_r73(repo, ctx, 'getdXdtEuler', g, True)
    F2 = r71_r73(repo, ctx, 'correctdXdtEuler', c, False)
    if F1 is not None:
        r72(repo, ctx, g, F1)
    if F2 is not None:
        r74(repo, ctx, c, F2)
        if F1 is not None:
            ctx.check(U.same(F1, F2), 'R7.4', PB, f'{CLS}.correctdXdtEuler', c, 'the limiter works on the face array filled by getdXdtEuler',
                      'the limiter works on a different array than the one getdXdtEuler fills', construct=f'{U.src(F1)} vs {U.src(F2)}')
    r75(repo, ctx)
    # R7.6 purity
    for q, ps in (('getdXdtEuler', ['flux', 'psd']), ('correctdXdtEuler', ['flux', 'psd']), ('getDTEuler', ['growth'])):
        f = repo.func(PB, f'{CLS}.{q}')
        for p in ps:
            i = purity.param_index(f, p)
            if i is None:
                ctx.undecided('R7.6', PB, f'{CLS}.{q}', f, f'parameter {p} not found')
                continue
            sites, _ = purity.analyse(PB, f'{CLS}.{q}', f, i)
            if sites:
                for s in sites:
                    ctx.violation('R7.6', s.path, s.qual, s.node, f'argument {p} of {q} may be modified in place ({s.kind})')
            else:
                ctx.ok('R7.6', PB, f'{CLS}.{q}', f, f'no in-place write through an alias of {p}', construct=f'{q}({p})')
