"""C08 - size-class grid operations stay consistent and conserve particle volume.

All grid rules are decided on the final symbolic field states of every path of every grid-writing
method of PopulationBalanceModel (kverif.symfield), i.e. for every input and every history:
R8.1 moment purity (the *FromN functions depend on their argument, never on the stored distribution)
R8.2 grid tuple coherence: centres are midpoints of the final boundaries; boundaries are
     linspace(min,max,bins+1) of the final scalars (or the scalars are read back from the boundaries)
R8.3 extend is prefix-preserving
R8.4 re-mesh rescales to the third moment of the old distribution on the old grid
R8.5 adaptive adjustment ends with minBins/maxBins classes or below the maximum
R8.6 reset restores the initial grid; only the constructor writes the original* fields
R8.9 the backup buffers always hold a snapshot of the grid the writing method leaves (revert installs them as the grid)
R8.7 the model that loads a saved grid rebuilds the population balance from the saved (min,max,bins)
"""
from __future__ import annotations
import ast
from .. import astutil as U
from ..symfield import SymExec, show, const, NONE
from ..source import AnalysisError, AnchorMissing

PB = 'kawin/precipitation/PopulationBalance.py'
CLS = 'PopulationBalanceModel'
KEY = (PB, CLS)
GRID = ('PSDbounds', 'PSDsize', 'min', 'max', 'bins')
EXEMPT = {'setBinConstraints': 'configuration setter used by the constructor before reset(); not one of the grid operations of the property',
          '__init__': 'checked through reset()'}

EXPLANATION = (
    'Every grid-writing method of PopulationBalanceModel is executed symbolically on its AST (calls to the same object '
    'inlined, every path kept); the final terms of PSDbounds/PSDsize/min/max/bins/PSD are compared structurally: centres '
    'must be the midpoints of the final boundaries, boundaries must be linspace(min,max,bins+1) of the final scalars or '
    'the scalars must be read back from the final boundaries. Because the terms are functions of the entry state, '
    'coherence on exit of each operation for every entry state gives coherence after any sequence of operations. '
    'Strict monotonicity of boundaries, exactness of the rescaled moment in floating point and minBins<=maxBins are '
    'runtime facts and not decided.')


def mid(B):
    from ..symfield import norm_op
    a = ('sub', B, ('slice', const(1), NONE, NONE))
    b = ('sub', B, ('slice', NONE, const(-1), NONE))
    return norm_op('Mult', const(0.5), norm_op('Add', a, b))


def is_mid(term, B):
    from ..symfield import norm_op
    if term == mid(B):
        return True
    a = ('sub', B, ('slice', const(1), NONE, NONE))
    b = ('sub', B, ('slice', NONE, const(-1), NONE))
    return term == norm_op('Div', norm_op('Add', a, b), const(2))


def fin(st, f):
    return st.fields.get(f, ('old', f))


def strip_identity(B):
    """np.histogram(data, B)[1] returns the bin edges it was given"""
    if B[0] == 'item' and B[2] == 1 and B[1][0] == 'call' and B[1][1] == 'np.histogram' and len(B[1][2]) >= 2:
        return B[1][2][1]
    if B[0] == 'item' and B[2] == 1 and B[1][0] == 'call' and B[1][1] == 'np.histogram' and len(B[1][2]) == 1 and dict(B[1][3]).get('bins') is not None:
        return dict(B[1][3])['bins']          # np.histogram(data, bins=B)
    if B[0] == 'call' and B[1] in ('copy.copy', 'np.array', 'np.copy', 'copy.deepcopy') and len(B[2]) == 1:
        return B
    return B


def coherent(st):
    """(ok, reason) for one final state"""
    from ..symfield import norm_op
    B = strip_identity(fin(st, 'PSDbounds'))
    S, mn, mx, bn, P = fin(st, 'PSDsize'), fin(st, 'min'), fin(st, 'max'), fin(st, 'bins'), fin(st, 'PSD')
    w = set(st.written)
    problems = []
    if ('PSDbounds' in w or 'PSDsize' in w) and not (B == ('old', 'PSDbounds') and S == ('old', 'PSDsize')):
        if not is_mid(S, B):
            problems.append(f'class centres are not the midpoints of the final boundaries (PSDsize = {show(S)[:90]})')
    if w & {'PSDbounds', 'min', 'max', 'bins'}:
        untouched = B == ('old', 'PSDbounds') and mn == ('old', 'min') and mx == ('old', 'max') and bn == ('old', 'bins')
        lin = ('call', 'np.linspace', (mn, mx, norm_op('Add', bn, const(1))), ())
        b1 = B == lin
        mins = {('sub', B, const(0)), ('call', 'np.amin', (B,), ())}
        maxs = {('sub', B, const(-1)), ('call', 'np.amax', (B,), ())}
        lens = {('call', 'len', (P,), ()), ('call', 'len', (S,), ()), norm_op('Sub', ('call', 'len', (B,), ()), const(1))}
        b2 = mn in mins and mx in maxs and bn in lens
        if not (untouched or b1 or b2):
            problems.append('boundaries, minimum, maximum and class count are not mutually consistent on exit '
                            f'(PSDbounds = {show(B)[:80]}, min = {show(mn)[:40]}, max = {show(mx)[:40]}, bins = {show(bn)[:40]})')
    return (not problems), '; '.join(problems)


def r81(repo, ctx, index):
    cls = repo.cls(PB, CLS)
    methods = {m.name: m for m in cls.body if isinstance(m, ast.FunctionDef)}
    memo = {}

    def reads_psd(name, seen=()):
        if name in memo:
            return memo[name]
        m = methods.get(name)
        if m is None or name in seen:
            return False
        r = False
        for n in ast.walk(m):
            if isinstance(n, ast.Attribute) and isinstance(n.ctx, ast.Load) and U.chain(n) == ('self', 'PSD'):
                r = True
            if isinstance(n, ast.Call) and (U.call_name(n) or '').startswith('self.'):
                if reads_psd(U.call_name(n).split('.')[1], seen + (name,)):
                    r = True
        memo[name] = r
        return r

    n = 0
    for name, m in methods.items():
        if name.endswith('FromN'):
            n += 1
            fq = f'{CLS}.{name}'
            pn = U.params(m)
            arg = pn[1] if len(pn) > 1 else None
            rets = [r for r in ast.walk(m) if isinstance(r, ast.Return)]
            uses = bool(rets) and all(arg in U.names_in(r.value) for r in rets if r.value is not None)
            ctx.check(uses and not reads_psd(name), 'R8.1', PB, fq, rets[0] if rets else m,
                      f'result depends on the supplied distribution {arg} and never reads the stored distribution',
                      f'moment function evaluates the stored distribution self.PSD instead of (only) its argument {arg}',
                      construct=U.src(rets[0].value) if rets else '')
            base = name[:-5]
            w = methods.get(base)
            if w is not None:
                ok = False
                for c in U.calls(w):
                    if U.call_name(c) == f'self.{name}' and c.args and U.chain(c.args[0]) == ('self', 'PSD'):
                        ok = True
                    # wrappers of fixed order: ZeroMoment -> self.Moment(0)
                if not ok:
                    for c in U.calls(w):
                        nm = U.call_name(c) or ''
                        if nm.startswith('self.') and nm.split('.')[1] in methods and not nm.endswith('FromN'):
                            ok = True
                ctx.check(ok, 'R8.1', PB, f'{CLS}.{base}', w, f'{base} evaluates {name} on the stored distribution',
                          f'{base} does not delegate to {name}(self.PSD, ...)')
    ctx.floor('R8.1', n, 8)


def r82(repo, ctx, index):
    sx = SymExec(repo, index, KEY)
    n_methods = 0
    states = {}
    for name, f in index.methods(KEY).items():
        if name in EXEMPT or name.endswith('.setter'):
            continue
        try:
            outs = sx.run(f)
        except AnalysisError as e:
            if any(isinstance(n, ast.Attribute) and U.chain(n) and U.chain(n)[:2] in (('self', g) for g in GRID) and isinstance(n.ctx, ast.Store) for n in ast.walk(f)):
                ctx.undecided('R8.2', PB, f'{CLS}.{name}', f, f'symbolic execution failed: {e}')
            continue
        outs = [o for o in outs if o.status != 'raise']
        states[name] = outs
        if not any(set(o.written) & set(GRID) for o in outs):
            continue
        n_methods += 1
        bad = []
        for o in outs:
            ok, why = coherent(o)
            if not ok:
                bad.append((o, why))
        ctx.analysed['paths'] += len(outs)
        if bad:
            o, why = bad[0]
            ctx.violation('R8.2', PB, f'{CLS}.{name}', f, f'on {len(bad)} of {len(outs)} path(s) the grid is left inconsistent: {why}',
                          construct=f'{name}: path {[c[0] + ":" + c[1] for c in o.conds][:4]}')
        else:
            ctx.ok('R8.2', PB, f'{CLS}.{name}', f, f'all {len(outs)} path(s): centres are midpoints of the final boundaries and boundaries/min/max/bins agree',
                   construct=f'{name}: {len(outs)} symbolic paths')
    ctx.floor('R8.2', n_methods, 6)
    return states


def M3(N, size):
    from ..symfield import norm_op
    return ('call', 'np.sum', (norm_op('Mult', N, norm_op('Pow', size, const(3))),), ())


def _inexact_zero_guards(conds):
    """texts of the path conditions that compare a quantity with zero through a tolerance (np.isclose, abs(x) < eps, x < eps)"""
    out = []
    for tv, text in conds:
        try:
            t = ast.parse(text.strip(), mode='eval').body
        except SyntaxError:
            continue
        for n in ast.walk(t):
            if isinstance(n, ast.Call) and (U.call_name(n) or '') in ('np.isclose', 'math.isclose', 'np.allclose'):
                out.append(text)
            if isinstance(n, ast.Compare) and len(n.ops) == 1 and isinstance(n.ops[0], (ast.Lt, ast.LtE, ast.Gt, ast.GtE)):
                for a, b in ((n.left, n.comparators[0]), (n.comparators[0], n.left)):
                    if isinstance(a, ast.Call) and (U.call_name(a) or '') in ('abs', 'np.abs', 'np.absolute', 'np.fabs'):
                        out.append(text)
                    elif isinstance(b, ast.Constant) and isinstance(b.value, float) and 0 < abs(b.value) < 1 and ('V' in U.src(a) or 'oment' in U.src(a)):
                        out.append(text)
    return out


def r83_r86(repo, ctx, index, states):
    from ..symfield import norm_op
    # R8.3 addSizeClasses
    name = 'addSizeClasses'
    f = repo.func(PB, f'{CLS}.{name}')
    outs = states.get(name) or []
    arg = ('arg', U.params(f)[1])
    for o in outs:
        P, bn, mx, mn = fin(o, 'PSD'), fin(o, 'bins'), fin(o, 'max'), fin(o, 'min')
        okP = P == ('call', 'np.append', (('old', 'PSD'), ('call', 'np.zeros', (arg,), ())), ()) or \
            P == ('call', 'np.concatenate', (('tuple', ('old', 'PSD'), ('call', 'np.zeros', (arg,), ())),), ())
        okb = bn == norm_op('Add', ('old', 'bins'), arg)
        width = norm_op('Sub', ('sub', ('old', 'PSDbounds'), const(1)), ('sub', ('old', 'PSDbounds'), const(0)))
        okm = mx == norm_op('Add', ('old', 'max'), norm_op('Mult', arg, width)) and mn == ('old', 'min')
        ctx.check(okP and okb and okm, 'R8.3', PB, f'{CLS}.{name}', f,
                  'extend: PSD = old PSD followed by zeros, bins += n, max += n * class width, min unchanged',
                  f'extending the grid does not leave existing classes untouched (PSD = {show(P)[:70]}, bins = {show(bn)}, max = {show(mx)[:60]})',
                  construct=f'{name}: final state')
    ctx.floor('R8.3', len(outs), 1)
    # R8.4 changeSizeClasses
    name = 'changeSizeClasses'
    f = repo.func(PB, f'{CLS}.{name}')
    outs = states.get(name) or []
    n84 = 0
    for o in outs:
        conds = dict((c[1], c[0]) for c in o.conds)
        if any(k.startswith('resetPSD') and v == 'T' for k, v in conds.items()):
            continue
        P, S = fin(o, 'PSD'), fin(o, 'PSDsize')
        nonzero = [v for k, v in conds.items() if '!= 0' in k or '== 0' in k]
        n84 += 1
        if P[0] == 'call' and P[1] == 'np.zeros':
            # the branch that drops the interpolated distribution may only be taken when its third moment is exactly zero
            inexact = _inexact_zero_guards(o.conds)
            ctx.check(not inexact, 'R8.4', PB, f'{CLS}.{name}', f, 'the interpolated distribution is replaced by zeros only when its third moment is exactly zero',
                      f'the interpolated distribution is replaced by zeros under the test {inexact[0] if inexact else ""}, which also holds for small non-zero third moments '
                      '(dilute or early-stage distributions): their particle volume is dropped by the re-mesh', construct='changeSizeClasses: zero branch')
            continue
        ok = False
        why = show(P)[:100]
        if P[0] == 'op' and P[1] == 'Mult':
            for scale, C in ((P[2], P[3]), (P[3], P[2])):
                if scale[0] == 'op' and scale[1] == 'Div':
                    if scale[2] == M3(('old', 'PSD'), ('old', 'PSDsize')) and scale[3] == M3(C, S):
                        ok = True
        ctx.check(ok, 'R8.4', PB, f'{CLS}.{name}', f,
                  're-mesh: new PSD = interpolated PSD * (third moment of the old PSD on the old grid) / (third moment of the interpolated PSD on the new grid), nothing afterwards',
                  f're-meshed distribution is not exactly the interpolated one rescaled to the old third moment: {why}',
                  construct='changeSizeClasses: rescale path')
    ctx.floor('R8.4', n84, 2)
    # R8.5 adaptive bound
    name = 'adjustSizeClassesEuler'
    f = repo.func(PB, f'{CLS}.{name}')
    outs = states.get(name) or []
    n85 = 0
    for o in outs:
        ev = o.events
        adaptive = [e for e in ev if e[0] == 'cond' and e[2].strip() == 'self._adaptiveBinSize']
        if adaptive and adaptive[0][1] != 'T':
            continue
        # (a path that returns without ever testing the adaptive flag is also a path of the adaptive configuration)
        n85 += 1
        bn = fin(o, 'bins')
        ok = bn in (('old', 'minBins'), ('old', 'maxBins'))
        if not ok:
            # the bins > maxBins test must have been evaluated False after the last write of bins
            last_w = max([i for i, e in enumerate(ev) if e == ('write', 'bins')] or [-1])
            tests = [i for i, e in enumerate(ev) if e[0] == 'cond' and e[1] == 'F' and ' '.join(e[2].split()) in ('self.bins > self.maxBins', '(self.bins > self.maxBins)')]
            ok = bool(tests) and max(tests) > last_w
            if not ok:
                # the same decision recorded on symbolic terms: (final class count) <= maxBins, however the test is spelled
                from ..symfield import holds
                ok = holds(ev, 'LtE', bn, fin(o, 'maxBins'))
        ctx.check(ok, 'R8.5', PB, f'{CLS}.{name}', f, 'adaptive path ends with minBins/maxBins classes, or the class count was tested against maxBins after its last change',
                  f'adaptive adjustment can leave more classes than the configured maximum (final bins = {show(bn)[:60]})',
                  construct=f'{name}: {[c[0] + ":" + c[1] for c in o.conds][:5]}')
    ctx.floor('R8.5', n85, 3)
    # R8.6 reset
    name = 'reset'
    f = repo.func(PB, f'{CLS}.{name}')
    outs = states.get(name) or []
    n86 = 0
    for o in outs:
        if any(c[0] == 'T' and 'resetBounds' in c[1] for c in o.conds):
            n86 += 1
            ok = fin(o, 'min') == ('old', 'originalMin') and fin(o, 'max') == ('old', 'originalMax') and fin(o, 'bins') == ('old', 'originalBins') \
                and fin(o, 'PSD') == ('call', 'np.zeros', (fin(o, 'bins'),), ())
            ctx.check(ok, 'R8.6', PB, f'{CLS}.{name}', f, 'reset restores min/max/bins from the original values and empties the distribution',
                      'reset does not restore the initial grid', construct='reset(resetBounds=True)')
    ctx.floor('R8.6', n86, 1)
    fw = index.field_writes(KEY, include_mro=False)
    for fld in ('originalMin', 'originalMax', 'originalBins'):
        writers = sorted({q for (_, q, _, _) in fw.get(fld, [])})
        ctx.check(writers == [f'{CLS}.__init__'], 'R8.6', PB, f'{CLS}.__init__', 0, f'only the constructor writes {fld}',
                  f'{fld} is written outside the constructor by {writers}: reset() would no longer restore the initial grid', construct=f'writers of {fld}: {writers}')


def r87(repo, ctx, index):
    """external loader: PrecipitateModel.fromDict must rebuild the PBM from the saved (min,max,bins)"""
    from ..symfield import norm_op
    path, q = 'kawin/precipitation/KWNEuler.py', 'PrecipitateModel.fromDict'
    f = repo.func(path, q)
    td = repo.func(path, 'PrecipitateModel.toDict')
    # key templates and triple order in toDict
    triple = None
    for s in ast.walk(td):
        if isinstance(s, ast.Assign) and isinstance(s.targets[0], ast.Subscript) and isinstance(s.value, ast.List) and len(s.value.elts) == 3:
            names = [U.chain_noidx(e) for e in s.value.elts]
            if all(n and n[-1] in ('min', 'max', 'bins') for n in names):
                triple = ([n[-1] for n in names], U.dump(s.targets[0].slice).replace("'", ''))
    if triple is None:
        ctx.undecided('R8.7', path, 'PrecipitateModel.toDict', td, 'saved grid triple [min, max, bins] not found')
        return
    order, _ = triple
    loops = [n for n in ast.walk(f) if isinstance(n, ast.For)]
    if not loops:
        ctx.undecided('R8.7', path, q, f, 'phase loop not found in fromDict')
        return
    loop = loops[0]
    # the variable holding the triple
    tvar = None
    for s in loop.body:
        if isinstance(s, ast.Assign) and isinstance(s.targets[0], ast.Name) and isinstance(s.value, ast.Subscript) and 'PBM_data_' in U.src(s.value):
            tvar = s.targets[0].id
    stores = [s for s in loop.body if isinstance(s, ast.Assign) and isinstance(s.targets[0], ast.Attribute) and s.targets[0].attr in ('PSD', 'PSDsize', 'PSDbounds')]
    build = None
    for s in loop.body:
        if isinstance(s, ast.Assign) and isinstance(s.value, ast.Call) and U.call_name(s.value) == CLS and 'PBM' in U.src(s.targets[0]):
            build = ('ctor', s)
        elif isinstance(s, ast.Expr) and isinstance(s.value, ast.Call) and isinstance(s.value.func, ast.Attribute) and 'PBM' in U.src(s.value.func.value) \
                and s.value.func.attr in index.methods(KEY):
            build = (s.value.func.attr, s)
    if build is None or not stores:
        ctx.violation('R8.7', path, q, loop, 'the population balance that receives the loaded arrays is not rebuilt from the saved (min, max, bins)',
                      construct='fromDict: no grid rebuild before the array stores')
        return
    kind, stmt = build
    call = stmt.value
    sx = SymExec(repo, index, KEY)
    meth = index.lookup_method(KEY, '__init__' if kind == 'ctor' else kind)[2]

    def argterm(a):
        # int(PBMdata[2]) / PBMdata[0]
        inner = a.args[0] if isinstance(a, ast.Call) and U.call_name(a) in ('int', 'float') and a.args else a
        if isinstance(inner, ast.Subscript) and ((isinstance(inner.value, ast.Name) and inner.value.id == tvar)
                                                 or (isinstance(inner.value, ast.Subscript) and 'PBM_data_' in U.src(inner.value))):
            try:
                i = U.const_value(inner.slice)
                return ('saved', order[i])
            except Exception:
                return ('expr', U.src(a))
        try:
            return const(U.const_value(a))
        except ValueError:
            return ('expr', U.src(a))
    args = [argterm(a) for a in call.args]
    kwargs = {k.arg: argterm(k.value) for k in call.keywords if k.arg}
    outs = [o for o in sx.run(meth, args, kwargs, symbolic=False) if o.status != 'raise']
    bad = []
    for o in outs:
        mn, mx, bn = fin(o, 'min'), fin(o, 'max'), fin(o, 'bins')
        ok_min = mn == ('saved', 'min')
        ok_bins = bn == ('saved', 'bins')
        ok_max = mx == ('saved', 'max') or mx == ('call', 'np.amax', (('tuple', norm_op('Mult', const(10), ('saved', 'min')), ('saved', 'max')),), ())
        if not (ok_min and ok_bins and ok_max):
            bad.append(f'min={show(mn)[:30]}, max={show(mx)[:50]}, bins={show(bn)[:30]}')
    ctx.analysed['paths'] += len(outs)
    ctx.check(bool(outs) and not bad and all(U.seq(f)[id(stmt)] < U.seq(f)[id(s)] for s in stores), 'R8.7', path, q, stmt,
              'loaded arrays go into a population balance whose min/max/bins are the saved ones on every path of the rebuild',
              f'after the rebuild the grid scalars are not the saved ones ({bad[:1]}): loaded PSD/PSDbounds/PSDsize do not match bins/min/max',
              construct=U.src(stmt))


# ---------------------------------------------------------------------------------------------- R8.8 recording widths
class _Unknown(Exception):
    pass


def _shape(term, env):
    k = term[0]
    if k == 'mut':
        return _shape(term[1], env)
    if k == 'call' and term[1] in ('np.zeros', 'np.ones', 'np.empty'):
        a = term[2][0]
        dims = a[1:] if a[0] == 'tuple' else (a,)
        return [_ival(d, env) for d in dims]
    if k == 'call' and term[1] == 'np.pad':
        base = _shape(term[2][0], env)
        w = term[2][1]
        if w[0] == 'tuple' and all(isinstance(x, tuple) and x[0] == 'tuple' for x in w[1:]):
            pairs = [(x[1], x[2]) for x in w[1:]]
        elif w[0] == 'tuple' and len(w) == 3:
            pairs = [(w[1], w[2])]
        else:
            raise _Unknown(f'pad widths {show(w)[:40]}')
        if len(pairs) != len(base):
            raise _Unknown('pad rank')
        return [b + _ival(p0, env) + _ival(p1, env) for b, (p0, p1) in zip(base, pairs)]
    raise _Unknown(f'shape of {show(term)[:50]}')


def _ival(term, env):
    k = term[0]
    if k == 'const' and isinstance(term[1], int) and not isinstance(term[1], bool):
        return term[1]
    if k == 'old':
        if term[1] not in env:
            raise _Unknown(f'field {term[1]}')
        return env[term[1]]
    if k == 'op' and term[1] in ('Add', 'Sub', 'Mult'):
        a, b = _ival(term[2], env), _ival(term[3], env)
        return a + b if term[1] == 'Add' else a - b if term[1] == 'Sub' else a * b
    if k == 'call' and term[1] in ('max', 'np.amax', 'np.maximum', 'min', 'np.amin', 'np.minimum'):
        args = term[2]
        if len(args) == 1 and args[0][0] == 'tuple':
            args = args[0][1:]
        vals = [_ival(a, env) for a in args]
        return max(vals) if 'max' in term[1] else min(vals)
    if k == 'sub' and term[1][0] == 'attr' and term[1][2] == 'shape' and term[2][0] == 'const':
        return _shape(term[1][1], env)[term[2][1]]
    raise _Unknown(f'integer value of {show(term)[:50]}')


def _symbols(term, out):
    if isinstance(term, tuple):
        if term and term[0] == 'old' and isinstance(term[1], str):
            out.add(term[1])
        for x in term:
            _symbols(x, out)
    return out


def r88(repo, ctx, index):
    """recording: every np.pad of the recorded arrays has non-negative widths, for every relative order of the class counts
    involved (decided on the order domain: the widths are max/plus expressions of bins, maxBins and array widths with unit
    coefficients, so one representative per ordering-with-gaps is exhaustive)"""
    import itertools
    sx = SymExec(repo, index, KEY)
    en = repo.func(PB, f'{CLS}.enableRecording')
    rec = repo.func(PB, f'{CLS}.record')
    starts = [o for o in sx.run(en) if o.status != 'raise']
    n = 0
    for ad in (True, False):
        for o0 in starts:
            flds = dict(o0.fields)
            flds['_adaptiveBinSize'] = const(ad)
            # two consecutive updates: the second starts from the arrays the first produced
            first = [o for o in sx.run(rec, fields=dict(flds)) if o.status != 'raise']
            second = []
            for o1 in first:
                f2 = dict(o1.fields)
                f2['_adaptiveBinSize'] = const(ad)
                second += [o for o in sx.run(rec, fields=f2) if o.status != 'raise']
            for tag, outs in (('first', first), ('second', second)):
                for o in outs:
                    pads = [a for nm, a in o.calls if nm == 'np.pad']
                    for a in pads:
                        n += 1
                        syms = sorted(_symbols(a, set()))
                        bad = None
                        try:
                            for vals in itertools.product(range(1, len(syms) + 3), repeat=len(syms)):
                                env = dict(zip(syms, vals))
                                w = a[1]
                                pairs = [(x[1], x[2]) for x in w[1:]] if all(isinstance(x, tuple) and x[0] == 'tuple' for x in w[1:]) else [(w[1], w[2])]
                                for p0, p1 in pairs:
                                    if _ival(p0, env) < 0 or _ival(p1, env) < 0:
                                        bad = env
                                        break
                                if bad:
                                    break
                        except _Unknown as e:
                            ctx.undecided('R8.8', PB, f'{CLS}.record', rec, f'pad width not evaluable on the order domain: {e}')
                            continue
                        ctx.analysed['scenarios'] += (len(syms) + 2) ** len(syms)
                        ctx.check(bad is None, 'R8.8', PB, f'{CLS}.record', rec,
                                  f'{tag} recorded update, adaptive={ad}: pad widths of {show(a[0])[:40]} are non-negative for every ordering of {syms}',
                                  f'{tag} recorded update with adaptive binning {"on" if ad else "off"}: np.pad gets a negative width for {bad} '
                                  f'(widths {show(a[1])[:120]}): recording a population balance crashes in this configuration',
                                  construct=f'record[adaptive={ad}, {tag}]: {show(a[1])[:100]}')
    ctx.floor('R8.8', n, 8)


def r89(repo, ctx, index, states):
    """revert() installs the backup buffers as the grid, so the buffers must hold a snapshot of a consistent grid at all times.
    (1) ownership: `_prevPSD` / `_prevPSDbounds` are stored directly only by createBackup, as copies of PSD / PSDbounds taken
    together; (2) every other method reaches them only by calling createBackup, and on every path that call comes after the
    method's last write of the boundaries / class count / limits, so the snapshot is of the grid the method leaves (whose
    consistency R8.2 decides).  A writer that parks zeros there makes a later revert() produce boundaries that do not increase."""
    COPIES = ('copy.copy', 'np.copy', 'np.array', 'copy.deepcopy')
    BUFS = {'_prevPSDbounds': 'PSDbounds', '_prevPSD': 'PSD'}
    n = 0
    for name, f in sorted(index.methods(KEY).items()):
        stores = [st for st in ast.walk(f) if isinstance(st, (ast.Assign, ast.AugAssign, ast.AnnAssign)) for t in (U.flat_targets(st) if isinstance(st, ast.Assign) else [st.target])
                  if U.chain(t) and U.chain(t)[0] == 'self' and len(U.chain(t)) >= 2 and U.chain(t)[1] in BUFS]
        if not stores:
            continue
        n += 1
        if name != 'createBackup':
            ctx.violation('R8.9', PB, f'{CLS}.{name}', stores[0], f'{U.src(stores[0])[:70]}: the backup buffers are written outside createBackup, with something that is not a snapshot of the grid - '
                          'revert() would install it as the grid (boundaries that do not increase from min to max, centres that are not midpoints)', construct=f'{name}: direct store to the backup buffers')
            continue
        ok = len(stores) == 2
        for st in stores:
            t = U.flat_targets(st)[0] if isinstance(st, ast.Assign) else st.target
            buf = U.chain(t)[1]
            v = st.value
            ok = ok and isinstance(st, ast.Assign) and len(U.chain(t)) == 2 and isinstance(v, ast.Call) and (U.call_name(v) or '') in COPIES and len(v.args) >= 1 \
                and U.chain(v.args[0]) == ('self', BUFS[buf])
        ctx.check(ok, 'R8.9', PB, f'{CLS}.createBackup', f, 'createBackup stores copies of PSD and PSDbounds, taken together', 'createBackup does not store copies of both PSD and PSDbounds', construct='createBackup: snapshot')
    ctx.floor('R8.9', n, 1)
    SHAPE = {'PSDbounds', 'bins', 'min', 'max'}
    m = 0
    for name, outs in sorted(states.items()):
        late = None
        called = False
        for o in outs:
            seen_backup = False
            depth_in_backup = 0
            late_here = None          # a shape field written after the LAST snapshot of this path
            for e in o.events:
                if e[0] == 'call' and len(e) >= 2 and e[1] == 'createBackup':
                    seen_backup, called = True, True
                    depth_in_backup += 1
                    late_here = None
                elif e[0] == 'ret' and e[1] == 'createBackup':
                    depth_in_backup = max(0, depth_in_backup - 1)
                elif e[0] == 'write' and e[1] in SHAPE and seen_backup and depth_in_backup == 0 and late_here is None:
                    late_here = e[1]
            if late_here is not None and late is None:
                late = late_here
        if not called or name == 'createBackup':
            continue
        m += 1
        ctx.check(late is None, 'R8.9', PB, f'{CLS}.{name}', index.methods(KEY)[name], 'createBackup is called after the last write of the boundaries / class count / limits on every path',
                  f'{late} is written after the snapshot was taken: the backup no longer matches the grid the method leaves', construct=f'{name}: snapshot after the grid is final')
    rv = index.methods(KEY).get('revert')
    if rv is not None:
        reads = {U.chain(x)[1] for x in ast.walk(rv) if isinstance(x, ast.Attribute) and U.chain(x) and U.chain(x)[0] == 'self' and len(U.chain(x)) == 2 and isinstance(x.ctx, ast.Load)}
        ctx.check({'_prevPSD', '_prevPSDbounds'} <= reads, 'R8.9', PB, f'{CLS}.revert', rv, 'revert restores from the two backup buffers', 'revert does not restore from the backup buffers')


def check(repo, ctx, index, purity):
    ctx.explanation = EXPLANATION
    ctx.assumptions += ['numpy semantics of linspace/histogram(bin edges returned unchanged)/append as tabulated',
                        'setBinConstraints is a configuration setter, not a grid operation of the property']
    r81(repo, ctx, index)
    states = r82(repo, ctx, index)
    r83_r86(repo, ctx, index, states)
    r87(repo, ctx, index)
    r88(repo, ctx, index)
    r89(repo, ctx, index, states)
