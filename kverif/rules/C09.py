"""C09 - thermodynamic queries are pure: history, caching and batching change nothing; the composition cache is sound.

R9.1 T-PURE on the user-facing array parameters of every query function (interprocedural through all kawin callees)
R9.2 cache switch: with caching off a lookup returns None without touching the table and an insert stores nothing (symbolic execution on both flag values)
R9.3 key soundness: lookups and inserts use the same key function of (x, T, precision); in every client the insert uses exactly the arguments of the lookup; only the table owns cachedData
R9.4 refresh before reuse: supplied composition sets get the current state variables before solving; cached samples are reused only at an equal temperature
R9.5 every driving-force method passes through the removeCache reset before returning a result
R9.6 a batched evaluation at T[0] is guarded by a predicate over the whole temperature array
"""
from __future__ import annotations
import ast
from .. import astutil as U
from .. import cfg as C
from ..symfield import SymExec, const, NONE
from ..source import AnalysisError, AnchorMissing

TH = 'kawin/thermo/Thermodynamics.py'
BT = 'kawin/thermo/BinTherm.py'
MT = 'kawin/thermo/MultiTherm.py'
LE = 'kawin/thermo/LocalEquilibrium.py'
DP = 'kawin/diffusion/DiffusionParameters.py'
HP = 'kawin/diffusion/HomogenizationParameters.py'
SP = 'kawin/diffusion/SinglePhase.py'

EXPLANATION = (
    'Argument purity is decided by a may-alias analysis with numpy view/copy tables through all kawin callees of each query. '
    'The cache switch is decided by symbolically executing lookup and insert with the flag bound to False and to True. Key '
    'agreement, refresh-before-reuse of supplied composition sets, temperature-guarded reuse of cached samples, the '
    'removeCache reset on every returning path and the whole-array guard of batched evaluation are shape rules on all paths. '
    'Equality of returned numbers across histories (pycalphad internals) is not decided.')

PURE_TABLE = [
    (TH, 'GeneralThermodynamics.getDrivingForce', ['x', 'T']),
    (TH, 'GeneralThermodynamics.getInterdiffusivity', ['x', 'T']),
    (TH, 'GeneralThermodynamics.getTracerDiffusivity', ['x', 'T']),
    (TH, 'GeneralThermodynamics.getEq', ['x', 'T', 'gExtra']),
    (TH, 'GeneralThermodynamics.getLocalEq', ['x', 'T', 'gExtra']),
    (BT, 'BinaryThermodynamics.getInterfacialComposition', ['T', 'gExtra']),
    (MT, 'MulticomponentThermodynamics.getInterfacialComposition', ['x', 'T', 'gExtra']),
    (MT, 'MulticomponentThermodynamics.curvatureFactor', ['x', 'T', 'searchDir']),
    (MT, 'MulticomponentThermodynamics.getGrowthAndInterfacialComposition', ['x', 'T', 'dG', 'R', 'gExtra', 'searchDir']),
    (MT, 'MulticomponentThermodynamics.impingementFactor', ['x', 'T', 'searchDir']),
    (DP, 'computeMobility', ['x', 'T']),
    (HP, 'computeHomogenizationFunction', ['x', 'T']),
]


def r91(repo, ctx, purity):
    n = 0
    for path, q, ps in PURE_TABLE:
        f = repo.func(path, q)
        for p in ps:
            i = purity.param_index(f, p)
            if i is None:
                ctx.undecided('R9.1', path, q, f, f'parameter {p} not found')
                continue
            n += 1
            sites, _ = purity.analyse(path, q, f, i)
            seen = set()
            if sites:
                for s in sites:
                    k = (s.path, s.qual, getattr(s.node, 'lineno', 0))
                    if k in seen:
                        continue
                    seen.add(k)
                    via = ' <- '.join(f'{v[1]}' for v in s.via[:3])
                    ctx.violation('R9.1', s.path, s.qual, s.node, f'argument {p} of {q.split(".")[-1]} may be modified in place ({s.kind}{", reached via " + via if via else ""}): a repeated call no longer sees the same input',
                                  construct=U.src(s.node)[:120])
            else:
                ctx.ok('R9.1', path, q, f, f'no in-place write through an alias of {p} in {q.split(".")[-1]} or its kawin callees', construct=f'{q}({p})')
    ctx.floor('R9.1', n, 25)


def r92_r93(repo, ctx, index):
    key = (DP, 'HashTable')
    sx = SymExec(repo, index, key)
    ret = repo.func(DP, 'HashTable.retrieveFromHashTable')
    add = repo.func(DP, 'HashTable.addToHashTable')
    for flag in (False, True):
        outs = [o for o in sx.run(ret, fields={'_cache': const(flag)}) if o.status != 'raise']
        for o in outs:
            touched = any(name.endswith('.get') or name == '.get' or 'cachedData' in repr(args) for name, args in o.calls)
            if flag is False:
                ctx.check(o.retval == NONE and not touched, 'R9.2', DP, 'HashTable.retrieveFromHashTable', ret, 'caching off: lookup returns None without consulting the table',
                          'caching off: a lookup can still return a stored value (the cache cannot be switched off)', construct='retrieveFromHashTable[_cache=False]')
            else:
                ctx.check(o.retval != NONE and touched, 'R9.2', DP, 'HashTable.retrieveFromHashTable', ret, 'caching on: lookup consults the table',
                          'caching on: the lookup never consults the table', construct='retrieveFromHashTable[_cache=True]')
        outs = [o for o in sx.run(add, fields={'_cache': const(flag)}) if o.status != 'raise']
        for o in outs:
            w = 'cachedData' in o.written
            ctx.check(w == flag, 'R9.2', DP, 'HashTable.addToHashTable', add, f'caching {"on: insert stores the value" if flag else "off: insert stores nothing"}',
                      f'caching {"on: insert does not store" if flag else "off: insert still stores the value"}', construct=f'addToHashTable[_cache={flag}]')
    # flag domain: only booleans are ever assigned
    fw = index.field_writes(key, include_mro=False).get('_cache', [])
    vals = [U.src(st.value) for (_, _, st, _) in fw if isinstance(st, (ast.Assign, ast.AnnAssign)) and st.value is not None]
    en = repo.func(DP, 'HashTable.enableCaching')
    ok = all(v in ('True', 'False') or v == U.params(en)[1] for v in vals)
    ctx.check(ok and len(vals) >= 2, 'R9.2', DP, 'HashTable', fw[0][2] if fw else 0, f'the cache flag is assigned only booleans ({vals})', f'the cache flag is assigned non-boolean values {vals}', construct=f'_cache <- {vals}')
    # R9.3 key function
    hf = repo.func(DP, 'HashTable._hashingFunction')
    rets = [r for r in ast.walk(hf) if isinstance(r, ast.Return)]
    # both the composition and the temperature are multiplied by the configured precision before the key is truncated to
    # integers: a quantity that enters unscaled is resolved to whole units only (all temperatures within one kelvin collide)
    if len(rets) == 1:
        from ..formula import single_defs as _sd, inline as _inl
        expr = _inl(rets[0].value, _sd(hf))
        pnames = set(U.params(hf)[1:3])
        scaled, unscaled = set(), set()

        def leaves(e, sc):
            if isinstance(e, ast.BinOp) and isinstance(e.op, ast.Mult):
                for a_, b_ in ((e.left, e.right), (e.right, e.left)):
                    if any(isinstance(n_, ast.Attribute) and n_.attr == 'hash_sensitivity' for n_ in ast.walk(a_)):
                        leaves(b_, True)
                        return
            if isinstance(e, ast.Name):
                if e.id in pnames:
                    (scaled if sc else unscaled).add(e.id)
                return
            for ch in ast.iter_child_nodes(e):
                leaves(ch, sc)
        leaves(expr, False)
        ctx.check(scaled == pnames and not unscaled, 'R9.3', DP, 'HashTable._hashingFunction', rets[0],
                  'composition and temperature are both scaled by the configured precision before the key is truncated',
                  f'{sorted(unscaled) or sorted(pnames - scaled)} enters the key without the configured precision: it is resolved to whole units, so different temperatures/compositions share a key at every precision setting',
                  construct=U.src(expr)[:160])
    names = U.names_in(rets[0].value) if rets else set()
    flds = {U.chain(n)[1] for n in ast.walk(rets[0].value) if isinstance(n, ast.Attribute) and U.chain(n) and U.chain(n)[0] == 'self'} if rets else set()
    pn = U.params(hf)
    ctx.check(len(rets) == 1 and set(pn[1:3]) <= names and 'hash_sensitivity' in flds, 'R9.3', DP, 'HashTable._hashingFunction', hf,
              'the key depends on the composition, the temperature and the configured precision', f'the key does not depend on all of composition, temperature and precision (uses {sorted(names)}, {sorted(flds)})',
              construct=U.src(rets[0].value) if rets else '')
    for fn, f in (('retrieveFromHashTable', ret), ('addToHashTable', add)):
        calls = [c for c in U.calls(f) if U.call_name(c) == 'self._hashingFunction']
        p2 = U.params(f)
        ok = len(calls) == 1 and [U.src(a) for a in calls[0].args] == p2[1:3]
        ctx.check(ok, 'R9.3', DP, f'HashTable.{fn}', calls[0] if calls else f, f'{fn} computes the key from its own (x, T) with the shared key function', f'{fn} does not compute the key as _hashingFunction(x, T)')
    writers = sorted({q for (_, q, _, _) in index.field_writes(key, include_mro=False).get('cachedData', [])})
    ctx.check(set(writers) <= {'HashTable.__init__', 'HashTable.clearCache', 'HashTable.addToHashTable'}, 'R9.3', DP, 'HashTable', 0,
              f'cachedData is written only by {writers}', f'cachedData is written by {writers}', construct=f'writers of cachedData: {writers}')
    ext = []
    for p_, q_, f_ in repo.all_functions():
        if p_ == DP and q_.startswith('HashTable.'):
            continue
        for s in U.walk_no_nested(f_):
            if isinstance(s, (ast.Assign, ast.AugAssign)):
                for t in U.flat_targets(s):
                    c = U.chain(t)
                    if c and 'cachedData' in c:
                        ext.append((p_, q_, s))
    for p_, q_, s in ext:
        ctx.violation('R9.3', p_, q_, s, 'cachedData of the hash table is written from outside the table', construct=U.src(s))
    # clients: insert uses the arguments of the lookup
    n = 0
    for p_, q_, f_ in repo.all_functions():
        look = [c for c in U.calls(f_) if U.call_attr(c) == 'retrieveFromHashTable']
        ins = [c for c in U.calls(f_) if U.call_attr(c) == 'addToHashTable']
        if not look and not ins:
            continue
        if p_ == DP and q_.startswith('HashTable.'):
            continue
        n += 1
        lk = {tuple(U.dump(a) for a in c.args[:2]) for c in look}
        ik = {tuple(U.dump(a) for a in c.args[:2]) for c in ins}
        ctx.check(lk == ik and len(lk) == 1, 'R9.3', p_, q_, (look or ins)[0], 'the value is inserted under exactly the (x, T) it was looked up with',
                  'lookup and insert of the cache use different (x, T) arguments: a cached value can be reused for another point', construct=f'{q_}: lookup/insert arguments')
        # the inserted value is the freshly computed one for the lookup-miss branch
    ctx.floor('R9.3', n, 2)


def r94(repo, ctx):
    f = repo.func(LE, 'local_equilibrium')
    pn = U.params(f)
    cs_name = 'composition_sets'
    branch = None
    for s in ast.walk(f):
        if isinstance(s, ast.If) and isinstance(s.test, ast.Compare) and isinstance(s.test.left, ast.Name) and s.test.left.id == cs_name and isinstance(s.test.ops[0], (ast.Is, ast.IsNot)):
            branch = s.orelse if isinstance(s.test.ops[0], ast.Is) else s.body
            branch_stmt = s
    ok = False
    if branch:
        for l in branch:
            if isinstance(l, ast.For) and isinstance(l.iter, ast.Name) and l.iter.id == cs_name and isinstance(l.target, ast.Name):
                cs = l.target.id
                for st in ast.walk(l):
                    if isinstance(st, ast.Assign) and isinstance(st.targets[0], ast.Subscript) and U.chain(st.targets[0].value) == (cs, 'dof') and 'state_variables' in U.names_in(st.value):
                        ok = True
    solve = [c for c in U.calls(f) if U.call_attr(c) == 'solve']
    after = bool(solve) and branch is not None and all(U.seq(f)[id(c)] > U.seq(f)[id(branch_stmt)] and not U.inside(c, branch_stmt) for c in solve)
    ctx.check(ok and after, 'R9.4', LE, 'local_equilibrium', f, 'supplied composition sets get the current state variables (incl. temperature) before the solver runs',
              'composition sets supplied from a cache are solved without refreshing their state variables: the result depends on the temperature of the previous query',
              construct='local_equilibrium: refresh of supplied composition sets')
    sv = [s for s in ast.walk(f) if isinstance(s, ast.Assign) and isinstance(s.targets[0], ast.Name) and s.targets[0].id == 'state_variables']
    ok = bool(sv) and all('v.T' in U.src(s.value) and 'cur_conds' in U.src(s.value) for s in sv)
    ctx.check(ok, 'R9.4', LE, 'local_equilibrium', sv[0] if sv else f, 'the state variables are built from the current conditions', 'the state variables are not built from the current conditions')
    # sampled points reuse
    q = 'GeneralThermodynamics._getPrecCompositionSetSamplingDF'
    f = repo.func(TH, q)
    Tn = U.params(f)[2]
    guards = [s for s in ast.walk(f) if isinstance(s, ast.If) and any(U.call_name(c) == 'calculate' for st in s.body for c in U.calls(st))]
    guards = [gd for gd in guards if not any(gd is not o and gd in list(ast.walk(o)) for o in guards)]
    ok = False
    for gd in guards:
        t = gd.test
        for cmp_ in ast.walk(t):
            if isinstance(cmp_, ast.Compare) and len(cmp_.ops) == 1 and isinstance(cmp_.ops[0], (ast.NotEq, ast.Eq)):
                names = {n.id for n in ast.walk(cmp_) if isinstance(n, ast.Name)}
                if Tn in names and (('prevT' in names) or 'temperature' in U.src(cmp_)):
                    ok = True
    ctx.check(ok and len(guards) == 1, 'R9.4', TH, q, guards[0] if guards else f, 'cached precipitate samples are recomputed unless they were taken at the current temperature',
              'cached precipitate samples are reused without comparing their temperature with the current one: after a temperature change the driving force is computed from energies of the old temperature',
              construct=U.src(guards[0].test) if guards else 'no guard')
    store = [c for c in U.calls(f) if U.call_name(c) == 'SampledPointsCache' and U.kwarg(c, 'temperature') is not None]
    ctx.check(bool(store) and all(isinstance(U.kwarg(c, 'temperature'), ast.Name) and U.kwarg(c, 'temperature').id == Tn for c in store), 'R9.4', TH, q, store[0] if store else f,
              'the cache records the temperature at which the samples were taken', 'the sample cache does not record the temperature of the samples')


def r95(repo, ctx):
    n = 0
    for m in ('_getDrivingForceSampling', '_getDrivingForceApprox', '_getDrivingForceCurvature', '_getDrivingForceTangent'):
        q = f'GeneralThermodynamics.{m}'
        f = repo.func(TH, q)
        g = C.build(f)

        def gen(node, label):
            a = node.ast
            if node.kind == 'stmt' and any(U.call_name(c) == 'self._resetDrivingForceCache' for c in U.calls(a)):
                return {'reset'}
            return set()
        IN = C.must_forward(g, gen)
        bad = []
        for node in g.nodes:
            a = node.ast
            if node.kind == 'stmt' and isinstance(a, ast.Return) and a.value is not None:
                v = a.value
                if isinstance(v, ast.Tuple) and all(isinstance(e, ast.Constant) and e.value is None for e in v.elts):
                    continue
                if isinstance(v, ast.Call) and (U.call_name(v) or '').startswith('self._getDrivingForce'):
                    continue
                if IN[node.id] is None or 'reset' not in IN[node.id]:
                    bad.append(a)
        n += 1
        ctx.check(not bad, 'R9.5', TH, q, bad[0] if bad else f, 'every path that returns a result passes through the removeCache reset',
                  'a result is returned on a path that skips _resetDrivingForceCache: with removeCache=True cached equilibria survive and later queries depend on this one',
                  construct=f'{m}: reset before return')
        calls = [c for c in U.calls(f) if U.call_name(c) == 'self._resetDrivingForceCache']
        for c in calls:
            ok = len(c.args) == 2 and isinstance(c.args[1], ast.Name) and c.args[1].id == 'removeCache' and isinstance(c.args[0], ast.Name) and c.args[0].id == 'precPhase'
            ctx.check(ok, 'R9.5', TH, q, c, 'the reset receives the phase and the removeCache flag of the query', 'the reset is not called with (precPhase, removeCache)')
    ctx.floor('R9.5', n, 4)
    f = repo.func(TH, 'GeneralThermodynamics._resetDrivingForceCache')
    cleared = set()
    for s in ast.walk(f):
        if isinstance(s, ast.Assign):
            for t in s.targets:
                c = U.chain(t)
                if c and c[0] == 'self':
                    cleared.add(c[1])
    ctx.check({'_compset_cache_df', '_matrix_cs', '_points_cache'} <= cleared, 'R9.5', TH, 'GeneralThermodynamics._resetDrivingForceCache', f,
              'the reset clears the composition-set cache, the matrix composition set and the sampled points', f'the reset clears only {sorted(cleared)}')


def _uniform_polarity(test, Tn):
    """True: the test holds only when all entries of Tn are equal; False: the test fails only then; None: not recognised"""
    neg = False
    while isinstance(test, ast.UnaryOp) and isinstance(test.op, ast.Not):
        test, neg = test.operand, not neg
    pol = None
    if isinstance(test, ast.Compare) and len(test.ops) == 1:
        l, op, r = test.left, test.ops[0], test.comparators[0]
        swap = {ast.Lt: ast.Gt, ast.Gt: ast.Lt, ast.LtE: ast.GtE, ast.GtE: ast.LtE}
        if isinstance(l, ast.Constant) and not isinstance(r, ast.Constant):
            l, r = r, l
            op = swap.get(type(op), type(op))()
        ls = U.src(l).replace(' ', '')
        k = r.value if isinstance(r, ast.Constant) and isinstance(r.value, (int, float)) and not isinstance(r.value, bool) else None
        uniq = ls in (f'len(np.unique({Tn}))', f'np.unique({Tn}).size', f'len(set({Tn}))', f'np.unique({Tn}).shape[0]')
        spread = ls in (f'np.ptp({Tn})', f'np.amax({Tn})-np.amin({Tn})', f'np.max({Tn})-np.min({Tn})', f'{Tn}.max()-{Tn}.min()')
        import operator as _op
        fn = {ast.Eq: _op.eq, ast.NotEq: _op.ne, ast.Lt: _op.lt, ast.LtE: _op.le, ast.Gt: _op.gt, ast.GtE: _op.ge}.get(type(op))
        if (uniq or spread) and k is not None and fn is not None:
            # the quantity is 1 (resp. 0) exactly for a uniform array: tabulate the test on it and on non-uniform values
            same, others = (1, (2, 3, 4, 7)) if uniq else (0, (1e-9, 0.5, 1, 10))
            if fn(same, k) and not any(fn(o, k) for o in others):
                pol = True
            elif not fn(same, k) and all(fn(o, k) for o in others):
                pol = False
            else:
                pol = 'mixed'
        elif k is None and {ls, U.src(r).replace(' ', '')} in ({f'np.amax({Tn})', f'np.amin({Tn})'}, {f'np.max({Tn})', f'np.min({Tn})'}, {f'{Tn}.max()', f'{Tn}.min()'}):
            if isinstance(op, ast.Eq):
                pol = True
            elif isinstance(op, ast.NotEq):
                pol = False
    elif isinstance(test, ast.Call) and (U.call_name(test) or '') in ('np.all', 'np.allclose', 'np.array_equal') and test.args:
        a0 = test.args[0]
        if U.call_name(test) == 'np.all' and isinstance(a0, ast.Compare) and len(a0.ops) == 1 and isinstance(a0.ops[0], ast.Eq) \
                and {U.src(a0.left), U.src(a0.comparators[0])} == {Tn, f'{Tn}[0]'}:
            pol = True
        elif U.call_name(test) in ('np.allclose', 'np.array_equal') and len(test.args) >= 2 and {U.src(test.args[0]), U.src(test.args[1])} == {Tn, f'{Tn}[0]'} \
                and not test.keywords:
            pol = True if U.call_name(test) == 'np.array_equal' else None
    if pol is None or pol == 'mixed':
        return pol
    return (not pol) if neg else pol


def r96(repo, ctx):
    q = 'BinaryThermodynamics.getInterfacialComposition'
    f = repo.func(BT, q)
    Tn = U.params(f)[1]
    n = 0
    for s in ast.walk(f):
        if isinstance(s, (ast.If, ast.IfExp)):
            body = s.body if isinstance(s, ast.If) else [s.body]
            orelse = s.orelse if isinstance(s, ast.If) else [s.orelse]
            for branch, taken_when in ((body, True), (orelse, False)):
                uses_first = any(isinstance(a, ast.Subscript) and isinstance(a.value, ast.Name) and a.value.id == Tn and U.is_const(a.slice, 0) for st in branch for c in U.calls(st) for a in c.args)
                if not uses_first:
                    continue
                n += 1
                whole = False
                for c in U.calls(s.test):
                    nm = U.call_name(c) or ''
                    if nm in ('np.unique', 'np.all', 'np.ptp', 'set', 'np.array_equal', 'np.amax', 'np.amin', 'np.max', 'np.min') and any(Tn in U.names_in(a) for a in c.args):
                        whole = True
                tolerant = [U.call_name(c) for c in U.calls(s.test) if (U.call_name(c) or '') in ('np.allclose', 'np.isclose', 'math.isclose')]
                if tolerant:
                    ctx.violation('R9.6', BT, q, s, f'the batched evaluation at {Tn}[0] is guarded by the tolerance test {U.src(s.test)}: temperatures that differ by less than the tolerance are all '
                                  f'evaluated at {Tn}[0], so a point inside such an array gets the result of another temperature than the same point alone', construct=U.src(s.test))
                    continue
                pol = _uniform_polarity(s.test, Tn)
                ctx.check(whole and (pol is None or pol == taken_when), 'R9.6', BT, q, s, 'the single batched evaluation at T[0] is taken only when a predicate over the whole temperature array says all temperatures are equal',
                          (f'the batched evaluation at {Tn}[0] is guarded by a test that inspects only some entries of {Tn} ({U.src(s.test)}): a point inside an array is evaluated at another temperature than the same point alone'
                           if not whole else f'the batched evaluation at {Tn}[0] is taken when the temperatures are NOT all equal ({U.src(s.test)} selects the other branch for a uniform array)'),
                          construct=U.src(s.test))
    ctx.floor('R9.6', n, 1)
    # the point-by-point evaluation visits the (T, gExtra) pairs in the order they were given
    n2 = 0
    for comp in ast.walk(f):
        gens = comp.generators if isinstance(comp, (ast.ListComp, ast.GeneratorExp)) else None
        body_calls = []
        if gens is not None:
            body_calls = [c for c in U.calls(comp.elt) if U.call_attr(c) == '_interfacialComposition']
            iters = [g.iter for g in gens]
        elif isinstance(comp, ast.For):
            body_calls = [c for st in comp.body for c in U.calls(st) if U.call_attr(c) == '_interfacialComposition']
            iters = [comp.iter]
        if not body_calls:
            continue
        n2 += 1
        reorder = [U.call_name(c) for it in iters for c in U.calls(it) if (U.call_name(c) or '') in ('np.unique', 'sorted', 'set', 'reversed', 'np.sort', 'np.flip', 'np.argsort', 'frozenset')]
        rev_slice = any(isinstance(sl, ast.Slice) and sl.step is not None and not U.is_const(sl.step, 1) for it in iters for sub in ast.walk(it) if isinstance(sub, ast.Subscript)
                        for sl in ([sub.slice] if not isinstance(sub.slice, ast.Tuple) else sub.slice.elts))
        ctx.check(not reorder and not rev_slice, 'R9.6', BT, q, comp, 'the point-by-point evaluation walks the (T, gExtra) pairs in the order given, so the i-th result belongs to the i-th input',
                  f'the point-by-point evaluation iterates {", ".join(U.src(it) for it in iters)} ({", ".join(reorder) or "a strided slice"} changes the order / multiplicity of the inputs): '
                  'the i-th result no longer belongs to the i-th (T, gExtra) pair', construct='getInterfacialComposition: order of the per-point results')
    ctx.floor('R9.6/order', n2, 1)


def check(repo, ctx, index, purity):
    ctx.explanation = EXPLANATION
    ctx.assumptions += ['numpy view/copy semantics as tabulated in kverif/purity.py', 'pycalphad calls do not modify the arrays they are given', 'equality of returned values across query histories is not decided']
    r91(repo, ctx, purity)
    r92_r93(repo, ctx, index)
    r94(repo, ctx)
    r95(repo, ctx)
    r96(repo, ctx)
