"""C11 - results are equivariant under reordering of elements and of phases.

R11.1 order typing at every argsort(elements) site: pycalphad values are in alphabetical order (ALPHA), user values in
      the order of the element list (USER).  unsort = argsort(argsort(elements[slice])); every ALPHA value is converted
      before it is returned / stored in a result / combined with a USER value; matrices are permuted on both axes.
R11.2 T-EQUIV over the loops over phases of the precipitation package (and over coupled models)
R11.3 no closure created in a loop captures the loop variable by reference
R11.4 per-element boundary conditions are addressed by element name, the array row by the position of that element
"""
from __future__ import annotations
import ast
from .. import astutil as U
from .. import equiv
from ..source import AnalysisError, AnchorMissing

EXPLANATION = (
    'Element order: a small type system with two order types (alphabetical as produced by pycalphad, user order of the '
    'element list) is checked at all conversion sites: the unsort index must be argsort(argsort(elements[slice])), an '
    'alphabetical value must be converted before it leaves the function or meets a user-ordered value, and matrices must be '
    'permuted on both axes. Phase order: every loop over phases must write only at the loop index, into iteration-local '
    'temporaries or through commutative reductions, without early exit, loop-carried temporaries, constant phase indices or '
    'closures capturing the loop variable. These are necessary conditions for equivariance on every input; numerical '
    'equality of paired runs is not decided.')

ALPHA, USER, NONE, MIX = 'ALPHA', 'USER', 'NONE', 'MIX'
ALPHA_CALLS = {'inverseMobility', 'inverseMobility_from_diffusivity', 'tracer_diffusivity', 'tracer_diffusivity_from_diff',
               'mobility_from_composition_set', 'dMudX'}
PASS_CALLS = {'np.array', 'np.squeeze', 'np.delete', 'np.atleast_1d', 'np.atleast_2d', 'np.asarray', 'np.linalg.inv', 'np.transpose', 'np.abs', 'np.log', 'np.exp', 'np.power'}
REDUCE_CALLS = {'np.sum', 'np.amax', 'np.amin', 'np.any', 'np.all', 'np.linalg.matrix_rank', 'len', 'np.isnan', 'any', 'all', 'np.allclose', 'np.prod'}
SITE_FILES = ['kawin/thermo/Thermodynamics.py', 'kawin/thermo/MultiTherm.py', 'kawin/diffusion/DiffusionParameters.py', 'kawin/diffusion/HomogenizationParameters.py']


def _idx_names(e):
    """names in an index expression; a permutation map held in a field counts under its dotted name ('self._unsortIndices')"""
    out = set(U.names_in(e))
    for n in ast.walk(e):
        if isinstance(n, ast.Attribute) and isinstance(n.value, ast.Name) and n.value.id == 'self':
            out.add(f'self.{n.attr}')
    return out


def _field_maps(repo, path, q):
    """(sort fields, unsort fields) of the class of method q: self.X = argsort(<..>.elements[..]) / self.Y = argsort(self.X) in a
    method of the class (the constructor), each field assigned exactly once in the class"""
    if '.' not in q:
        return {}, {}
    cls = q.split('.')[0]
    sorts, unsorts, count = {}, {}, {}
    for q2, f2 in repo.functions(path):
        if not q2.startswith(cls + '.'):
            continue
        for st in ast.walk(f2):
            if isinstance(st, ast.Assign) and len(st.targets) == 1 and isinstance(st.targets[0], ast.Attribute) and isinstance(st.targets[0].value, ast.Name) \
                    and st.targets[0].value.id == 'self':
                nm = f'self.{st.targets[0].attr}'
                count[nm] = count.get(nm, 0) + 1
                v = st.value
                if isinstance(v, ast.Call) and U.call_name(v) == 'np.argsort' and v.args:
                    a = v.args[0]
                    if isinstance(a, ast.Subscript) and U.chain(a.value) and U.chain(a.value)[-1] == 'elements':
                        sorts[nm] = (st, a)
                    elif isinstance(a, ast.Attribute) and isinstance(a.value, ast.Name) and a.value.id == 'self':
                        unsorts[nm] = (st, f'self.{a.attr}')
    sorts = {k: v for k, v in sorts.items() if count.get(k) == 1}
    unsorts = {k: v for k, v in unsorts.items() if count.get(k) == 1 and v[1] in sorts}
    return sorts, unsorts


class OrderTyper:
    def __init__(self, ctx, path, q, func, sort_names, unsort_names):
        self.ctx, self.path, self.q, self.f = ctx, path, q, func
        self.s, self.u = set(sort_names), set(unsort_names)
        self.env = {}
        pn = U.params(func)
        for p in pn:
            if p in ('x', 'xi'):
                self.env[p] = USER
        self.problems = []

    def _package_functions(self):
        repo = self.ctx.repo
        cache = getattr(repo, '_kv_pkg_functions', None)
        if cache is None:
            cache = set()
            for path in SITE_FILES:
                try:
                    cache |= {q.split('.')[-1] for q, _ in repo.functions(path)}
                except Exception:
                    pass
            repo._kv_pkg_functions = cache
        return cache

    def comb(self, a, b, node):
        if a == NONE:
            return b
        if b == NONE:
            return a
        if a == b:
            return a
        if MIX in (a, b):
            return MIX
        self.problems.append((node, f'an alphabetically ordered value is combined with a user-ordered value: {U.src(node)[:90]}'))
        return MIX

    def ty(self, e):
        if e is None:
            return NONE
        if isinstance(e, ast.Name):
            return self.env.get(e.id, NONE)
        if isinstance(e, ast.Constant):
            return NONE
        if isinstance(e, ast.Attribute):
            if e.attr in ('X', 'MU'):
                return ALPHA
            if e.attr == 'chemical_potentials':
                root = U.chain(e)
                # the solver result is alphabetical; a MobilityData record already holds converted values
                if root and 'mobility' in root[0].lower():
                    return NONE
                # so does a record returned by a function of this package (whose own returns are checked by this rule)
                if isinstance(e.value, ast.Name):
                    binds = [a for a in ast.walk(self.f) if isinstance(a, ast.Assign) and any(isinstance(t, ast.Name) and t.id == e.value.id for t in a.targets)]
                    pkg = self._package_functions()
                    if binds and all(isinstance(a.value, ast.Call) and (U.call_name(a.value) or '').split('.')[-1] in pkg for a in binds):
                        return NONE
                return ALPHA
            if e.attr in ('T', 'real'):
                return self.ty(e.value)
            return NONE
        if isinstance(e, ast.Subscript):
            names = _idx_names(e.slice)
            base = self.ty(e.value)
            if names & self.u:
                # matrices are converted one axis at a time: M[u, :] then M[:, u]   (v[..., u] permutes the last axis of a stack of vectors)
                if isinstance(e.slice, ast.Tuple) and len(e.slice.elts) == 2 and not any(isinstance(x, ast.Constant) and x.value is Ellipsis for x in e.slice.elts):
                    ax = 0 if (_idx_names(e.slice.elts[0]) & self.u) else 1
                    both = bool(_idx_names(e.slice.elts[0]) & self.u) and bool(_idx_names(e.slice.elts[1]) & self.u)
                    if both:
                        return USER
                    if base in (ALPHA, NONE):
                        return f'HALF{ax}'
                    if base == f'HALF{1 - ax}':
                        return USER
                    self.problems.append((e, f'axis {ax} is permuted twice with the unsort index: {U.src(e)[:80]}'))
                    return base
                if base == USER:
                    self.problems.append((e, f'a user-ordered value is permuted with the unsort index: {U.src(e)[:80]}'))
                return USER if base in (ALPHA, NONE, USER) else base
            if names & self.s:
                if base == ALPHA:
                    self.problems.append((e, f'an alphabetically ordered value is permuted with the sort index: {U.src(e)[:80]}'))
                return ALPHA
            return base
        if isinstance(e, ast.BinOp):
            return self.comb(self.ty(e.left), self.ty(e.right), e)
        if isinstance(e, ast.UnaryOp):
            return self.ty(e.operand)
        if isinstance(e, (ast.Tuple, ast.List)):
            t = NONE
            for x in e.elts:
                t = self.comb(t, self.ty(x), e)
            return t
        if isinstance(e, ast.IfExp):
            return self.comb(self.ty(e.body), self.ty(e.orelse), e)
        if isinstance(e, ast.Call):
            nm = U.call_name(e) or ''
            last = nm.split('.')[-1]
            if last in ALPHA_CALLS:
                return ALPHA
            if nm in REDUCE_CALLS:
                for a in e.args:
                    self.ty(a)
                return NONE
            if nm in ('np.matmul', 'np.dot', 'np.outer'):
                leaves = []

                def flat(x):
                    if isinstance(x, ast.Call) and U.call_name(x) in ('np.matmul', 'np.dot'):
                        for y in x.args:
                            flat(y)
                    else:
                        leaves.append(x)
                flat(e)
                t = NONE
                for a in leaves:
                    t = self.comb(t, self.ty(a), e)
                # v^T M v: a full contraction of consistently ordered operands does not depend on the order
                if len(leaves) >= 3 and t in (ALPHA, USER, NONE):
                    return NONE
                return t
            if nm in PASS_CALLS or last in ('flatten', 'copy', 'astype', 'reshape'):
                if isinstance(e.func, ast.Attribute) and last in ('flatten', 'copy', 'astype', 'reshape') and nm not in PASS_CALLS:
                    return self.ty(e.func.value)
                return self.ty(e.args[0]) if e.args else NONE
            if last == 'x_to_u_frac':
                return self.ty(e.args[0]) if e.args else NONE
            return NONE
        return NONE

    def run(self):
        for st in self._ordered(self.f.body):
            if isinstance(st, ast.Assign):
                t = self.ty(st.value)
                for tg in st.targets:
                    if isinstance(tg, ast.Name):
                        self.env[tg.id] = t
                    elif isinstance(tg, (ast.Tuple, ast.List)):
                        if isinstance(st.value, ast.Call) and (U.call_name(st.value) or '').split('.')[-1] in ('inverseMobility', 'inverseMobility_from_diffusivity'):
                            for el in tg.elts:
                                if isinstance(el, ast.Name):
                                    self.env[el.id] = ALPHA if el.id != '_' else NONE
                        elif isinstance(st.value, ast.Name) or isinstance(st.value, ast.Call):
                            for el in tg.elts:
                                if isinstance(el, ast.Name):
                                    # composition sets / chemical potentials unpacked from an equilibrium result keep NONE (objects); .X access types them
                                    self.env[el.id] = ALPHA if 'chemical_potentials' in el.id else NONE
                    elif isinstance(tg, ast.Subscript):
                        # store into a result array / dict: the value must not be ALPHA
                        # scatter: X[.., P] = v puts element k of v at position P[k], i.e. X = v[.., P^-1].  With the unsort index that is
                        # v[sort] - the inverse of the conversion alphabetical -> user (which is the gather v[unsort] or the scatter by sort)
                        sn = _idx_names(tg.slice)
                        root_ = tg.value
                        while isinstance(root_, ast.Subscript):
                            root_ = root_.value
                        if sn & self.u and t in (ALPHA, NONE) and isinstance(root_, ast.Name):
                            if t == ALPHA:
                                self.problems.append((st, f'an alphabetically ordered value is scattered with the unsort index ({U.src(st)[:70]}): X[.., unsort] = v is X = v[.., sort], the inverse '
                                                          'of the conversion to the user order v[.., unsort]; the two agree only for element lists whose permutation is its own inverse'))
                            self.env[root_.id] = MIX if t == ALPHA else self.env.get(root_.id, NONE)
                            continue
                        if sn & self.s and t == ALPHA and isinstance(root_, ast.Name):
                            self.env[root_.id] = USER          # scatter by the sort index = gather by the unsort index
                            continue
                        if t == ALPHA and not (_idx_names(tg.slice) & (self.s | self.u)):
                            root = U.chain(tg)
                            if root and root[0] != 'self' and self.env.get(root[0], NONE) == ALPHA:
                                continue
                            if self._name_addressed(st, tg):
                                continue
                            self.problems.append((st, f'an alphabetically ordered value is stored without conversion to the user order: {U.src(st)[:90]}'))
                # result tuples
                if isinstance(st.value, ast.Call) and (U.call_name(st.value) or '').endswith(('Output', 'Data')):
                    for kw in st.value.keywords:
                        if (self.ty(kw.value) == ALPHA or str(self.ty(kw.value)).startswith('HALF')) and kw.arg not in ():
                            self.problems.append((st, f'result field {kw.arg} receives an alphabetically ordered value without (complete) conversion'))
            elif isinstance(st, ast.AugAssign):
                if isinstance(st.target, ast.Name):
                    self.env[st.target.id] = self.comb(self.env.get(st.target.id, NONE), self.ty(st.value), st)
                else:
                    self.ty(st.value)
            elif isinstance(st, ast.Return) and st.value is not None:
                vals = st.value.elts if isinstance(st.value, ast.Tuple) else [st.value]
                for v in vals:
                    if isinstance(v, ast.Call) and (U.call_name(v) or '').endswith(('Output', 'Data')):
                        for kw in v.keywords:
                            if self.ty(kw.value) == ALPHA and kw.arg not in ():
                                self.problems.append((st, f'result field {kw.arg} receives an alphabetically ordered value without conversion'))
                        continue
                    tv = self.ty(v)
                    if tv == ALPHA or str(tv).startswith('HALF'):
                        self.problems.append((st, f'an alphabetically ordered value is returned without (complete) conversion to the user order: {U.src(v)[:80]}'))
            elif isinstance(st, ast.Expr):
                self.ty(st.value)
        return self.problems

    def _name_addressed(self, st, tg):
        """target[key(e)] = value[i] inside `for i, e in enumerate(..)`: the entry is addressed by the element the index
        belongs to (a pycalphad condition dictionary), so no order conversion is involved"""
        for loop in ast.walk(self.f):
            if isinstance(loop, ast.For) and any(n is st for n in ast.walk(loop)) and isinstance(loop.iter, ast.Call) \
                    and U.call_name(loop.iter) == 'enumerate' and isinstance(loop.target, ast.Tuple) and len(loop.target.elts) == 2 \
                    and all(isinstance(x, ast.Name) for x in loop.target.elts):
                i, e = loop.target.elts[0].id, loop.target.elts[1].id
                v = st.value
                # the key may be built from the element through locals of the iteration (key = v.MU(e); target[key] = ..)
                keynames = set(U.names_in(tg.slice))
                for _ in range(4):
                    for b in ast.walk(loop):
                        if isinstance(b, ast.Assign) and len(b.targets) == 1 and isinstance(b.targets[0], ast.Name) and b.targets[0].id in keynames:
                            keynames |= U.names_in(b.value)
                if e in keynames and isinstance(v, ast.Subscript) and isinstance(v.slice, ast.Name) and v.slice.id == i:
                    return True
        return False

    def _ordered(self, body):
        for st in body:
            if isinstance(st, (ast.If, ast.For, ast.While, ast.With, ast.Try)):
                for attr in ('body', 'orelse', 'finalbody'):
                    yield from self._ordered(getattr(st, attr, []) or [])
                if isinstance(st, ast.Try):
                    for h in st.handlers:
                        yield from self._ordered(h.body)
            elif isinstance(st, (ast.FunctionDef, ast.ClassDef)):
                continue
            else:
                yield st


def _elements_slice(a):
    if isinstance(a, ast.Subscript) and U.chain(a.value) and U.chain(a.value)[-1] == 'elements':
        return a
    if isinstance(a, ast.Attribute) and U.chain(a) and U.chain(a)[-1] == 'elements':
        return ast.Subscript(value=a, slice=ast.Slice(lower=None, upper=None, step=None), ctx=ast.Load())
    return None


def _hoist_anonymous_unsorts(f):
    """argsort(argsort(elements[..])) used in place (not bound to a name) is given a synthetic name, so that the typing
    sees it as an unsort index: returns (copy of f with the names, {name: (call node, elements slice)})"""
    import copy
    f2 = copy.deepcopy(f)
    anon = {}

    class T(ast.NodeTransformer):
        def visit_Assign(self, node):
            v = node.value
            if len(node.targets) == 1 and isinstance(node.targets[0], ast.Name) and isinstance(v, ast.Call) and U.call_name(v) == 'np.argsort':
                return node
            return self.generic_visit(node)

        def visit_Call(self, node):
            self.generic_visit(node)
            if U.call_name(node) == 'np.argsort' and node.args and isinstance(node.args[0], ast.Call) and U.call_name(node.args[0]) == 'np.argsort' \
                    and node.args[0].args and _elements_slice(node.args[0].args[0]) is not None:
                nm = f'__unsort{len(anon)}'
                anon[nm] = (node, _elements_slice(node.args[0].args[0]))
                return ast.copy_location(ast.Name(id=nm, ctx=ast.Load()), node)
            return node
    T().visit(f2)
    return f2, anon


def r111(repo, ctx):
    n_sites = 0
    for path in SITE_FILES:
        for q, f in repo.functions(path):
            f, anon = _hoist_anonymous_unsorts(f)
            sorts, unsorts = {}, {}
            for nm, (node, sl_) in anon.items():
                sorts[f'<sort of {nm}>'] = (node, sl_)
                unsorts[nm] = (node, f'<sort of {nm}>')
            for st in U.walk_no_nested(f):
                if isinstance(st, ast.Assign) and isinstance(st.targets[0], ast.Name) and isinstance(st.value, ast.Call) and U.call_name(st.value) == 'np.argsort' and st.value.args:
                    a = st.value.args[0]
                    if st.targets[0].id == '_':
                        continue        # value discarded
                    if isinstance(a, ast.Subscript) and U.chain(a.value) and U.chain(a.value)[-1] == 'elements':
                        sorts[st.targets[0].id] = (st, a)
                    elif isinstance(a, ast.Attribute) and U.chain(a) and U.chain(a)[-1] == 'elements':
                        sorts[st.targets[0].id] = (st, ast.Subscript(value=a, slice=ast.Slice(lower=None, upper=None, step=None), ctx=ast.Load()))
                    elif isinstance(a, ast.Name):
                        unsorts[st.targets[0].id] = (st, a.id)
                    elif isinstance(a, ast.Call) and U.call_name(a) == 'np.argsort' and a.args:
                        # unsort = argsort(argsort(elements[..])): the sort index is anonymous
                        b = a.args[0]
                        anon = f'<sort of {st.targets[0].id}>'
                        if isinstance(b, ast.Subscript) and U.chain(b.value) and U.chain(b.value)[-1] == 'elements':
                            sorts[anon] = (st, b)
                            unsorts[st.targets[0].id] = (st, anon)
                        elif isinstance(b, ast.Attribute) and U.chain(b) and U.chain(b)[-1] == 'elements':
                            sorts[anon] = (st, ast.Subscript(value=b, slice=ast.Slice(lower=None, upper=None, step=None), ctx=ast.Load()))
                            unsorts[st.targets[0].id] = (st, anon)
            # a helper whose result is the unsort index: return np.argsort(<sort name>)
            for st in U.walk_no_nested(f):
                if isinstance(st, ast.Return) and isinstance(st.value, ast.Call) and U.call_name(st.value) == 'np.argsort' and st.value.args and isinstance(st.value.args[0], ast.Name) \
                        and st.value.args[0].id in sorts:
                    unsorts['<returned>'] = (st, st.value.args[0].id)
            params_u = {p for p in U.params(f) if p == 'unsortIndices'}
            fsorts, funsorts = _field_maps(repo, path, q)
            used = {f'self.{n.attr}' for n in ast.walk(f) if isinstance(n, ast.Attribute) and isinstance(n.value, ast.Name) and n.value.id == 'self' and isinstance(n.ctx, ast.Load)}
            field_s = {k for k in fsorts if k in used}
            field_u = {k for k in funsorts if k in used}
            # the maps defined in this function (the constructor) are checked like local ones: slice of the element list, pairing
            own_lines = {n.lineno for n in ast.walk(f) if hasattr(n, 'lineno')}
            for k_, (st_, a_) in fsorts.items():
                if st_.lineno in own_lines and any(isinstance(n, ast.Assign) and U.src(n) == U.src(st_) for n in ast.walk(f)):
                    sorts[k_] = (st_, a_)
            for k_, (st_, arg_) in funsorts.items():
                if st_.lineno in own_lines and any(isinstance(n, ast.Assign) and U.src(n) == U.src(st_) for n in ast.walk(f)):
                    unsorts[k_] = (st_, arg_)
            if not sorts and not params_u and not field_s and not field_u:
                continue
            for sname, (st, a) in sorts.items():
                n_sites += 1
                sl = a.slice
                ok_slice = isinstance(sl, ast.Slice) and U.is_const(sl.upper, -1) and (sl.lower is None or U.is_const(sl.lower, 1)) and sl.step is None
                ctx.check(ok_slice, 'R11.1', path, q, st, f'sort index is argsort(elements{U.src(a)[U.src(a).rindex("["):]}): the VA entry is excluded, reference element {"excluded" if sl.lower is not None else "included"}',
                          f'sort index is taken over the wrong slice of the element list: {U.src(a)}', construct=U.src(st))
                mine = [u for u, (ust, arg) in unsorts.items() if arg == sname or (arg in sorts and arg.startswith('<') and U.same(sorts[arg][1], a))]
                ctx.check(len(mine) >= 1, 'R11.1', path, q, st, f'unsort index = argsort({sname})', f'no unsort index argsort({sname}) is derived from this sort index: alphabetical values cannot be converted back',
                          construct=f'{q}: unsort of {sname}')
            for uname, (ust, arg) in unsorts.items():
                ctx.check(arg in sorts, 'R11.1', path, q, ust, f'{uname} is the argsort of a sort index of the element list', f'{uname} = argsort({arg}) where {arg} is not argsort(elements[..])')
            unames = set(unsorts) | params_u | set(funsorts)
            if field_s or field_u:
                n_sites += 1
            typer = OrderTyper(ctx, path, q, f, set(sorts) | set(fsorts), unames)
            probs = typer.run()
            for node, text in probs:
                ctx.violation('R11.1', path, q, node, text, construct=U.src(node)[:120])
            if not probs:
                ctx.ok('R11.1', path, q, f, 'every alphabetically ordered value is converted before it is returned, stored or combined with a user-ordered value', construct=f'{q}: order typing')
            # both axes
            rows, cols = set(), set()
            for n in U.walk_no_nested(f):
                if isinstance(n, ast.Subscript) and isinstance(n.slice, ast.Tuple) and len(n.slice.elts) == 2:
                    root = n.value
                    while isinstance(root, ast.Subscript):
                        root = root.value
                    if not isinstance(root, ast.Name):
                        continue
                    a0, a1 = n.slice.elts
                    if isinstance(a0, ast.Name) and a0.id in unames and isinstance(a1, ast.Slice):
                        rows.add(root.id)
                    if isinstance(a1, ast.Name) and a1.id in unames and isinstance(a0, ast.Slice):
                        cols.add(root.id)
            if rows or cols:
                ctx.check(rows == cols, 'R11.1', path, q, f, f'matrices {sorted(rows)} are permuted on both axes with the same index',
                          f'matrix permuted on one axis only: rows {sorted(rows)}, columns {sorted(cols)}', construct=f'{q}: both axes')
    ctx.floor('R11.1', n_sites, 10)


PHASE_COLLECTIONS = ('phases', 'precipitateParameters', 'PBM', 'PBMs', 'models', '_stoppingConditions', 'stopConds')
FROZEN = {('kawin/precipitation/KWNEuler.py', 'PrecipitateModel._updateParticleSizeDistribution'): {'self.growth'}}


def r112_r113(repo, ctx):
    nl = 0
    for p, q, f in repo.all_functions():
        if not (p.startswith('kawin/precipitation/') or p == 'kawin/GenericModel.py') or '/Plot' in p:
            continue
        for loop, pv, coll in equiv.index_loops(f, PHASE_COLLECTIONS):
            nl += 1
            probs = equiv.check_loop(f, loop, pv, frozen=FROZEN.get((p, q), ()))
            if probs:
                for kind, node, text in probs:
                    ctx.violation('R11.2', p, q, node, f'loop over {coll} is not permutation-equivariant ({kind}): {text}', construct=U.src(node)[:120])
            else:
                ctx.ok('R11.2', p, q, loop, f'loop over {coll}: stores at the loop index, iteration-local temporaries or commutative reductions only', construct=f'{q}: for {pv} in range(len({coll}))')
    ctx.floor('R11.2', nl, 20)
    nc = 0
    for p, q, f in repo.all_functions():
        if '/Plot' in p:
            continue
        for n, v, loop in equiv.late_binding_closures(f):
            nc += 1
            ctx.violation('R11.3', p, q, n, f'a closure created inside a loop uses the loop variable {v} as a free variable: after the loop every such closure sees the last item (bind it as a default argument)',
                          construct=U.src(n)[:120])
    ctx.ok('R11.3', '', '', 0, 'no closure created in a loop captures the loop variable by reference', construct='late-binding closures: 0')


def r114(repo, ctx):
    path = 'kawin/diffusion/DiffusionParameters.py'
    n = 0
    for m in ('applyBoundaryConditionsToFluxes', 'applyBoundaryConditionsToInitialProfile'):
        q = f'BoundaryConditions.{m}'
        f = repo.func(path, q)
        pn = U.params(f)
        elems, arr = pn[1], pn[2]
        loops = [l for l in ast.walk(f) if isinstance(l, ast.For)]
        ok = False
        why = 'no loop over enumerate(elements)'
        for l in loops:
            if isinstance(l.iter, ast.Call) and U.call_name(l.iter) == 'enumerate' and l.iter.args and isinstance(l.iter.args[0], ast.Name) and l.iter.args[0].id == elems \
                    and isinstance(l.target, ast.Tuple) and len(l.target.elts) == 2:
                i, e = l.target.elts[0].id, l.target.elts[1].id
                bad = []
                reads = 0
                for nn in ast.walk(l):
                    if isinstance(nn, ast.Subscript) and U.chain(nn.value) and U.chain(nn.value)[0] == 'self' and U.chain(nn.value)[-1] in ('leftBC', 'rightBC', 'leftBCtype', 'rightBCtype'):
                        reads += 1
                        if not (isinstance(nn.slice, ast.Name) and nn.slice.id == e):
                            bad.append(U.src(nn))
                    if isinstance(nn, ast.Subscript) and isinstance(nn.value, ast.Name) and nn.value.id == arr:
                        first = nn.slice.elts[0] if isinstance(nn.slice, ast.Tuple) else nn.slice
                        if not (isinstance(first, ast.Name) and first.id == i):
                            bad.append(U.src(nn))
                    if isinstance(nn, ast.Attribute) and U.chain(nn) and U.chain(nn)[-1] in ('values', 'items') and U.chain(nn)[1:2] and U.chain(nn)[1] in ('leftBC', 'rightBC', 'leftBCtype', 'rightBCtype'):
                        bad.append(U.src(nn))
                ok = reads >= 4 and not bad
                why = f'{bad[:2]}' if bad else f'{reads} dictionary reads'
        n += 1
        ctx.check(ok, 'R11.4', path, q, f, 'boundary conditions are looked up by element name and applied to the row of that element',
                  f'boundary conditions are not addressed by element name / row index of the same element ({why}): the result depends on the order in which conditions were set or elements are listed',
                  construct=f'{q}: for i, e in enumerate(elements)')
    ctx.floor('R11.4', n, 2)


def check(repo, ctx, index, purity):
    ctx.explanation = EXPLANATION
    ctx.assumptions += ['pycalphad returns component-indexed arrays in alphabetical order', 'numerical equality of paired runs is not decided']
    r111(repo, ctx)
    r112_r113(repo, ctx)
    r114(repo, ctx)
