"""C12 - driving force, phase boundary and critical radius agree (growth-law / critical-radius chain).

R12.1 growth law of the multicomponent model: growth = (mc / R) * (dG - gExtra)
R12.2 closing the chain (exact identity, sympy): with Rcrit = 2 f gamma / dG_v (nucleationBarrier), dG_v = dG_chem/Vm - E_el
      (volumetricDrivingForce), g(R) = Vm (E_el + 2 f gamma / R) (computeGibbsThomsonContribution) and dG := dG_v * Vm at the
      call site, the growth law must vanish at R = Rcrit and increase with R
R12.3 the binary lookup uses the same Gibbs-Thomson function for its interfacial-composition query (call-site agreement)
R12.4 quantity kinds: an aspect ratio is passed to description-level shape functions, a radius to ShapeFactor-level ones
R12.5 cached precipitate samples used by the sampling driving force are reused only at an equal temperature (C09 R9.4)
R12.7 a nucleation barrier computed in a step is recorded for that step on every path (frozen table of exits that leave the record at zero)
R12.6 interfacial compositions of an array of conditions: batched only for a uniform temperature, point results in input order (C09 R9.6)
"""
from __future__ import annotations
import ast
from .. import astutil as U
from ..formula import ToSympy, single_defs, inline
from ..source import AnalysisError, AnchorMissing
from . import C09
from . import kwn as K

NR = 'kawin/precipitation/NucleationRate.py'
PP = 'kawin/precipitation/PrecipitationParameters.py'
MT = 'kawin/thermo/MultiTherm.py'
EULER = 'kawin/precipitation/KWNEuler.py'
BASE = 'kawin/precipitation/KWNBase.py'

EXPLANATION = (
    'The binary clauses of the property compare two pycalphad equilibrium calculations and are not decided. Decided is the '
    'sentence "the critical radius used for nucleation is the radius at which growth changes sign" for the multicomponent '
    'growth law, as an exact identity between formulas extracted from five functions (atoms: chemical driving force, molar '
    'volume, elastic energy, shape factor, interfacial energy), plus the call-site agreement of the binary lookup, the '
    'kinds (radius / aspect ratio) of the arguments of the shape functions, and the temperature guard of the sample cache.')


def extract(repo):
    import sympy as sp
    chem, Vm, E, f, gam, R, mc = sp.symbols('dG_chem Vm E_el f gamma R mc', positive=True)
    out = {}
    # (b) volumetric driving force
    fn = repo.func(NR, 'volumetricDrivingForce')
    val = None
    for s in U.body_without_docstring(fn):
        if isinstance(s, ast.Assign) and isinstance(s.targets[0], ast.Name) and s.targets[0].id == 'volDGs':
            def atoms(e):
                if isinstance(e, ast.Name) and e.id == 'chemDGs':
                    return chem
                if U.chain(e) == ('precipitate', 'volume', 'Vm'):
                    return Vm
                return None
            val = ToSympy(atoms=atoms).tr(s.value)
        elif isinstance(s, ast.AugAssign) and isinstance(s.target, ast.Name) and s.target.id == 'volDGs':
            if not (isinstance(s.value, ast.Call) and (U.call_name(s.value) or '').endswith('strainEnergy.compute')):
                raise AnalysisError('volumetric driving force is modified by something other than the strain energy')
            val = val - E if isinstance(s.op, ast.Sub) else (val + E if isinstance(s.op, ast.Add) else None)
    if val is None:
        raise AnalysisError('volumetricDrivingForce: volDGs not found')
    rets = [r for r in ast.walk(fn) if isinstance(r, ast.Return)]
    if not (rets and isinstance(rets[0].value, ast.Tuple) and len(rets[0].value.elts) == 3 and 'volDGs' in U.src(rets[0].value.elts[1])):
        raise AnalysisError('volumetricDrivingForce does not return (chem, volumetric, composition)')
    out['volDG'] = (val, fn)
    # (c) Gibbs-Thomson
    fn = repo.func(PP, 'PrecipitateParameters.computeGibbsThomsonContribution')
    defs = single_defs(fn)
    rn = U.params(fn)[1]

    def atoms2(e):
        if U.chain(e) == ('self', 'volume', 'Vm'):
            return Vm
        if U.chain(e) == ('self', 'gamma'):
            return gam
        if isinstance(e, ast.Call) and U.call_name(e) == 'self.computeStrainEnergyFromR':
            return E
        if isinstance(e, ast.Call) and U.call_name(e) == 'self.shapeFactor.thermoFactor':
            return f
        return None
    rets = [r for r in ast.walk(fn) if isinstance(r, ast.Return)]
    out['gibbs'] = (ToSympy(atoms=atoms2, env={rn: R}).tr(inline(rets[0].value, defs)), fn)
    # (a) critical radius (bulk/dislocation branch)
    fn = repo.func(NR, 'nucleationBarrier')
    prop = None
    prop_e, prop_st, _has_min = K.bulk_rcrit_proposal(fn)
    if prop_e is not None:
        dGv = sp.Symbol('dG_v', positive=True)

        def atoms3(e):
            if isinstance(e, ast.Call) and (U.call_name(e) or '').endswith('thermoFactor'):
                return f
            if U.chain(e) == ('precipitate', 'gamma'):
                return gam
            if isinstance(e, ast.Subscript) and isinstance(e.value, ast.Name) and e.value.id == 'volumeDrivingForce':
                return dGv
            return None
        prop = (ToSympy(atoms=atoms3).tr(prop_e), dGv, prop_st)
    if prop is None:
        raise AnalysisError('nucleationBarrier: critical-radius proposal not found')
    out['Rcrit'] = prop
    # (d) growth law
    fn = repo.func(MT, '_growthRateOutputFromCurvature')
    defs = single_defs(fn)
    dG, gx = sp.symbols('dG gExtra')
    pn = U.params(fn)

    def atoms4(e):
        if U.chain(e) == ('curvature', 'mc'):
            return mc
        return None
    grdef = defs.get('gr')
    if grdef is None:
        raise AnalysisError('growth law: gr not found')
    out['growth'] = (ToSympy(atoms=atoms4, env={pn[1]: dG, pn[2]: R, pn[3]: gx}).tr(inline(grdef, {k: v for k, v in defs.items() if k != 'gr'})), (dG, gx), fn)
    out['syms'] = dict(chem=chem, Vm=Vm, E=E, f=f, gam=gam, R=R, mc=mc)
    return out


def r121_r122(repo, ctx):
    import sympy as sp
    try:
        ex = extract(repo)
    except AnalysisError as e:
        ctx.undecided('R12.2', NR, '', 0, f'formula chain could not be extracted: {e}')
        return
    S = ex['syms']
    chem, Vm, E, f, gam, R, mc = (S[k] for k in ('chem', 'Vm', 'E', 'f', 'gam', 'R', 'mc'))
    growth, (dG, gx), gfn = ex['growth']
    ok = sp.simplify(growth - (mc / R) * (dG - gx)) == 0
    ctx.check(ok, 'R12.1', MT, '_growthRateOutputFromCurvature', gfn, 'growth = (mc / R) * (dG - gExtra)', f'multicomponent growth law is {growth}, not (mc/R)*(dG - gExtra)', construct=f'gr = {growth}')
    volDG, vfn = ex['volDG']
    ctx.check(sp.simplify(volDG - (chem / Vm - E)) == 0, 'R12.2', NR, 'volumetricDrivingForce', vfn, 'volumetric driving force = dG_chem / Vm - E_el', f'volumetric driving force is {volDG}', construct=f'volDG = {volDG}')
    gibbs, cfn = ex['gibbs']
    ctx.check(sp.simplify(gibbs - Vm * (E + 2 * f * gam / R)) == 0, 'R12.2', PP, 'PrecipitateParameters.computeGibbsThomsonContribution', cfn, 'g(R) = Vm * (E_el + 2 f gamma / R)', f'Gibbs-Thomson contribution is {gibbs}', construct=f'g = {gibbs}')
    rc, dGv, rnode = ex['Rcrit']
    ctx.check(sp.simplify(rc - 2 * f * gam / dGv) == 0, 'R12.2', NR, 'nucleationBarrier', rnode, 'Rcrit = 2 f gamma / dG_v', f'critical radius proposal is {rc}', construct=f'Rcrit = {rc}')
    # call site: what is passed as dG and gExtra
    q = 'PrecipitateModel._singleGrowthMulti'
    fn = repo.func(EULER, q)
    calls = [c for c in U.calls(fn) if U.call_attr(c) == 'getGrowthAndInterfacialComposition']
    if len(calls) != 1 or len(calls[0].args) < 5:
        ctx.undecided('R12.2', EULER, q, fn, 'call of the growth routine not found')
        return
    c = calls[0]
    defs = single_defs(fn)
    dg_arg = inline(c.args[2], defs)
    ok_dg = False
    if isinstance(dg_arg, ast.BinOp) and isinstance(dg_arg.op, ast.Mult):
        sides = [dg_arg.left, dg_arg.right]
        df = [x for x in sides if U.chain(x) and U.chain(x)[:2] == ('Y', 'drivingForce')]
        vm = [x for x in sides if U.chain(x) == ('self', 'precipitateParameters', '[]', 'volume', 'Vm')]
        ok_dg = len(df) == 1 and len(vm) == 1
    ctx.check(ok_dg, 'R12.2', EULER, q, c, 'the growth law receives dG = (recorded volumetric driving force of the phase) * Vm of the same phase', f'the driving force passed to the growth law is not volumetric driving force * Vm: {U.src(dg_arg)}', construct=U.src(c.args[2]))
    gx_arg = inline(c.args[4], defs)
    ok_gx = isinstance(gx_arg, ast.Call) and U.call_name(gx_arg) == 'self.particleGibbs' and 'precipitateParameters[p].phase' in U.src(inline(gx_arg, defs))
    r_arg = inline(c.args[3], defs)
    ctx.check(ok_gx and U.chain(r_arg) == ('self', 'PBM', '[]', 'PSDbounds'), 'R12.2', EULER, q, c, 'the Gibbs-Thomson term is particleGibbs of the same phase on the size-class boundaries that are passed as radii',
              'the Gibbs-Thomson term passed to the growth law is not particleGibbs of the same phase on the radii passed', construct=U.src(gx_arg))
    pg = repo.func(BASE, 'PrecipitateBase.particleGibbs')
    ok = any(U.call_attr(cc) == 'computeGibbsThomsonContribution' for cc in U.calls(pg))
    ctx.check(ok, 'R12.2', BASE, 'PrecipitateBase.particleGibbs', pg, 'particleGibbs evaluates computeGibbsThomsonContribution of the phase', 'particleGibbs no longer evaluates computeGibbsThomsonContribution')
    nr = repo.func(BASE, 'PrecipitateBase._calcNucleationRate')
    ok = any(isinstance(s, ast.Assign) and isinstance(s.targets[0], ast.Tuple) and len(s.targets[0].elts) == 3 and U.call_name(s.value) == 'nucfuncs.volumetricDrivingForce' and isinstance(s.targets[0].elts[1], ast.Name) and
             any(isinstance(s2, ast.Assign) and U.chain(s2.targets[0]) == ('Y', 'drivingForce', '[]') and isinstance(s2.value, ast.Name) and s2.value.id == s.targets[0].elts[1].id for s2 in ast.walk(nr)) for s in ast.walk(nr))
    ctx.check(ok, 'R12.2', BASE, 'PrecipitateBase._calcNucleationRate', nr, 'the recorded driving force is the volumetric one returned by volumetricDrivingForce', 'the recorded driving force is not the volumetric driving force')
    # the identity
    Rc = rc.subs(dGv, volDG)
    dGval = volDG * Vm
    resid = sp.simplify((dGval - gibbs).subs(R, Rc))
    resid0 = sp.simplify(resid.subs(E, 0))
    ctx.check(resid0 == 0, 'R12.2', EULER, q, c, 'without elastic energy the growth law vanishes exactly at R = Rcrit', f'even without elastic energy the growth law does not vanish at Rcrit (residual {resid0})', construct='dG - g(Rcrit) with E_el = 0')
    ctx.check(resid == 0, 'R12.2', EULER, q, c, 'with elastic energy the growth law vanishes exactly at R = Rcrit',
              f'with a non-zero elastic energy the multicomponent growth law does not change sign at the critical radius: dG - g(Rcrit) = {resid} (the elastic term is subtracted in the volumetric driving force and again through the Gibbs-Thomson term)',
              construct='dG - g(Rcrit) with E_el free')
    mono = sp.simplify(sp.diff(dGval - gibbs, R))
    ctx.check(mono.is_positive is True, 'R12.2', EULER, q, c, f'd(dG - g)/dR = {mono} > 0: classes above the root grow, below shrink', f'd(dG - g)/dR = {mono} is not positive', construct='monotonicity in R')


def r123(repo, ctx):
    n = 0
    for q in ('PrecipitateModel._createLookupBinary', 'PrecipitateModel._updateParticleSizeDistribution'):
        fn = repo.func(EULER, q)
        for c in U.calls(fn):
            if U.call_attr(c) == 'getInterfacialComposition' and len(c.args) >= 2 and not U.is_const(c.args[1]):
                n += 1
                g = c.args[1]
                ok = isinstance(g, ast.Call) and U.call_name(g) == 'self.particleGibbs' and len(g.args) == 2 and 'PSDbounds' in U.src(g.args[0]) and U.src(g.args[1]).endswith('.phase')
                kw = U.kwarg(c, 'precPhase')
                ok = ok and kw is not None and U.src(kw) == U.src(g.args[1])
                ctx.check(ok, 'R12.3', EULER, q, c, 'the interfacial-composition lookup uses particleGibbs of the same phase on the size-class boundaries', 'the binary lookup does not use particleGibbs of the same phase for its Gibbs-Thomson energies', construct=U.src(c)[:120])
    ctx.floor('R12.3', n, 2)


def r124(repo, ctx):
    FUNCS = {'thermoFactor', 'kineticFactor', 'eqRadiusFactor', 'normalRadii'}
    n = 0
    for path in (NR, PP, EULER, BASE):
        for q, fn in repo.functions(path):
            ar_names = {p for p in U.params(fn) if p.lower() in ('aspectratio', 'ar')}
            rad_names = {p for p in U.params(fn) if p in ('r', 'R', 'radius', 'Rcrit', 'RcritSphere')}
            for s in ast.walk(fn):
                if isinstance(s, ast.Assign) and isinstance(s.targets[0], ast.Name) and isinstance(s.value, ast.Call) and U.call_attr(s.value) == 'aspectRatio':
                    ar_names.add(s.targets[0].id)
            for c in U.calls(fn):
                if U.call_attr(c) in FUNCS and isinstance(c.func, ast.Attribute) and c.args and isinstance(c.args[0], ast.Name):
                    recv = U.chain(c.func.value)
                    if not recv or 'shapeFactor' not in recv:
                        continue
                    level = 'description' if recv[-1] == 'description' else 'shapeFactor'
                    a = c.args[0].id
                    if a in ar_names or a in rad_names:
                        n += 1
                        good = (a in ar_names and level == 'description') or (a in rad_names and level == 'shapeFactor')
                        ctx.check(good, 'R12.4', path, q, c, f'{a} ({"aspect ratio" if a in ar_names else "radius"}) is passed to the {level}-level {U.call_attr(c)}',
                                  f'{a} is {"an aspect ratio" if a in ar_names else "a radius"} but {U.call_attr(c)} of the {level} level expects {"a radius" if level == "shapeFactor" else "an aspect ratio"}: '
                                  'for a size-dependent aspect ratio the factor is evaluated at the wrong point and the critical radius is no longer the root of the growth law', construct=U.src(c))
    ctx.floor('R12.4', n, 3)


# exits of the nucleation loop that may leave a computed barrier unrecorded (record stays at the zero written at the top of the
# iteration) - confirmed by reading PrecipitateBase._calcNucleationRate; one line of reason each
UNRECORDED_EXITS = {
    'beta == 0': 'no atomic attachment is possible (a component with zero diffusivity / mobility): no nucleation, the whole record of the phase stays zero',
}


def r127(repo, ctx):
    """the critical radius / barrier computed from the driving force of a step is the one recorded for that step: on every path
    through the phase loop that computes the barrier, Y.Rcrit and Y.Gcrit are stored from it before the iteration ends, except
    through the exits listed in UNRECORDED_EXITS"""
    from .. import cfg as C
    q = f'{K.PBASE}._calcNucleationRate'
    f = repo.func(K.BASE, q)
    loops = K.phase_loops(f)
    if len(loops) != 1:
        ctx.undecided('R12.7', K.BASE, q, f, 'phase loop not found')
        return
    loop = loops[0]
    g = C.build(loop.body, region=True)

    def norm(t):
        # beta == 0 / 0 == beta / beta == 0.0 / not beta  ->  'beta == 0'
        # (canonical text, polarity flipped)
        if isinstance(t, ast.Compare) and len(t.ops) == 1 and isinstance(t.ops[0], (ast.Eq, ast.NotEq)):
            for a_, b_ in ((t.left, t.comparators[0]), (t.comparators[0], t.left)):
                if isinstance(a_, ast.Name) and isinstance(b_, ast.Constant) and isinstance(b_.value, (int, float)) and not isinstance(b_.value, bool) and b_.value == 0:
                    return f'{a_.id} == 0', isinstance(t.ops[0], ast.NotEq)
        if isinstance(t, ast.UnaryOp) and isinstance(t.op, ast.Not):
            txt, fl = norm(t.operand)
            return txt, not fl
        if isinstance(t, ast.Name):
            return f'{t.id} == 0', True
        return U.src(t).replace('(', '').replace(')', '').strip(), False

    def tr(node, st, label):
        computed, stored, exits_ = st
        a = node.ast
        eff = C.simple_effect_node(node)
        if node.kind == 'stmt' and eff is not None:
            if any(U.call_attr(c) == 'nucleationBarrier' for c in U.calls(eff)):
                computed = True
            if isinstance(a, ast.Assign):
                for t in U.flat_targets(a):
                    c = U.chain(t)
                    if c and c[:2] in (('Y', 'Rcrit'), ('Y', 'Gcrit')) and not U.is_const(a.value):
                        stored = stored | {c[1]}
        if node.kind == 'test' and label in (True, False) and computed:
            t = a.test if hasattr(a, 'test') else a
            txt, fl = norm(t)
            exits_ = exits_ | {(txt, (not label) if fl else label)}
        return (computed, stored, exits_)
    at, exits = C.collect(g, (False, frozenset(), frozenset()), tr)
    bad = []
    npaths = 0
    for lab, sts in exits.items():
        for computed, stored, conds in sts:
            npaths += 1
            if not computed or {'Rcrit', 'Gcrit'} <= stored:
                continue
            if any(lbl is True and txt in UNRECORDED_EXITS for txt, lbl in conds):
                continue
            taken = [f'{txt} is {lbl}' for txt, lbl in sorted(conds, key=str)]
            bad.append((lab, taken))
    ctx.analysed['paths'] += npaths
    ctx.check(not bad, 'R12.7', K.BASE, q, loop, f'on all {npaths} path classes of the phase loop a computed nucleation barrier is recorded (Y.Rcrit, Y.Gcrit), except through the listed exit {sorted(UNRECORDED_EXITS)}',
              (f'a path leaves the iteration by "{bad[0][0]}" after the barrier was computed without recording Rcrit/Gcrit (tests taken: {"; ".join(bad[0][1][-3:])}): the record keeps the zero written at the top '
               'of the iteration although the driving force is positive, so the recorded critical radius no longer follows from the recorded driving force') if bad else '',
              construct='_calcNucleationRate: barrier recorded on every path')


def check(repo, ctx, index, purity):
    ctx.explanation = EXPLANATION
    ctx.assumptions += ['the shape factor f is treated as a constant in the identity (size-dependent aspect ratios are numeric)', 'all clauses comparing two equilibrium calculations are not decided']
    r121_r122(repo, ctx)
    r123(repo, ctx)
    r124(repo, ctx)
    r127(repo, ctx)
    sub = type(ctx)(ctx.prop, ctx.repo, ctx.tier, ctx.seed)
    C09.r94(repo, sub)
    for fnd in sub.findings:
        if 'sample' in fnd.what:
            fnd.rule = 'R12.5/' + fnd.rule
            ctx.findings.append(fnd)
    # R12.6: the phase boundary returned for the i-th (T, gExtra) pair is the one computed for that pair (C09 R9.6)
    sub = type(ctx)(ctx.prop, ctx.repo, ctx.tier, ctx.seed)
    C09.r96(repo, sub)
    for fnd in sub.findings:
        fnd.rule = 'R12.6/' + fnd.rule
        ctx.findings.append(fnd)
