"""C13 - temperature schedules are followed faithfully.

R13.1 constructor == setter: symbolic execution of TemperatureParameters.__init__ and of the setter on the same
      argument shapes must give the same isothermal flag / parameters; no default is written after a delegated setter
R13.2 flag table of the three setters; the nucleation routine selects the incubation model on that flag
R13.3 refresh pairing in the binary growth rate: accumulate |dT| -> (rebuild <=> reset) on every path, rebuild at the current T
R13.4 every stored temperature is temperatureParameters(<the time stored in the same record>)
R13.5 both TemperatureParameters classes interpolate t/3600 between (times, temps) with the end values as fill
"""
from __future__ import annotations
import ast
from .. import astutil as U
from .. import cfg as C
from ..symfield import SymExec, const, NONE, show
from ..source import AnalysisError, AnchorMissing
from .kwn import EULER, BASE, PP, MODEL, PBASE

DP = 'kawin/diffusion/DiffusionParameters.py'
TP = 'TemperatureParameters'

EXPLANATION = (
    'Constructor/setter equivalence is decided by symbolic execution of both on the same argument shapes (path by path the '
    'final isothermal flag and stored parameters must agree). The refresh rule of the binary lookup table is decided as a '
    'typestate over all paths of _growthRateBinary: the accumulated temperature change is incremented before the test, and '
    'on every path the table is rebuilt if and only if the accumulator is reset, with the current temperature. Every store '
    'to a temperature slot is the schedule evaluated at the time stored in the same record. How close tabulated compositions '
    'are to an independent evaluation is numeric and not decided.')


def after_delegation(outs, methods):
    """[(setter, field)] where __init__ writes `field` at top level after a top-level call of a method that wrote it"""
    bad = []
    for o in outs:
        depth = 0
        cur = None
        written_by = {}
        for e in o.events:
            if e[0] == 'call' and len(e) == 2 and e[1] in methods:
                if depth == 0:
                    cur = e[1]
                depth += 1
            elif e[0] == 'ret' and e[1] in methods:
                depth = max(0, depth - 1)
                if depth == 0:
                    cur = None
            elif e[0] == 'write':
                if depth > 0 and cur and not cur.startswith('_'):
                    written_by.setdefault(e[1], cur)
                elif depth == 0 and e[1] in written_by:
                    bad.append((written_by[e[1]], e[1], o.conds))
    return bad


def r131_r132(repo, ctx, index):
    n = 0
    for path in (PP, DP):
        key = (path, TP)
        sx = SymExec(repo, index, key)
        init = repo.func(path, f'{TP}.__init__')
        outs_i = [o for o in sx.run(init) if o.status != 'raise']
        ctx.analysed['paths'] += len(outs_i)
        bad = after_delegation(outs_i, set(index.methods(key)))
        n += 1
        ctx.check(not bad, 'R13.1', path, f'{TP}.__init__', init, 'no field set by a delegated public setter is overwritten afterwards by the constructor',
                  f'the constructor overwrites {sorted({b[1] for b in bad})} after delegating to {sorted({b[0] for b in bad})}: a schedule given to the constructor is treated differently from the same schedule given to the setter',
                  construct=f'{path}::{TP}.__init__')
        # equivalence with the setter, path by path (precipitation class has the dispatching setter)
        if repo.has_func(path, f'{TP}.setTemperatureParameters'):
            setter = repo.func(path, f'{TP}.setTemperatureParameters')
            outs_s = [o for o in sx.run(setter, fields={'_isIsothermal': const(True)}) if o.status != 'raise']
            by_conds = {tuple(c for c in o.conds): o for o in outs_s}
            mism = []
            for oi in outs_i:
                os_ = by_conds.get(tuple(oi.conds))
                if os_ is None:
                    continue
                for fld in ('_isIsothermal', 'Tparameters', 'Tfunction'):
                    a, b = oi.fields.get(fld), os_.fields.get(fld)
                    if a != b:
                        mism.append((fld, show(a) if a else None, show(b) if b else None, oi.conds))
            ctx.check(not mism and len(by_conds) >= 3, 'R13.1', path, f'{TP}.__init__', init,
                      f'on each of the {len(by_conds)} argument shapes the constructor leaves the same isothermal flag, parameters and function as the setter',
                      f'constructor and setter disagree: {[(m[0], m[1], m[2]) for m in mism[:2]]} for {[c[1] for c in (mism[0][3] if mism else ())]}',
                      construct=f'{TP}: __init__ vs setTemperatureParameters')
    # flag table
    key = (PP, TP)
    sx = SymExec(repo, index, key)
    table = {'setIsothermalTemperature': True, 'setTemperatureArray': False, 'setTemperatureFunction': False}
    for m, want in table.items():
        f = repo.func(PP, f'{TP}.{m}')
        outs = [o for o in sx.run(f) if o.status != 'raise']
        ok = bool(outs) and all(o.fields.get('_isIsothermal') == const(want) for o in outs)
        ctx.check(ok, 'R13.2', PP, f'{TP}.{m}', f, f'{m} sets the isothermal flag to {want} on every path',
                  f'{m} does not set the isothermal flag to {want} on every path: incubation is computed with the wrong (non-)isothermal model', construct=f'{m}: _isIsothermal')
        n += 1
    ctx.floor('R13.1', n, 4)
    f = repo.func(BASE, f'{PBASE}._calcNucleationRate')
    def flag_test(t_):
        neg = False
        while isinstance(t_, ast.UnaryOp) and isinstance(t_.op, ast.Not):
            t_, neg = t_.operand, not neg
        if isinstance(t_, ast.Compare) and len(t_.ops) == 1 and isinstance(t_.comparators[0], ast.Constant) and isinstance(t_.comparators[0].value, bool):
            if isinstance(t_.ops[0], (ast.Is, ast.Eq)):
                neg ^= (t_.comparators[0].value is False)
            elif isinstance(t_.ops[0], (ast.IsNot, ast.NotEq)):
                neg ^= (t_.comparators[0].value is True)
            else:
                return None
            t_ = t_.left
        return neg if U.chain(t_) == ('self', 'temperatureParameters', '_isIsothermal') else None
    sel = [s for s in ast.walk(f) if isinstance(s, (ast.If, ast.IfExp)) and flag_test(s.test) is not None]
    ok = False
    for s in sel:
        body = s.body if isinstance(s, ast.If) else [s.body]
        orelse = s.orelse if isinstance(s, ast.If) else [s.orelse]
        if flag_test(s.test):
            body, orelse = orelse, body
        t = [U.call_attr(c) for st in body for c in U.calls(st)]
        e = [U.call_attr(c) for st in orelse for c in U.calls(st)]
        if 'incubationTime' in t and 'incubationTimeNonIsothermal' in e:
            ok = True
    ctx.check(ok, 'R13.2', BASE, f'{PBASE}._calcNucleationRate', sel[0] if sel else f, 'isothermal flag selects incubationTime, otherwise incubationTimeNonIsothermal',
              'the incubation model is not selected on the isothermal flag of the temperature parameters')


def r133(repo, ctx):
    q = f'{MODEL}._growthRateBinary'
    f = repo.func(EULER, q)
    # role A: the field compared with constraints.maxTempChange
    A = None
    test = None
    negated = False
    cmp_ = None
    for s in ast.walk(f):
        if not isinstance(s, ast.If):
            continue
        t_, neg_ = s.test, False
        while isinstance(t_, ast.UnaryOp) and isinstance(t_.op, ast.Not):
            t_, neg_ = t_.operand, not neg_
        if isinstance(t_, ast.Compare) and len(t_.ops) == 1 and U.chain(t_.comparators[0]) == ('self', 'constraints', 'maxTempChange'):
            for n_ in ast.walk(t_.left):
                c = U.chain(n_) if isinstance(n_, ast.Attribute) else None
                if c and c[0] == 'self' and len(c) == 2:
                    A = c[1]
            test, cmp_, negated = s, t_, neg_
    if A is None:
        ctx.violation('R13.3', EULER, q, f, 'no test of an accumulated temperature change against constraints.maxTempChange: the lookup table is never refreshed',
                      construct='_growthRateBinary: refresh test')
        return
    ok_t = isinstance(cmp_.ops[0], (ast.Gt, ast.GtE)) and isinstance(cmp_.left, ast.Call) and U.call_name(cmp_.left) in ('np.abs', 'abs', 'np.absolute')
    ctx.check(ok_t, 'R13.3', EULER, q, test, f'refresh test is |self.{A}| > maxTempChange (heating and cooling)', f'refresh test is not on the absolute accumulated change: {U.src(test.test)}')
    # T: local assigned from Y.temperature[0]
    Tn = None
    for s in ast.walk(f):
        if isinstance(s, ast.Assign) and isinstance(s.targets[0], ast.Name) and U.chain(s.value) == ('Y', 'temperature', '[]'):
            Tn = s.targets[0].id
    g = C.build(f)

    def classify(node):
        a = node.ast
        ev = []
        if node.kind == 'stmt' and isinstance(a, ast.AugAssign) and U.chain(a.target) == ('self', A) and isinstance(a.op, ast.Add):
            v = a.value
            good = isinstance(v, ast.BinOp) and isinstance(v.op, ast.Sub) and ((isinstance(v.left, ast.Name) and v.left.id == Tn) or U.chain(v.left) == ('Y', 'temperature', '[]')) \
                and U.chain(v.right) == ('self', 'pData', 'temperature', '[]')
            ev.append('inc' if good else 'badinc')
        if node.kind == 'stmt' and isinstance(a, ast.Assign) and any(U.chain(t) == ('self', A) for t in a.targets):
            v = a.value
            if isinstance(v, ast.BinOp) and isinstance(v.op, ast.Add) and any(U.chain(x) == ('self', A) for x in (v.left, v.right)):
                # self.A = self.A + (T - T_last): the accumulation written as a plain assignment
                d = v.right if U.chain(v.left) == ('self', A) else v.left
                good = isinstance(d, ast.BinOp) and isinstance(d.op, ast.Sub) and ((isinstance(d.left, ast.Name) and d.left.id == Tn) or U.chain(d.left) == ('Y', 'temperature', '[]')) \
                    and U.chain(d.right) == ('self', 'pData', 'temperature', '[]')
                ev.append('inc' if good else 'badinc')
            else:
                ev.append('reset' if U.is_const(a.value, 0) else 'badreset')
        if node.kind == 'stmt':
            for c in U.calls(a):
                if U.call_name(c) == 'self._createLookupBinary':
                    okarg = len(c.args) == 1 and ((isinstance(c.args[0], ast.Name) and c.args[0].id == Tn) or U.chain(c.args[0]) == ('Y', 'temperature', '[]'))
                    ev.append('build' if okarg else 'badbuild')
        if node.kind == 'test' and node.ast is test:
            ev.append('test')
        return ev

    def tr(node, st, label):
        st = set(st)
        for e in classify(node):
            if e == 'test':
                st.add('test-after-inc' if 'inc' in st else 'test-before-inc')
                if label in (True, False):
                    st.add('exceeds' if (label is True) != negated else 'within')
            else:
                st.add(e)
        return frozenset(st)
    at, exits = C.collect(g, frozenset(), tr)
    # a path that leaves through `raise` (argument validation, a failed backend call) installs nothing: only completed calls count
    states = [s for k_, v in exits.items() if k_ != 'raise' for s in v]
    ctx.analysed['paths'] += len(states)
    problems = set()
    for s in states:
        if 'test-before-inc' in s or 'inc' not in s:
            problems.add('the temperature change is not accumulated before the refresh test on every path')
        if 'badinc' in s:
            problems.add('the accumulated change is not incremented by (current T - last recorded T)')
        if ('build' in s) != ('reset' in s):
            problems.add('rebuild without reset' if 'build' in s else 'the accumulator is reset on a path that does not rebuild the table (a slow ramp never refreshes it)')
        if 'badbuild' in s:
            problems.add('the table is rebuilt at a temperature other than the current one')
        if 'build' in s and 'within' in s:
            problems.add('the table is rebuilt on the branch where the accumulated change is within the limit (and kept where it exceeds it)')
        if 'exceeds' in s and 'build' not in s:
            problems.add('the accumulated change exceeds the limit on a path that does not rebuild the table')
        if 'badreset' in s:
            problems.add('the accumulator is overwritten with something other than 0')
    if not any('build' in s for s in states):
        problems.add('no path rebuilds the lookup table')
    ctx.check(not problems, 'R13.3', EULER, q, test, f'on all {len(states)} path classes: self.{A} += T - T_last before the test; table rebuilt at the current T <=> self.{A} reset to 0',
              'refresh pairing broken: ' + '; '.join(sorted(problems)), construct=f'_growthRateBinary: accumulate/test/rebuild/reset of self.{A}')
    # ownership of the reset: wherever else the accumulator is zeroed, the full table rebuild happens on the same path
    for path_, cls_ in ((EULER, MODEL), (BASE, PBASE)):
        for qq, ff in repo.functions(path_):
            if not qq.startswith(cls_ + '.') or qq == q or qq.endswith(('.__init__', '.reset')):
                continue
            if not any(isinstance(s_, ast.Assign) and any(U.chain(t_) == ('self', A) for t_ in s_.targets) for s_ in ast.walk(ff)):
                continue
            g2 = C.build(ff)

            def tr2(node, st, label):
                st = set(st)
                a = node.ast
                if node.kind == 'stmt' and isinstance(a, ast.Assign) and any(U.chain(t_) == ('self', A) for t_ in a.targets):
                    st.add('reset')
                if node.kind == 'stmt' and any(U.call_name(c_) == 'self._createLookupBinary' for c_ in U.calls(a)):
                    st.add('build')
                return frozenset(st)
            at2, ex2 = C.collect(g2, frozenset(), tr2)
            bad = [s_ for v_ in ex2.values() for s_ in v_ if 'reset' in s_ and 'build' not in s_]
            ctx.check(not bad, 'R13.3', path_, qq, ff, f'self.{A} is zeroed only on paths that rebuild the whole lookup table',
                      f'self.{A} is zeroed on a path that does not rebuild the whole lookup table: entries computed at an older temperature stay in use while the drift counter restarts',
                      construct=f'{qq}: reset of self.{A}')
    # the accumulator is reset with the model
    for path, qq in ((BASE, f'{PBASE}.reset'), (BASE, f'{PBASE}.__init__')):
        ff = repo.func(path, qq)
        ok = any(isinstance(s, ast.Assign) and any(U.chain(t) == ('self', A) for t in s.targets) and U.is_const(s.value, 0) for s in ast.walk(ff))
        ctx.check(ok, 'R13.3', path, qq, ff, f'self.{A} starts at 0', f'self.{A} is not initialised to 0 in {qq}')


def r134(repo, ctx):
    n = 0
    for path, cls in ((BASE, PBASE), (EULER, MODEL)):
        for q, f in repo.functions(path):
            if not q.startswith(cls + '.'):
                continue
            for s in U.walk_no_nested(f):
                if not isinstance(s, ast.Assign):
                    continue
                for t in s.targets:
                    c = U.chain(t)
                    if not c or 'temperature' not in c or c[-1] not in ('temperature', '[]') or (c[-1] == '[]' and c[-2] != 'temperature'):
                        continue
                    if 'temperatureParameters' in c:
                        continue
                    obj = c[:c.index('temperature')]
                    n += 1
                    # value: self.temperatureParameters(tau) possibly wrapped in np.array([..])
                    v = s.value
                    if isinstance(v, ast.Call) and U.call_name(v) == 'np.array' and v.args and isinstance(v.args[0], ast.List) and len(v.args[0].elts) == 1:
                        v = v.args[0].elts[0]
                    ok = isinstance(v, ast.Call) and U.call_name(v) == 'self.temperatureParameters' and len(v.args) == 1
                    tau_ok = False
                    if ok:
                        tau = v.args[0]
                        ct = U.chain(tau)
                        # tau is <obj>.time[...]  or the value assigned to <obj>.time in the same function
                        if ct and ct[:len(obj)] == obj and 'time' in ct:
                            tau_ok = True
                        else:
                            for s2 in U.walk_no_nested(f):
                                if isinstance(s2, ast.Assign) and any(U.chain(t2) and U.chain(t2)[:len(obj)] == obj and U.chain(t2)[len(obj):len(obj) + 1] == ('time',) for t2 in s2.targets):
                                    v2 = s2.value
                                    if isinstance(v2, ast.Call) and U.call_name(v2) == 'np.array' and v2.args and isinstance(v2.args[0], ast.List) and len(v2.args[0].elts) == 1:
                                        v2 = v2.args[0].elts[0]
                                    if U.same(v2, tau):
                                        tau_ok = True
                    ctx.check(ok and tau_ok, 'R13.4', path, q, s, f'temperature of {".".join(obj)} = schedule evaluated at the time stored in the same record',
                              f'temperature of {".".join(obj)} is not the schedule evaluated at the time stored in the same record', construct=U.src(s))
    ctx.floor('R13.4', n, 3)
    # pairing: on every path on which the time of a record is (re)written, its temperature is rewritten as well
    npair = 0
    for path, cls in ((BASE, PBASE), (EULER, MODEL)):
        for q, f in repo.functions(path):
            if not q.startswith(cls + '.'):
                continue
            def slot(node, name):
                a = node.ast
                out = set()
                if node.kind == 'stmt' and isinstance(a, ast.Assign):
                    for t in a.targets:
                        c = U.chain(t)
                        if c and name in c and 'temperatureParameters' not in c:
                            i = c.index(name)
                            if c[i + 1:] in ((), ('[]',)) and i >= 1 and c[:i] in (('Y',), ('self', '_currY'), ('self', 'pData')):
                                out.add(c[:i])
                return out
            if not any(slot(type('N', (), {'ast': s_, 'kind': 'stmt'})(), 'time') for s_ in U.walk_no_nested(f) if isinstance(s_, ast.Assign)):
                continue
            g = C.build(f)

            def tr(node, st, label):
                st = set(st)
                for o in slot(node, 'time'):
                    st.add(('time', o))
                for o in slot(node, 'temperature'):
                    st.add(('temperature', o))
                return frozenset(st)
            at, exits = C.collect(g, frozenset(), tr)
            bad = []
            for lab, sts in exits.items():
                for st in sts:
                    for kind, o in st:
                        if kind == 'time' and ('temperature', o) not in st:
                            bad.append(o)
            npair += 1
            ctx.check(not bad, 'R13.4', path, q, f, 'on every path that stores the time of a record, its temperature is stored as well',
                      f'a path stores the time of {[".".join(b) for b in bad][:1]} but not its temperature: the record keeps the temperature of an earlier step (e.g. after the schedule was changed between solve calls)',
                      construct=f'{q}: time => temperature')
    ctx.floor('R13.4/pair', npair, 2)


def r135(repo, ctx):
    n = 0
    for path in (PP, DP):
        f = repo.func(path, f'{TP}.setTemperatureArray')
        lam = [x for x in ast.walk(f) if isinstance(x, ast.Lambda)]
        ok = False
        why = 'no interpolation lambda'
        for l in lam:
            if not l.args.args:
                continue
            tparam = l.args.args[-1].arg
            for c in U.calls(l.body):
                if U.call_name(c) == 'np.interp' and len(c.args) >= 3:
                    a0 = c.args[0]
                    t_ok = isinstance(a0, ast.BinOp) and isinstance(a0.op, ast.Div) and isinstance(a0.left, ast.Name) and a0.left.id == tparam and U.is_const(a0.right, 3600)
                    xs, ys = U.src(c.args[1]), U.src(c.args[2])
                    p_ok = xs == 'self.Tparameters[0]' and ys == 'self.Tparameters[1]'
                    left = c.args[3] if len(c.args) > 3 else U.kwarg(c, 'left')
                    right = c.args[4] if len(c.args) > 4 else U.kwarg(c, 'right')
                    fill_ok = (left is None or U.src(left) == 'self.Tparameters[1][0]') and (right is None or U.src(right) == 'self.Tparameters[1][-1]')
                    ok = t_ok and p_ok and fill_ok
                    why = f't/3600: {t_ok}, (times, temps): {p_ok}, end fill: {fill_ok}'
        store = any(isinstance(s, ast.Assign) and U.chain(s.targets[0]) == ('self', 'Tparameters') and isinstance(s.value, ast.Tuple) and [U.src(e) for e in s.value.elts] == U.params(f)[1:3] for s in ast.walk(f))
        n += 1
        ctx.check(ok and store, 'R13.5', path, f'{TP}.setTemperatureArray', f, 'schedule = interp(t/3600; times, temperatures) with the end values outside the range',
                  f'break-point schedule is not interp(t/3600; times, temperatures) with end-value fill ({why})', construct=f'{path}: interpolation lambda')
        for m, want in (('setIsothermalTemperature', 'self.Tparameters'), ('setTemperatureFunction', None)):
            ff = repo.func(path, f'{TP}.{m}')
            p1 = U.params(ff)[1]
            st = any(isinstance(s, ast.Assign) and U.chain(s.targets[0]) == ('self', 'Tparameters') and isinstance(s.value, ast.Name) and s.value.id == p1 for s in ast.walk(ff))
            fn_ok = False
            for s in ast.walk(ff):
                if isinstance(s, ast.Assign) and U.chain(s.targets[0]) == ('self', 'Tfunction'):
                    v = s.value
                    if isinstance(v, ast.Name) and v.id == p1:
                        fn_ok = True
                    if isinstance(v, ast.Lambda) and 'self.Tparameters' in U.src(v.body):
                        fn_ok = True
            n += 1
            ctx.check(st and fn_ok, 'R13.5', path, f'{TP}.{m}', ff, f'{m} stores its argument and evaluates the schedule from it', f'{m} does not evaluate the schedule from its argument')
        call = repo.func(path, f'{TP}.__call__')
        rets = [r for r in ast.walk(call) if isinstance(r, ast.Return)]
        ok = len(rets) == 1 and isinstance(rets[0].value, ast.Call) and U.call_name(rets[0].value) == 'self.Tfunction' and [U.src(a) for a in rets[0].value.args] == U.params(call)[1:]
        ctx.check(ok, 'R13.5', path, f'{TP}.__call__', call, 'calling the parameter object evaluates the stored schedule at the given arguments', '__call__ does not evaluate the stored schedule at its arguments')
    ctx.floor('R13.5', n, 6)


def check(repo, ctx, index, purity):
    ctx.explanation = EXPLANATION
    ctx.assumptions += ['closeness of tabulated compositions to an independent evaluation is not decided', 'the re-mesh path (rebuild without touching the accumulator) is outside R13.3']
    r131_r132(repo, ctx, index)
    r133(repo, ctx)
    r134(repo, ctx)
    r135(repo, ctx)
