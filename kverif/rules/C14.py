"""C14 - nucleation quantities obey classical nucleation theory for every site type.

R14.9 the validator of the energy ratio rejects every ratio on which the factor evaluator leaves its sentinel (one-sided comparison agreement)
R14.8 a moment of phase j's distribution is taken on the population balance of phase j (index agreement of self.PBM[i].*FromN(x[j]))
R14.7 boundary-site barrier at a clamped radius agrees with the bulk branch (sibling agreement, sympy)
R14.1 T-FRESH on NucleationBarrierParameters (lazy caches discovered from the code follow gamma, gbEnergy, site type)
R14.2 zero-rate completeness of the per-phase record (= C02 R2.4)
R14.3 available sites returned through max(.,0); occupied sites summed over all phases of the same site type
R14.4 zero-initialised, mask-guarded outputs of the nucleation-rate functions; strict positivity test on the driving force
R14.5 exact identities (sympy normal forms on formulas extracted from the source):
      area - 2k*removed - 3*volume == 0 for every site type; k=0 limits 4*pi and 4*pi/3;
      Rcrit == 2*gamma/dG and Gcrit(Rcrit) == spherical barrier * volume/(4*pi/3) under that identity
"""
from __future__ import annotations
import ast
from .. import astutil as U
from .. import fresh
from ..formula import ToSympy, single_defs, inline
from ..source import AnalysisError, AnchorMissing
from .kwn import EULER, BASE, NR, MODEL
from . import kwn as K
from . import C02

NUC = 'kawin/precipitation/parameters/Nucleation.py'
NBP = (NUC, 'NucleationBarrierParameters')
SITE_CLASSES = ['BulkDescription', 'GrainBoundaryDescription', 'GrainEdgeDescription', 'GrainCornerDescription']

EXPLANATION = (
    'Cache freshness is decided by symbolic execution of every method of NucleationBarrierParameters: on every path that '
    'writes gamma, gbEnergy or the site description, every lazily cached factor that (transitively) reads it is None on exit. '
    'The geometric identities are decided exactly: the return expressions of _areaFactor/_gbRemoval/_volumeFactor (helper '
    'angles inlined) are translated to sympy with literals as rationals and area - 2k*removed - 3*volume is reduced to 0, the '
    'k=0 values to 4*pi and 4*pi/3; with the identity the extracted Rcrit/Gcrit formulas reduce to the spherical ones times '
    'volume/(4*pi/3). Zero rate for non-positive driving force is decided by mask structure. Finiteness, monotonicity in dG '
    'and k and the incubation factor range are numeric and not decided.')


def site_formula(repo, cls, meth, tr, k):
    """sympy expression of <cls>.<meth>(gbk) with helper methods inlined"""
    f = _lookup(repo, cls, meth)
    defs = single_defs(f)
    pn = U.params(f)
    ret = [r for r in ast.walk(f) if isinstance(r, ast.Return)]
    if len(ret) != 1:
        raise AnalysisError(f'{cls}.{meth}: expected one return')
    expr = inline(ret[0].value, defs)
    return _tr_with_helpers(repo, cls, expr, {pn[1]: k}, tr)


def _lookup(repo, cls, meth):
    c = repo.cls(NUC, cls)
    for b in [c] + [repo.cls(NUC, bn.id) for bn in c.bases if isinstance(bn, ast.Name) and repo.has_cls(NUC, bn.id)]:
        for m in b.body:
            if isinstance(m, ast.FunctionDef) and m.name == meth:
                return m
    raise AnchorMissing(f'{cls}.{meth} not found')


def _tr_with_helpers(repo, cls, expr, env, tr, depth=0):
    import sympy as sp

    def atoms(e):
        if isinstance(e, ast.Call):
            nm = U.call_name(e) or ''
            if nm.startswith('self.') and depth < 4:
                m = _lookup(repo, cls, nm.split('.')[1])
                mdefs = single_defs(m)
                rets = [r for r in ast.walk(m) if isinstance(r, ast.Return)]
                if len(rets) != 1:
                    raise AnalysisError(f'{cls}.{nm}: expected one return')
                args = [_tr_with_helpers(repo, cls, a, env, tr, depth + 1) for a in e.args]
                penv = dict(zip(U.params(m)[1:], args))
                return _tr_with_helpers(repo, cls, inline(rets[0].value, mdefs), penv, tr, depth + 1)
            if nm in ('np.ones', 'np.ones_like'):
                return sp.Integer(1)
            if nm in ('np.zeros', 'np.zeros_like'):
                return sp.Integer(0)
        return None
    t = ToSympy(atoms=atoms, env=env)
    return t.tr(expr)


def r145(repo, ctx):
    import sympy as sp
    k = sp.Symbol('k', positive=True)
    n = 0
    for cls in SITE_CLASSES:
        try:
            a = site_formula(repo, cls, '_areaFactor', None, k)
            b = site_formula(repo, cls, '_gbRemoval', None, k)
            c = site_formula(repo, cls, '_volumeFactor', None, k)
        except AnalysisError as e:
            ctx.undecided('R14.5', NUC, cls, 0, f'formula extraction failed: {e}')
            continue
        n += 1
        ident = sp.simplify(sp.expand(a - 2 * k * b - 3 * c))
        f_ = _lookup(repo, cls, '_volumeFactor')
        ctx.check(ident == 0, 'R14.5', NUC, f'{cls}', f_, 'area factor - 2k * removed-boundary factor - 3 * volume factor == 0 identically in k',
                  f'area - 2k*removed - 3*volume does not vanish identically (remainder {str(ident)[:80]}): the critical radius is no longer that of a sphere',
                  construct=f'{cls}: area - 2k*removed - 3*volume')
        a0 = sp.simplify(a.subs(k, 0))
        c0 = sp.simplify(c.subs(k, 0))
        ctx.check(sp.simplify(a0 - 4 * sp.pi) == 0 and sp.simplify(c0 - sp.Rational(4, 3) * sp.pi) == 0, 'R14.5', NUC, cls, f_,
                  'k = 0 limits: area factor 4*pi, volume factor 4*pi/3 (sphere)', f'k = 0 limits are area {a0}, volume {c0} instead of 4*pi, 4*pi/3',
                  construct=f'{cls}: k=0 limits')
    ctx.floor('R14.5', n, 4)
    # Rcrit / Gcrit of NucleationBarrierParameters
    A, B, Cc, gam, dG, R = sp.symbols('a b c gamma dG R', positive=True)

    def atoms(e):
        c_ = U.chain(e)
        table = {('self', 'areaFactor'): A, ('self', 'gbRemoval'): B, ('self', 'volumeFactor'): Cc, ('self', 'gamma'): gam, ('self', 'gbEnergy'): 2 * k * gam}
        if c_ in table:
            return table[c_]
        return None
    for meth, want in (('Rcrit', 2 * gam / dG), ('Gcrit', sp.Rational(16, 3) * sp.pi * gam**3 / dG**2 * Cc / (sp.Rational(4, 3) * sp.pi))):
        f = repo.func(NUC, f'NucleationBarrierParameters.{meth}')
        rets = [r for r in ast.walk(f) if isinstance(r, ast.Return)]
        try:
            pn = U.params(f)
            env = {pn[1]: dG}
            if len(pn) > 2:
                env[pn[2]] = R
            expr = ToSympy(atoms=atoms, env=env).tr(inline(rets[0].value, single_defs(f)))
        except (AnalysisError, IndexError) as e:
            rv = inline(rets[0].value, single_defs(f)) if rets else None
            if isinstance(rv, ast.Call) and (U.call_name(rv) or '') in ('np.clip', 'np.maximum', 'np.fmax', 'max', 'np.abs', 'np.absolute', 'abs', 'np.where', 'np.minimum'):
                # the classical expression is post-processed: the rate code reads a barrier of exactly 0 as "no nucleation"
                ctx.violation('R14.5', NUC, f'NucleationBarrierParameters.{meth}', rets[0], f'{meth} returns {U.src(rv)[:70]}: the classical expression is clipped / rectified, and a barrier of '
                              'exactly 0 is the "no nucleation" marker of the rate functions - at high driving force the rate drops to zero instead of rising', construct=f'{meth}: {U.call_name(rv)} wrapper')
                continue
            ctx.undecided('R14.5', NUC, f'NucleationBarrierParameters.{meth}', f, f'formula extraction failed: {e}')
            continue
        expr = expr.subs(A, 2 * k * B + 3 * Cc)
        if meth == 'Gcrit':
            # R14.7 sibling agreement at a radius that is not the critical one (raised to the minimum radius): the bulk branch of
            # nucleationBarrier evaluates 4 pi/3 gamma R^2; the boundary-site barrier must be that times volumeFactor/(4 pi/3)
            at_R = sp.simplify(expr - Cc * gam * R**2)
            ctx.check(at_R == 0, 'R14.7', NUC, 'NucleationBarrierParameters.Gcrit', rets[0],
                      'at any radius (also one raised to the minimum radius) the boundary-site barrier is the spherical one, 4 pi/3 gamma R^2, times volumeFactor/(4 pi/3), as the bulk branch computes it',
                      f'at a radius raised to the minimum radius the boundary-site barrier is {sp.simplify(expr)} instead of c*gamma*R**2 (bulk branch: 4 pi/3 gamma R^2): it falls with the driving force, '
                      'passes through exactly 0 (read as "no nucleation") and turns negative (exp(-G*/kT) > 1)', construct='Gcrit: barrier at a clamped radius')
            expr = expr.subs(R, 2 * gam / dG)
        diff = sp.simplify(expr - want)
        ctx.check(diff == 0, 'R14.5', NUC, f'NucleationBarrierParameters.{meth}', rets[0],
                  f'{meth} reduces to {"2*gamma/dG" if meth == "Rcrit" else "the spherical barrier times volumeFactor/(4*pi/3)"} under the geometric identity',
                  f'{meth} does not reduce to the classical value (difference {str(diff)[:80]})', construct=U.src(rets[0].value))
    # bulk / dislocation branch of nucleationBarrier: Rcrit = 2 f gamma / dG, Gcrit = 4 pi/3 gamma Rcrit^2
    f = repo.func(NR, 'nucleationBarrier')
    src_ = U.src(f)
    stores = K.nongb_stores(f)
    fsym, g2 = sp.symbols('f gamma', positive=True)

    def atoms2(e):
        if isinstance(e, ast.Call) and (U.call_name(e) or '').endswith('thermoFactor'):
            return fsym
        if U.chain(e) == ('precipitate', 'gamma'):
            return g2
        if isinstance(e, ast.Subscript) and isinstance(e.value, ast.Name) and e.value.id == 'volumeDrivingForce':
            return dG
        if isinstance(e, ast.Subscript) and isinstance(e.value, ast.Name) and e.value.id == 'Rcrit':
            return R
        return None
    ok_r = ok_g = False
    try:
        prop_e, prop_st, has_min = K.bulk_rcrit_proposal(f)
        if prop_e is not None and has_min:
            ok_r = sp.simplify(ToSympy(atoms=atoms2).tr(prop_e) - 2 * fsym * g2 / dG) == 0
        if 'Gcrit' in stores:
            st, defs = stores['Gcrit']
            ok_g = sp.simplify(ToSympy(atoms=atoms2).tr(K.select_nongb(inline(K.select_nongb(st.value), defs))) - sp.Rational(4, 3) * sp.pi * g2 * R**2) == 0
    except AnalysisError as e:
        ctx.undecided('R14.5', NR, 'nucleationBarrier', f, f'formula extraction failed: {e}')
    else:
        ctx.check(ok_r, 'R14.5', NR, 'nucleationBarrier', stores.get('Rcrit', (f,))[0], 'bulk/dislocation: Rcrit = max(2 f gamma / dG, Rmin)', 'bulk/dislocation critical radius is not max(2 f gamma / dG, Rmin)')
        ctx.check(ok_g, 'R14.5', NR, 'nucleationBarrier', stores.get('Gcrit', (f,))[0], 'bulk/dislocation: Gcrit = 4 pi / 3 * gamma * Rcrit^2', 'bulk/dislocation barrier is not 4 pi/3 gamma Rcrit^2')


def r144(repo, ctx):
    """zero-initialised outputs written only under a mask"""
    table = {'nucleationBarrier': (['Rcrit', 'Gcrit'], 'volumeDrivingForce', 'Gt'),
             'zeldovich': (['Z'], 'Rcrit', 'NotEq'),
             'betaBinary1': (['beta'], 'Rcrit', 'NotEq'),
             'betaBinary2': (['beta'], 'Rcrit', 'NotEq'),
             'betaMulti': (['beta'], 'Rcrit', 'NotEq'),
             'incubationTime': (['tau'], 'Z', 'NotEq'),
             'nucleationRate': (['nucRate'], 'Gcrit', 'NotEq')}
    n = 0
    for fn, (outs, src_name, op) in table.items():
        f = repo.func(NR, fn)
        # mask variable(s): name = <src_name> <op> 0
        masks = {}
        for s in ast.walk(f):
            if isinstance(s, ast.Assign) and isinstance(s.targets[0], ast.Name) and isinstance(s.value, ast.Compare) and len(s.value.ops) == 1:
                c = s.value
                if isinstance(c.left, ast.Name) and c.left.id == src_name and U.is_const(c.comparators[0], 0):
                    masks[s.targets[0].id] = type(c.ops[0]).__name__
        rets = [r for r in ast.walk(f) if isinstance(r, ast.Return)]
        returned = {nm.id for r in rets for nm in ast.walk(r.value) if isinstance(nm, ast.Name)}
        for o in outs:
            n += 1
            init = [s for s in ast.walk(f) if isinstance(s, ast.Assign) and any(isinstance(t, ast.Name) and t.id == o for t in s.targets)]
            ok_init = len(init) == 1 and isinstance(init[0].value, ast.Call) and U.call_name(init[0].value) == 'np.zeros'
            stores = [s for s in ast.walk(f) if isinstance(s, (ast.Assign, ast.AugAssign)) and any(isinstance(t, ast.Subscript) and isinstance(t.value, ast.Name) and t.value.id == o for t in U.flat_targets(s))]
            ok_store = bool(stores)
            whole = [s for s in ast.walk(f) if isinstance(s, ast.AugAssign) and isinstance(s.target, ast.Name) and s.target.id == o]
            if whole:
                ok_store = False
            for s in stores:
                for t in U.flat_targets(s):
                    if isinstance(t, ast.Subscript) and isinstance(t.value, ast.Name) and t.value.id == o:
                        sl = t.slice
                        got_op = None
                        if isinstance(sl, ast.Name):
                            got_op = masks.get(sl.id)
                        elif isinstance(sl, ast.Compare) and len(sl.ops) == 1 and isinstance(sl.left, ast.Name) and sl.left.id == src_name \
                                and U.is_const(sl.comparators[0], 0):
                            got_op = type(sl.ops[0]).__name__           # the mask written in place
                        if got_op != op:
                            ok_store = False
            ctx.check(ok_init and ok_store and o in returned, 'R14.4', NR, fn, init[0] if init else f,
                      f'{o} starts as zeros and is written only where {src_name} {">" if op == "Gt" else "!="} 0',
                      f'{o} is not zero-initialised and written only under the mask {src_name} {">" if op == "Gt" else "!="} 0: a non-positive driving force / zero factor can yield a non-zero {o}',
                      construct=f'{fn}: {o}')
    ctx.floor('R14.4', n, 8)
    # one-sided comparisons: the array path of nucleationBarrier evaluates the barrier where the driving force is > 0; every other
    # sign test of the driving force in that function (a scalar fast path, an early exit) must draw the line at the same place,
    # otherwise a driving force of exactly 0 is divided by (Rcrit = inf, rate nan)
    f = repo.func(NR, 'nucleationBarrier')
    swap = {'Lt': 'Gt', 'Gt': 'Lt', 'LtE': 'GtE', 'GtE': 'LtE', 'Eq': 'Eq', 'NotEq': 'NotEq'}
    bad, seen = [], 0
    for c in ast.walk(f):
        if isinstance(c, ast.Compare) and len(c.ops) == 1:
            l, r, op = c.left, c.comparators[0], type(c.ops[0]).__name__
            if U.is_const(l, 0) and op in swap:
                l, r, op = r, l, swap[op]
            if U.is_const(r, 0) and isinstance(l, ast.Name) and l.id.split('__')[0] == 'volumeDrivingForce' and op in swap:
                seen += 1
                if op not in ('Gt', 'LtE'):
                    bad.append(c)
    ctx.check(not bad and seen >= 1, 'R14.4', NR, 'nucleationBarrier', bad[0] if bad else f, f'all {seen} sign test(s) of the driving force separate > 0 from <= 0',
              f'the sign test {U.src(bad[0]) if bad else ""} does not separate > 0 from <= 0 like the mask of the array path: a driving force of exactly 0 takes the branch that divides by it '
              '(critical radius inf, barrier inf or nan, rate nan) or a positive rate is returned for it', construct='nucleationBarrier: sign tests of the driving force')
    # incubation factor bounded by 1
    f = repo.func(NR, 'nucleationRate')
    ok = any(isinstance(c, ast.Call) and U.call_name(c) in ('np.amin', 'np.minimum') and 'np.exp(-tau' in U.src(c).replace(' ', '').replace('np.exp(-tau', 'np.exp(-tau') and 'np.ones' in U.src(c) for c in U.calls(f))
    ctx.check(ok, 'R14.4', NR, 'nucleationRate', f, 'incubation factor is min(exp(-tau/t), 1)', 'incubation factor is not bounded by 1', construct='nucleationRate: incubation factor')


def r143(repo, ctx):
    q = f'{MODEL}._calcNucleationSites'
    f = repo.func(EULER, q)
    rets = [r for r in ast.walk(f) if isinstance(r, ast.Return)]
    ok = bool(rets) and all(isinstance(r.value, ast.Call) and U.call_name(r.value) in ('np.amax', 'np.max', 'max', 'np.maximum') and '0' in U.src(r.value) for r in rets)
    ctx.check(ok, 'R14.3', EULER, q, rets[0] if rets else f, 'available sites are returned through max(., 0)', 'available sites can be negative')
    pn = U.params(f)
    p = pn[3] if len(pn) > 3 else 'p'
    n = 0
    for node in ast.walk(f):
        if isinstance(node, ast.If) and isinstance(node.test, ast.Call) and U.call_name(node.test) == 'isinstance' and len(node.test.args) == 2:
            X = U.src(node.test.args[1])
            recv = U.src(node.test.args[0])
            n += 1
            comps = [c for s in node.body for c in ast.walk(s) if isinstance(c, (ast.ListComp, ast.GeneratorExp))]
            good = False
            ident = False
            for c in comps:
                for gen in c.generators:
                    for cond in gen.ifs:
                        if isinstance(cond, ast.Call) and U.call_name(cond) == 'isinstance' and len(cond.args) == 2 and U.src(cond.args[1]) == X:
                            over_all = isinstance(gen.iter, ast.Call) and U.call_name(gen.iter) == 'range' and 'len(' in U.src(gen.iter)
                            good = good or over_all
                        if isinstance(cond, ast.Compare) and isinstance(cond.ops[0], (ast.Eq, ast.Is)) and 'description' in U.src(cond):
                            ident = True
            uses_pre = [nm for s in node.body for nm in ast.walk(s) if isinstance(nm, ast.Name)]
            # a call of a local callable (a function object taken from a table): its body is not in this branch
            opaque = [U.src(c)[:50] for s_ in node.body for c in ast.walk(s_) if isinstance(c, ast.Call) and isinstance(c.func, ast.Name)
                      and c.func.id not in ('range', 'len', 'isinstance', 'max', 'min', 'sum', 'float', 'int', 'abs')]
            if good:
                ctx.ok('R14.3', EULER, q, node, f'{X}: occupied sites are summed over all phases of the same site type', construct=f'{X} branch')
            elif not comps and opaque:
                ctx.undecided('R14.3', EULER, q, node, f'{X}: the sum over the occupied sites is not in this branch (it is produced by {opaque[0]}, which was not resolved)')
            else:
                ctx.violation('R14.3', EULER, q, node, f'{X}: the occupied sites are not summed over every phase whose site type is {X} (selected by the same class test as the branch): '
                              'precipitates of another phase on the same sites no longer reduce the available sites', construct=f'{X} branch')
    ctx.floor('R14.3', n, 5)


_INV = {'Lt': 'GtE', 'LtE': 'Gt', 'Gt': 'LtE', 'GtE': 'Lt'}
_SWAP = {'Lt': 'Gt', 'Gt': 'Lt', 'LtE': 'GtE', 'GtE': 'LtE'}


def _ratio_comparisons(f, limit_attr):
    """[(op name with the energy ratio on the left and the limit on the right, Compare node)] for the comparisons of f against
    `<anything>.maxRatio`"""
    out = []
    for n in ast.walk(f):
        if isinstance(n, ast.Compare) and len(n.ops) == 1 and type(n.ops[0]).__name__ in _INV:
            l, r = n.left, n.comparators[0]
            op = type(n.ops[0]).__name__
            lim_r = isinstance(r, ast.Attribute) and r.attr == limit_attr
            lim_l = isinstance(l, ast.Attribute) and l.attr == limit_attr
            if lim_r and not lim_l:
                out.append((op, n))
            elif lim_l and not lim_r:
                out.append((_SWAP[op], n))
    return out


def r149(repo, ctx):
    """R14.9 (contradiction rule): the evaluator of the geometric factors computes them on the mask `ratio <op> maxRatio` and leaves the
    sentinel -1 elsewhere; the validator of the barrier parameters raises on `ratio <op'> maxRatio`.  Every ratio that the evaluator
    leaves at the sentinel must be rejected by the validator, otherwise the sentinel (a negative factor) reaches Rcrit / Gcrit."""
    ev = repo.func(NUC, 'NucleationDescriptionBase._createArrays')
    va = repo.func(NUC, 'NucleationBarrierParameters._validateGBk')
    evc = _ratio_comparisons(ev, 'maxRatio')
    # the condition under which the validator raises: `if C: raise`  or the guard-clause form  `if C': return` ... `raise`
    body = U.body_without_docstring(va)
    raising, vac = [], []
    for i, st in enumerate(body):
        if not isinstance(st, ast.If) or st.orelse:
            continue
        if not any(isinstance(n_, ast.Attribute) and n_.attr == 'maxRatio' for n_ in ast.walk(st.test)):
            continue            # another validation of the inputs
        test, positive = st.test, True
        while isinstance(test, ast.UnaryOp) and isinstance(test.op, ast.Not):
            test, positive = test.operand, not positive
        if any(isinstance(x, ast.Raise) for b in st.body for x in ast.walk(b)):
            pass
        elif len(st.body) == 1 and isinstance(st.body[0], ast.Return) and st.body[0].value is None and any(isinstance(x, ast.Raise) for x in body[i + 1:]):
            positive = not positive
        else:
            continue
        raising.append(st)
        if isinstance(test, ast.Compare):
            vac += [(op if positive else _INV[op], n) for op, n in _ratio_comparisons(test, 'maxRatio')]
    if len(evc) != 1 or len(vac) != 1 or len(raising) != 1:
        ctx.undecided('R14.9', NUC, 'NucleationBarrierParameters._validateGBk', va,
                      f'admissible-ratio tests not in the form <ratio> <cmp> <..>.maxRatio (evaluator: {len(evc)}, validator: {len(vac)} in {len(raising)} raising branch(es))')
        return
    valid_op, rej_op = evc[0][0], vac[0][0]
    if valid_op not in ('Lt', 'LtE') or rej_op not in ('Gt', 'GtE'):
        ctx.undecided('R14.9', NUC, 'NucleationBarrierParameters._validateGBk', va, f'unexpected orientation of the admissible-ratio tests ({valid_op}, {rej_op})')
        return
    # complement of the evaluated set must be inside the rejected set
    ok = not (valid_op == 'Lt' and rej_op == 'Gt')
    ctx.check(ok, 'R14.9', NUC, 'NucleationBarrierParameters._validateGBk', vac[0][1],
              f'every energy ratio on which the geometric factors are not evaluated (not ratio {valid_op} maxRatio) is rejected by the validator (ratio {rej_op} maxRatio)',
              f'the geometric factors are evaluated only for ratio {valid_op} maxRatio, but the validator rejects only ratio {rej_op} maxRatio: at ratio == maxRatio (e.g. gamma = gbEnergy/2 on '
              'grain boundaries) the unevaluated sentinel -1 is used as area / volume / removal factor, so the factors are negative and the barrier and rate are nan',
              construct='_validateGBk: ratio == maxRatio admitted')
    ctx.floor('R14.9', 1, 1)


def check(repo, ctx, index, purity):
    ctx.explanation = EXPLANATION
    r149(repo, ctx)
    from .kwn import pbm_index_agreement
    pbm_index_agreement(repo, ctx, 'R14.8')
    ctx.assumptions += ['sympy simplification of the inverse-trigonometric identities', 'shape-factor f is treated as a constant in the Rcrit formula']
    # R14.1
    caches, inputs, problems, npaths = fresh.check_class(repo, index, NBP)
    ctx.analysed['paths'] += npaths
    ctx.floor('R14.1', len(caches), 5)
    ctx.extra['caches'] = {c: sorted(i) for c, i in inputs.items()}
    want = {'_gamma', '_gbEnergy', '_description'}
    for c, ins in inputs.items():
        ctx.check(want <= ins or c == '_GBk' and {'_gamma', '_gbEnergy'} <= ins, 'R14.1', NUC, f'NucleationBarrierParameters.{caches[c][0]}', 0,
                  f'cached factor {c} is computed from {sorted(ins)}', f'cached factor {c} was expected to depend on interfacial energy, grain-boundary energy and site type but reads {sorted(ins)}',
                  construct=f'{c} <- {sorted(ins)}')
    if problems:
        for name, c, hit, conds, f in problems:
            ctx.violation('R14.1', NUC, f'NucleationBarrierParameters.{name}', f, f'writes {hit} but leaves the cached factor {c} in place on a path: the factor no longer follows the change',
                          construct=f'{name}: {c} stale after {hit}')
    else:
        ctx.ok('R14.1', NUC, 'NucleationBarrierParameters', 0, f'on all {npaths} symbolic paths of all methods: every write of gamma / gbEnergy / description leaves every dependent cache None',
               construct='NucleationBarrierParameters: T-FRESH')
    # no outside writer of the backing fields
    n_ext = 0
    for p_, q_, f_ in repo.all_functions():
        if p_ == NUC and q_.startswith('NucleationBarrierParameters.'):
            continue
        for s in U.walk_no_nested(f_):
            if isinstance(s, (ast.Assign, ast.AugAssign)):
                for t in U.flat_targets(s):
                    c = U.chain(t)
                    if c and len(c) >= 3 and c[-1] in want | set(caches) and 'nucleation' in c:
                        n_ext += 1
                        ctx.violation('R14.1', p_, q_, s, f'{".".join(c)} is written from outside NucleationBarrierParameters, bypassing the invalidation', construct=U.src(s))
    # the public routes reach the setters
    pp = 'kawin/precipitation/PrecipitationParameters.py'
    v = repo.func(pp, 'PrecipitateParameters.validate')
    ok = any(isinstance(s, ast.Assign) and U.chain(s.targets[0]) == ('self', 'nucleation', 'gamma') for s in ast.walk(v))
    ctx.check(ok, 'R14.1', pp, 'PrecipitateParameters.validate', v, 'the interfacial energy of the precipitate is forwarded to the barrier parameters through the invalidating setter',
              'PrecipitateParameters.validate no longer forwards gamma through the nucleation.gamma setter')
    gs = repo.func(pp, 'PrecipitateParameters.gamma.setter')
    ok = any(U.call_name(c) == 'self.validate' for c in U.calls(gs))
    ctx.check(ok, 'R14.1', pp, 'PrecipitateParameters.gamma.setter', gs, 'setting gamma re-validates (and thereby invalidates the cached factors)', 'setting gamma does not reach validate()')
    # R14.2
    sub = type(ctx)(ctx.prop, ctx.repo, ctx.tier, ctx.seed)
    C02.r24(repo, sub)
    for fnd in sub.findings:
        fnd.rule = 'R14.2/' + fnd.rule
        ctx.findings.append(fnd)
    r143(repo, ctx)
    r144(repo, ctx)
    r145(repo, ctx)
