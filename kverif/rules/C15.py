"""C15 - precipitate shape factors match the geometry they describe.

R15.1 T-PURE: no factor function writes through an alias of its aspect-ratio / radius argument
R15.2 exact identities on the extracted formulas (sympy): unit volume of the three semi-axes, long/short = aspect ratio,
      equivalent-radius factor 1 at aspect ratio 1 and the ar -> 1+ limits of the needle/plate thermodynamic and kinetic factors equal 1
R15.3 the value used at aspect ratio <= 1 (the *Min attribute) is the ar -> 1+ limit of the shape's own formula (continuity at 1)
R15.4 result buffers are floating point, never of the dtype of the caller's aspect-ratio array
R15.7 bisection for the critical radius: whole start interval, one end moved per iteration, tolerance test
R15.5 ShapeFactor keeps no value derived from the shape description that survives a change of the description
"""
from __future__ import annotations
import ast
from .. import astutil as U
from ..formula import ToSympy, single_defs, inline
from ..symfield import SymExec
from ..source import AnalysisError, AnchorMissing

SF = 'kawin/precipitation/parameters/ShapeFactors.py'
SHAPES = ['SphereDescription', 'NeedleDescription', 'PlateDescription', 'CuboidalDescription']

EXPLANATION = (
    'Purity of the aspect-ratio argument is decided by alias analysis. The geometric clauses that have an exact normal form '
    'are decided on the formulas extracted from the source: (4*pi/3)*r1*r2*r3 == 1 (cuboid: r1*r2*r3 == 1), long/short == ar, '
    'and the ar -> 1+ limits that make every factor continuous at aspect ratio 1. Comparison with quadrature of the '
    'area/capacitance integrals, monotonicity and the bisection tolerance are numeric and not decided.')


def _method(repo, cls, name):
    c = repo.cls(SF, cls)
    for m in c.body:
        if isinstance(m, ast.FunctionDef) and m.name == name:
            return m
    b = repo.cls(SF, 'ShapeDescriptionBase')
    for m in b.body:
        if isinstance(m, ast.FunctionDef) and m.name == name:
            return m
    raise AnchorMissing(f'{cls}.{name}')


def formula(repo, cls, name, ar, component=None):
    import sympy as sp
    m = _method(repo, cls, name)
    defs = single_defs(m)
    rets = [r for r in ast.walk(m) if isinstance(r, ast.Return)]
    if len(rets) != 1:
        raise AnalysisError(f'{cls}.{name}: expected one return')
    expr = inline(rets[0].value, defs)

    def atoms(e):
        if isinstance(e, ast.Call):
            nm = U.call_name(e) or ''
            if nm in ('np.ones', 'np.ones_like'):
                return sp.Integer(1)
            if nm == 'self.eccentricity' and len(e.args) == 1:
                em = _method(repo, cls, 'eccentricity')
                er = [r for r in ast.walk(em) if isinstance(r, ast.Return)][0].value
                return ToSympy(atoms=atoms, env={U.params(em)[1]: tr.tr(e.args[0])}).tr(er)
        return None
    tr = ToSympy(atoms=atoms, env={U.params(m)[1]: ar})
    if component is not None:
        # scalar * np.array([a, b, c]).T   or   np.array([...]).T
        pref = sp.Integer(1)
        e = expr
        if isinstance(e, ast.BinOp) and isinstance(e.op, ast.Mult):
            for a, b in ((e.left, e.right), (e.right, e.left)):
                if _vec(b) is not None:
                    pref, e = tr.tr(a), b
                    break
        v = _vec(e)
        if v is None:
            raise AnalysisError(f'{cls}.{name}: not a 3-vector expression')
        return [pref * tr.tr(x) for x in v]
    return tr.tr(expr)


def _vec(e):
    if isinstance(e, ast.Attribute) and e.attr == 'T':
        e = e.value
    if isinstance(e, ast.Call) and U.call_name(e) == 'np.array' and e.args and isinstance(e.args[0], (ast.List, ast.Tuple)) and len(e.args[0].elts) == 3:
        return e.args[0].elts
    if isinstance(e, ast.Call) and U.call_name(e) == 'np.ones' and '3' in U.src(e):
        one = ast.Constant(value=1)
        return [one, one, one]
    return None


def _fold(e, env):
    """constant folding of a mask expression at one numeric point; None when something is not a compile-time constant"""
    import operator as op
    if isinstance(e, ast.Constant) and isinstance(e.value, (int, float)) and not isinstance(e.value, bool):
        return e.value
    if isinstance(e, ast.Name):
        return env.get(e.id)
    if isinstance(e, ast.UnaryOp) and isinstance(e.op, (ast.USub, ast.UAdd, ast.Not, ast.Invert)):
        v = _fold(e.operand, env)
        if v is None:
            return None
        return {ast.USub: lambda: -v, ast.UAdd: lambda: v, ast.Not: lambda: (not v), ast.Invert: lambda: (not v) if isinstance(v, bool) else None}[type(e.op)]()
    if isinstance(e, ast.BinOp):
        a, b = _fold(e.left, env), _fold(e.right, env)
        f = {ast.Add: op.add, ast.Sub: op.sub, ast.Mult: op.mul, ast.Div: op.truediv, ast.Pow: op.pow}.get(type(e.op))
        if isinstance(e.op, (ast.BitAnd, ast.BitOr)) and isinstance(a, bool) and isinstance(b, bool):
            return (a and b) if isinstance(e.op, ast.BitAnd) else (a or b)
        if a is None or b is None or f is None or isinstance(a, bool) or isinstance(b, bool):
            return None
        try:
            return f(a, b)
        except (ZeroDivisionError, OverflowError, ValueError):
            return None
    if isinstance(e, ast.Compare):
        vals = [_fold(x, env) for x in [e.left] + e.comparators]
        if any(v is None or isinstance(v, bool) for v in vals):
            return None
        f = {ast.Gt: op.gt, ast.GtE: op.ge, ast.Lt: op.lt, ast.LtE: op.le, ast.Eq: op.eq, ast.NotEq: op.ne}
        if any(type(o) not in f for o in e.ops):
            return None
        return all(f[type(o)](a, b) for o, a, b in zip(e.ops, vals, vals[1:]))
    if isinstance(e, ast.BoolOp):
        vals = [_fold(x, env) for x in e.values]
        if any(not isinstance(v, bool) for v in vals):
            return None
        return all(vals) if isinstance(e.op, ast.And) else any(vals)
    return None


def _probe_reaches_formula(repo, cls, wrapper, fn, point):
    """the public wrapper evaluates the private formula `fn` only where its mask holds: folds the mask at the literal probe point.
    True / False, or None when the wrapper has no single masked store of self.<fn>(...) or the mask is not a constant at the point"""
    w = _method(repo, cls, wrapper)
    if w is None:
        return None, None
    ps = [p for p in U.params(w) if p != 'self']
    if len(ps) != 1:
        return None, None
    masks = []
    for s in ast.walk(w):
        if isinstance(s, ast.Assign) and len(s.targets) == 1 and isinstance(s.targets[0], ast.Subscript) and isinstance(s.value, ast.Call) \
                and (U.call_name(s.value) or '') == f'self.{fn}':
            masks.append(s.targets[0].slice)
    if len(masks) != 1:
        return None, None
    # the wrapper may rebind its parameter: these calls keep the value of a scalar point above 1 (frozen table;
    # _processAspectRatio = atleast_1d + clamp of values below 1, decided by R15.1/R15.4)
    keep = {'np.atleast_1d', 'np.array', 'np.asarray', 'np.copy', 'self._processAspectRatio', 'float', 'np.float64'}
    env = {ps[0]: float(point)}
    for s in ast.walk(w):
        if isinstance(s, ast.Assign) and len(s.targets) == 1 and isinstance(s.targets[0], ast.Name) and isinstance(s.value, ast.Call) \
                and (U.call_name(s.value) or '') in keep and s.value.args and isinstance(s.value.args[0], ast.Name) and s.value.args[0].id in env:
            env[s.targets[0].id] = env[s.value.args[0].id]
    return _fold(masks[0], env), masks[0]


def r152_r153(repo, ctx):
    import sympy as sp
    ar = sp.Symbol('ar', positive=True)
    n = 0
    for cls in SHAPES:
        try:
            radii = formula(repo, cls, '_normalRadii', ar, component=True)
        except AnalysisError as e:
            ctx.undecided('R15.2', SF, f'{cls}._normalRadii', 0, str(e))
            continue
        n += 1
        m = _method(repo, cls, '_normalRadii')
        prod = sp.simplify(radii[0] * radii[1] * radii[2])
        want = sp.Integer(1) if cls == 'CuboidalDescription' else 3 / (4 * sp.pi)
        ctx.check(sp.simplify(prod - want) == 0, 'R15.2', SF, f'{cls}._normalRadii', m,
                  'the three semi-axes enclose unit volume' + (' (r1*r2*r3 = 1)' if cls == 'CuboidalDescription' else ' ((4*pi/3)*r1*r2*r3 = 1)'),
                  f'the three semi-axes do not enclose unit volume: product = {prod}', construct=f'{cls}: {[str(r) for r in radii]}')
        if cls != 'SphereDescription':
            ratios = {sp.simplify(a / b) for a in radii for b in radii}
            ctx.check(any(sp.simplify(r - ar) == 0 for r in ratios) and all(any(sp.simplify(r - w) == 0 for w in (1, ar, 1 / ar)) for r in ratios), 'R15.2', SF, f'{cls}._normalRadii', m, 'longest / shortest semi-axis = aspect ratio',
                      f'no pair of semi-axes has the requested aspect ratio (ratios {sorted(map(str, ratios))})', construct=f'{cls}: axis ratio')
    ctx.floor('R15.2', n, 4)
    # limits at aspect ratio 1 and continuity
    base_init = repo.func(SF, 'ShapeDescriptionBase.__init__')
    base_min = {}
    for s in ast.walk(base_init):
        if isinstance(s, ast.Assign):
            c = U.chain(s.targets[0])
            if c and c[0] == 'self' and c[1].endswith('Min'):
                base_min[c[1]] = s.value
    table = {'eqRadiusFactorMin': '_eqRadius', 'kineticFactorMin': '_kineticFactor', 'thermoFactorMin': '_thermoFactor'}
    n3 = 0
    for cls in SHAPES:
        cinit = None
        for m in repo.cls(SF, cls).body:
            if isinstance(m, ast.FunctionDef) and m.name == '__init__':
                cinit = m
        for attr, fn in table.items():
            try:
                f_ = formula(repo, cls, fn, ar)
                lim = sp.simplify(sp.limit(f_, ar, 1, '+'))
            except (AnalysisError, NotImplementedError, ValueError) as e:
                ctx.undecided('R15.3', SF, f'{cls}.{fn}', 0, f'limit not computable: {e}')
                continue
            n3 += 1
            # the minimum used by this class
            src_ = None
            if cinit is not None:
                for s in ast.walk(cinit):
                    if isinstance(s, ast.Assign) and U.chain(s.targets[0]) == ('self', attr):
                        src_ = s
            if src_ is None:
                val = ToSympy().tr(base_min[attr]) if attr in base_min else None
                ok = val is not None and sp.simplify(val - lim) == 0
                ctx.check(ok, 'R15.3', SF, f'{cls}.{fn}', _method(repo, cls, fn), f'{attr} = {val} equals the limit of {fn} at aspect ratio 1+ ({lim}): continuous at 1',
                          f'{fn} tends to {lim} at aspect ratio 1+ but aspect ratios <= 1 use {val}: the factor jumps at 1', construct=f'{cls}.{attr}')
            else:
                v = src_.value
                ok = False
                why = U.src(v)
                if isinstance(v, ast.Call):
                    nm = U.call_name(v) or ''
                    arg = None
                    try:
                        arg = U.const_value(v.args[0]) if v.args else None
                    except ValueError:
                        arg = None
                    if nm == f'self.{fn}' and arg == 1:
                        ok = True          # the class's own formula evaluated at 1: equals its limit when the formula is continuous
                        ok = sp.simplify(f_.subs(ar, 1) - lim) == 0 if f_.subs(ar, 1).is_finite else False
                    elif nm == f'self.{fn[1:]}' or nm == f'self.{fn[1:]}Factor' or nm == f'self.{attr[:-3]}':
                        # public wrapper: at exactly 1 it returns the base-class minimum, above 1 the class formula
                        if arg is not None and arg > 1 and arg < 1.01:
                            ok = True
                            # two cooperating sites: the probe point must lie where the wrapper's mask selects the formula
                            reach, mask = _probe_reaches_formula(repo, cls, nm[5:], fn, arg)
                            if reach is None:
                                ctx.undecided('R15.3', SF, f'{cls}.__init__', src_, f'cannot fold the mask under which {nm[5:]} evaluates {fn} at the probe point {arg}')
                            elif reach is False:
                                ok = False
                                why = f'{U.src(v)} probes the public wrapper at {arg}, where its mask `{U.src(mask)}` is false, so it returns the placeholder minimum and not the {cls} formula'
                        elif arg == 1:
                            bval = ToSympy().tr(base_min[attr]) if attr in base_min else None
                            ok = bval is not None and sp.simplify(bval - lim) == 0
                            why = f'{U.src(v)} returns the base-class value {bval}, the {cls} formula tends to {lim}'
                ctx.check(ok, 'R15.3', SF, f'{cls}.__init__', src_, f'{attr} is taken from the {cls} formula at aspect ratio 1 (limit {lim}): continuous at 1',
                          f'{attr} is not the limit of the {cls} formula at aspect ratio 1: {why} - the factor jumps at aspect ratio 1', construct=U.src(src_))
            if cls in ('NeedleDescription', 'PlateDescription', 'SphereDescription'):
                ctx.check(sp.simplify(lim - 1) == 0, 'R15.2', SF, f'{cls}.{fn}', _method(repo, cls, fn), f'{fn} -> 1 as the aspect ratio -> 1 (sphere limit)',
                          f'{fn} tends to {lim} instead of 1 at aspect ratio 1', construct=f'{cls}.{fn}: limit')
    ctx.floor('R15.3', n3, 10)


def r151_r154(repo, ctx, purity):
    n = 0
    for q, p in (('ShapeDescriptionBase.normalRadii', 'ar'), ('ShapeDescriptionBase.eqRadiusFactor', 'ar'), ('ShapeDescriptionBase.kineticFactor', 'ar'), ('ShapeDescriptionBase.thermoFactor', 'ar'),
                 ('ShapeDescriptionBase._processAspectRatio', 'ar'),
                 ('ShapeFactor.normalRadii', 'R'), ('ShapeFactor.eqRadiusFactor', 'R'), ('ShapeFactor.kineticFactor', 'R'), ('ShapeFactor.thermoFactor', 'R'),
                 ('ShapeFactor._scalarAspectRatioEquation', 'R')):
        f = repo.func(SF, q)
        i = purity.param_index(f, p)
        if i is None:
            ctx.undecided('R15.1', SF, q, f, f'parameter {p} not found')
            continue
        n += 1
        sites, _ = purity.analyse(SF, q, f, i)
        if sites:
            for s in sites[:2]:
                ctx.violation('R15.1', s.path, s.qual, s.node, f'argument {p} of {q.split(".")[-1]} may be modified in place ({s.kind}): aspect ratios below 1 must be treated as 1 without changing the caller\'s array',
                              construct=U.src(s.node)[:100])
        else:
            ctx.ok('R15.1', SF, q, f, f'no in-place write through an alias of {p}', construct=f'{q}({p})')
    ctx.floor('R15.1', n, 10)
    # R15.4 dtype of result buffers
    nb = 0
    for q in ('eqRadiusFactor', 'kineticFactor', 'thermoFactor'):
        f = repo.func(SF, f'ShapeDescriptionBase.{q}')
        pn = U.params(f)
        bufs = [s for s in ast.walk(f) if isinstance(s, ast.Assign) and isinstance(s.targets[0], ast.Name) and any(isinstance(s2, ast.Assign) and isinstance(s2.targets[0], ast.Subscript)
                and isinstance(s2.targets[0].value, ast.Name) and s2.targets[0].value.id == s.targets[0].id for s2 in ast.walk(f))]
        for b in bufs:
            nb += 1
            bad = [c for c in U.calls(b.value) if (U.call_name(c) or '').endswith('_like') and U.kwarg(c, 'dtype') is None]
            bad += [c for c in U.calls(b.value) if U.call_name(c) in ('np.array', 'np.asarray', 'np.copy') and c.args and isinstance(c.args[0], ast.Name) and c.args[0].id == pn[1]]
            if isinstance(b.value, ast.Name) and b.value.id == pn[1]:
                bad.append(b.value)
            ctx.check(not bad, 'R15.4', SF, f'ShapeDescriptionBase.{q}', b, 'the result buffer is created as a floating-point array of the argument\'s shape',
                      'the result buffer inherits the dtype of the aspect-ratio argument: for integer-typed aspect ratios the factors are truncated to integers', construct=U.src(b))
    ctx.floor('R15.4', nb, 3)
    # R15.4 (whole file): a *_like allocation without dtype whose prototype is (derived from) a parameter takes the caller's dtype
    nf = 0
    for qual, f in repo.functions(SF):
        nf += 1
        pn = set(U.params(f)) - {'self'}
        derived = set(pn)
        for s in ast.walk(f):
            if isinstance(s, ast.Assign) and len(s.targets) == 1 and isinstance(s.targets[0], ast.Name) and isinstance(s.value, ast.Call) \
                    and (U.call_name(s.value) or '') in ('np.atleast_1d', 'np.array', 'np.asarray', 'np.copy', 'np.squeeze', 'np.ravel') \
                    and s.value.args and isinstance(s.value.args[0], ast.Name) and s.value.args[0].id in derived and U.kwarg(s.value, 'dtype') is None:
                derived.add(s.targets[0].id)
        for c in U.calls(f):
            nm = U.call_name(c) or ''
            if nm.startswith('np.') and nm.endswith('_like') and U.kwarg(c, 'dtype') is None and c.args:
                if nm != 'np.full_like':
                    # zeros/ones/empty_like truncate only when values are stored INTO the buffer afterwards
                    holder = [s.targets[0].id for s in ast.walk(f) if isinstance(s, ast.Assign) and len(s.targets) == 1 and isinstance(s.targets[0], ast.Name)
                              and any(x is c for x in ast.walk(s.value))]
                    stored = any(isinstance(s2, (ast.Assign, ast.AugAssign)) and isinstance((s2.targets[0] if isinstance(s2, ast.Assign) else s2.target), ast.Subscript)
                                 and isinstance((s2.targets[0] if isinstance(s2, ast.Assign) else s2.target).value, ast.Name)
                                 and (s2.targets[0] if isinstance(s2, ast.Assign) else s2.target).value.id in holder for s2 in ast.walk(f))
                    if not stored:
                        continue
                proto = c.args[0]
                while isinstance(proto, ast.Call) and (U.call_name(proto) or '') in ('np.atleast_1d', 'np.array', 'np.asarray', 'np.copy', 'np.squeeze', 'np.ravel') and proto.args \
                        and U.kwarg(proto, 'dtype') is None:
                    proto = proto.args[0]
                if isinstance(proto, ast.Name) and proto.id in derived:
                    ctx.violation('R15.4', SF, qual, c, f'{nm} without dtype takes the dtype of the caller\'s argument {proto.id}: for integer-typed radii / aspect ratios the stored value is truncated to an integer, so scalar/array and int/float calls disagree',
                                  construct=U.src(c)[:100])
    ctx.ok('R15.4', SF, '', 0, f'{nf} functions: no *_like allocation inherits the dtype of a caller-supplied array', construct='*_like allocations')


def r155(repo, ctx, index):
    key = (SF, 'ShapeFactor')
    derived = set()
    for name, m in index.methods(key).items():
        for s in ast.walk(m):
            if isinstance(s, ast.Assign):
                for t in s.targets:
                    c = U.chain(t)
                    if c and c[0] == 'self' and len(c) == 2 and c[1] not in ('_description',):
                        txt = U.src(s.value)
                        if 'self.description' in txt or 'self._description' in txt or any(f'self.{w}(' in txt for w in ('thermoFactor', 'kineticFactor', 'eqRadiusFactor', 'normalRadii')):
                            derived.add(c[1])
    if not derived:
        ctx.ok('R15.5', SF, 'ShapeFactor', 0, 'ShapeFactor stores nothing that is computed from the shape description: every factor is evaluated from the current description at query time',
               construct='ShapeFactor: derived fields = {}')
        return
    sx = SymExec(repo, index, key)
    for name, m in index.methods(key).items():
        if name == '__init__':
            continue
        for o in [o for o in sx.run(m) if o.status != 'raise']:
            ev = o.events
            idx = [i for i, e in enumerate(ev) if e == ('write', '_description')]
            if not idx:
                continue
            last = idx[-1]
            stale = [d for d in derived if ('write', d) not in ev[last:]]
            ctx.check(not stale, 'R15.5', SF, f'ShapeFactor.{name}', m, f'values derived from the description ({sorted(derived)}) are recomputed after the description changes',
                      f'{name} changes the shape description but leaves {stale} (computed from the previous description) in place: later results mix two shapes', construct=f'{name}: {stale}')


def r156(repo, ctx):
    """T-MODEFLAG on the shape classes: a field that a method tests to pick its algorithm (scalar closed form vs. search) is
    assigned on every path of every method that assigns it at all"""
    from .. import modeflag as M
    ncls = 0
    for c in repo.module(SF).tree.body:
        if not isinstance(c, ast.ClassDef):
            continue
        ncls += 1
        tf = M.tested_fields(c)
        for m, f, node in M.partial_setters(c, set(tf)):
            where = sorted({x for x, _ in tf[f]})
            ctx.violation('R15.6', SF, f'{c.name}.{m.name}', node,
                          f'self.{f} selects the behaviour of {where} but {m.name} assigns it on some paths only: after the other paths the object keeps the flag of its '
                          'previous configuration (e.g. a constant aspect ratio replaced by a function still uses the closed-form critical radius)',
                          construct=f'{c.name}.{m.name}: self.{f} not assigned on every path')
    ctx.ok('R15.6', SF, '', 0, f'{ncls} classes: no mode flag (a field tested to choose the algorithm) is assigned on some paths only of a setter', construct='mode flags')
    ctx.floor('R15.6', ncls, 5)


def r157(repo, ctx):
    """bisection for the critical radius of a size-dependent aspect ratio: the search starts on the whole admissible interval
    [RcritSphere, Rmax] (the two arguments), every iteration replaces exactly one end by the midpoint, the midpoint is the mean
    of the ends, and the loop ends on the tolerance test.  A narrower start interval is only right for monotone aspect-ratio
    functions; a root outside it is lost and the search falls back to the spherical radius."""
    from .. import cfg as C
    q = 'ShapeFactor._findRcrit'
    f = repo.func(SF, q)
    pn = U.params(f)
    def mid_binding(st):
        if isinstance(st, ast.Assign) and len(st.targets) == 1 and isinstance(st.targets[0], ast.Name):
            v = st.value
            half = None
            if isinstance(v, ast.BinOp) and isinstance(v.op, ast.Div) and U.is_const(v.right, 2):
                half = v.left
            elif isinstance(v, ast.BinOp) and isinstance(v.op, ast.Mult):
                for a, b in ((v.left, v.right), (v.right, v.left)):
                    if U.is_const(a, 0.5):
                        half = b
            if isinstance(half, ast.BinOp) and isinstance(half.op, ast.Add) and isinstance(half.left, ast.Name) and isinstance(half.right, ast.Name):
                return st.targets[0].id, {half.left.id, half.right.id}
        return None
    # the loop that recomputes the midpoint  mid = (lo + hi) / 2  names the bracket ends
    loops = [l for l in ast.walk(f) if isinstance(l, (ast.While, ast.For)) and any(mid_binding(st) for st in ast.walk(l))]
    if not loops and any(mid_binding(st) for st in ast.walk(f)) and any(isinstance(l, (ast.While, ast.For)) for l in ast.walk(f)):
        mid_names = {mid_binding(st)[0] for st in ast.walk(f) if mid_binding(st)}
        rebound = [st for l in ast.walk(f) if isinstance(l, (ast.While, ast.For)) for st in ast.walk(l)
                   if isinstance(st, ast.Assign) and any(isinstance(t, ast.Name) and t.id in mid_names for t in st.targets)]
        if rebound:
            ctx.undecided('R15.7', SF, q, rebound[0], f'the tested point is rebound inside the loop from {U.src(rebound[0].value)[:50]}, which is not a closed midpoint formula of two local bracket ends')
            return
        ctx.violation('R15.7', SF, q, f, 'the midpoint is bound before the search loop but never recomputed inside it: the bracket ends move while the point that is tested stays where it was',
                      construct='_findRcrit: bracket update')
        return
    if len(loops) != 1 or len(pn) < 3:
        ctx.undecided('R15.7', SF, q, f, 'expected one loop that recomputes a midpoint mid = (lo + hi) / 2 and the parameters (RcritSphere, Rmax)')
        return
    loop = loops[0]
    mids = [mid_binding(st) for st in ast.walk(loop) if mid_binding(st)]
    if len({(m[0], frozenset(m[1])) for m in mids}) != 1:
        ctx.undecided('R15.7', SF, q, f, 'more than one midpoint binding in the loop')
        return
    mid, lo_hi = mids[0][0], set(mids[0][1])
    in_loop = {id(n) for n in ast.walk(loop)}
    init = {}
    for st in U.body_without_docstring(f):
        if id(st) in in_loop or st is loop:
            break
        if isinstance(st, ast.Assign) and len(st.targets) == 1 and isinstance(st.targets[0], ast.Name) and st.targets[0].id in lo_hi:
            init[st.targets[0].id] = st
    vals = {}
    for nm in lo_hi:
        if nm in init:
            vals[nm] = init[nm].value.id if isinstance(init[nm].value, ast.Name) else None
        elif nm in pn:
            vals[nm] = nm           # the parameter itself serves as the end of the bracket
    ok = set(vals) == lo_hi and set(vals.values()) == {pn[1], pn[2]}
    bad_st = next((st for nm, st in init.items() if vals.get(nm) not in (pn[1], pn[2])), f)
    ctx.check(ok, 'R15.7', SF, q, bad_st, f'the bisection starts on the whole interval [{pn[1]}, {pn[2]}]',
              f'the bisection does not start on [{pn[1]}, {pn[2]}] ({", ".join(nm + " = " + U.src(st.value)[:50] for nm, st in sorted(init.items()))}): a start interval narrowed by an assumption on the '
              'aspect-ratio function excludes the root for functions that are not monotone, and the search then falls back to the spherical radius', construct='_findRcrit: start interval')
    # each iteration: exactly one end := mid, then mid := mean of the ends
    g = C.build(loop.body, region=True)

    def tr(node, st, label):
        moved, remid = st
        a = node.ast
        if node.kind == 'stmt' and isinstance(a, ast.Assign) and len(a.targets) == 1 and isinstance(a.targets[0], ast.Name):
            t = a.targets[0].id
            if t in lo_hi:
                moved = moved + ((t, isinstance(a.value, ast.Name) and a.value.id == mid and not remid),)
            if t == mid:
                remid = True
        return (moved, remid)
    at, exits = C.collect(g, ((), False), tr)
    bad = [(lab, st) for lab, sts in exits.items() if lab in ('fall', 'continue') for st in sts if not (len(st[0]) == 1 and st[0][0][1] and st[1])]
    ctx.check(not bad, 'R15.7', SF, q, loop, 'on every path of an iteration exactly one end of the bracket is replaced by the midpoint and the midpoint is recomputed from the new ends',
              'an iteration of the bisection does not replace exactly one end of the bracket by the midpoint (or does not recompute the midpoint): the bracket stops shrinking around the root',
              construct='_findRcrit: bracket update')
    hdr = [loop.test] if isinstance(loop, ast.While) else []
    tests = [n for t_ in hdr + [i.test for i in ast.walk(loop) if isinstance(i, ast.If)] for n in ast.walk(t_) if isinstance(n, ast.Compare) and len(n.ops) == 1]
    ok_t = any(isinstance(c.ops[0], (ast.Gt, ast.GtE, ast.Lt, ast.LtE)) and any('tol' in U.src(x) for x in (c.left, c.comparators[0]))
               and any(isinstance(x, ast.Call) and (U.call_name(x) or '') in ('np.abs', 'abs', 'np.absolute') for x in (c.left, c.comparators[0])) for c in tests)
    ctx.check(ok_t, 'R15.7', SF, q, loop, 'the search is controlled by a comparison of |objective(mid)| with the tolerance', 'no comparison of |objective at the midpoint| with the tolerance controls the search', construct='_findRcrit: loop test')


def check(repo, ctx, index, purity):
    ctx.explanation = EXPLANATION
    ctx.assumptions += ['sympy limit/simplify on the extracted closed forms', 'quadrature comparison, monotonicity and bisection tolerance are not decided']
    r151_r154(repo, ctx, purity)
    r152_r153(repo, ctx)
    r155(repo, ctx, index)
    r156(repo, ctx)
    r157(repo, ctx)
