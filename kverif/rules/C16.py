"""C16 - elastic strain energy (structure decidable statically).

R16.1 T-FRESH on StrainEnergy: after any method that writes a rotation or an unrotated stiffness tensor, the rotated tensors
      are recomputed (update() is reached after the last such write, or update() would not change them on that path)
R16.2 Lebedev tables and orbit generator: weights sum to 1 with the orbit multiplicities, point totals 974/2354/5810,
      the literal A1/A2/A3 orbits are the octahedral orbits, and the generator/table contract of the C orbits holds
R16.3 modulus conversions: every branch of moduliToC reproduces (E, nu, G) from a ground-truth pair (sympy)
R16.4 Voigt index maps (tensor <-> 6x6, tensor <-> vector) are inverse tables
R16.10 weight typing of the 6x6 / 6-vector forms: contractions pair a plain axis with a shear-weighted one, inverses are un-weighted, conversions receive plain forms
R16.5 sibling agreement: the fourth-rank and the 6x6 energy routines are the same operator expression (non-commutative normal form)
"""
from __future__ import annotations
import ast
import math
from .. import astutil as U
from ..formula import ToSympy, single_defs, inline
from ..symfield import SymExec
from ..source import AnalysisError, AnchorMissing

EF = 'kawin/precipitation/parameters/ElasticFactors.py'
LN = 'kawin/precipitation/parameters/LebedevNodes.py'
SE = (EF, 'StrainEnergy')
INPUTS = {'rotation', 'rotationPrec', '_unrotated_cMatrix_4th', '_unrotated_cPrec_4th'}
MULT = {'A1': 6, 'A2': 12, 'A3': 8, 'B': 24, 'C': 24, 'D': 48}
TOTALS = {'q53': 974, 'q83': 2354, 'q131': 5810}

EXPLANATION = (
    'Decides the structural clauses: order independence of rotation and stiffness (derived-state freshness by symbolic '
    'execution of every StrainEnergy method), the quadrature tables (literal evaluation of weights and of the closed A-orbit '
    'generators with exact trigonometry; generator/table contract of the parametrised orbits), the 15 modulus conversions '
    '(exact replay against a ground-truth (E, nu)), the Voigt maps as inverse tables and the equality of the fourth-rank and '
    '6x6 energy routines as non-commutative operator expressions. Positivity, scaling laws, rotation invariance and the '
    'closed forms are numeric and not decided.')


# ---------------------------------------------------------------------------------------------- R16.1
def r161(repo, ctx, index):
    sx = SymExec(repo, index, SE)
    upd = repo.func(EF, 'StrainEnergy.update')
    n = 0
    for name, f in index.methods(SE).items():
        if name in ('__init__', 'update') or any(isinstance(d, ast.Name) and d.id == 'property' for d in f.decorator_list):
            continue
        try:
            outs = [o for o in sx.run(f) if o.status != 'raise']
        except AnalysisError as e:
            ctx.undecided('R16.1', EF, f'StrainEnergy.{name}', f, str(e))
            continue
        wrote = False
        bad = []
        for o in outs:
            ev = o.events
            idx = [i for i, e in enumerate(ev) if e[0] == 'write' and e[1] in INPUTS]
            if not idx:
                continue
            wrote = True
            last = idx[-1]
            if ('call', 'update') in ev[last:]:
                continue
            # would update() change the derived state from here?
            cont = [c for c in sx.run(upd, fields=o.fields, events=o.events) if c.status != 'raise']
            changes = any(('write', 'params') in c.events[len(ev):] for c in cont)
            if changes:
                bad.append(o)
        if wrote:
            n += 1
            ctx.analysed['paths'] += len(outs)
            ctx.check(not bad, 'R16.1', EF, f'StrainEnergy.{name}', f, 'after the rotation / stiffness is written, the rotated tensors are recomputed on every path (or need no change)',
                      f'{name} stores a rotation or stiffness but the rotated tensors in params are not recomputed on a path ({[c[0] + ":" + c[1] for c in bad[0].conds][:3] if bad else ""}): the result depends on the order in which rotation and stiffness were supplied',
                      construct=f'StrainEnergy.{name}: refresh after input write')
    ctx.floor('R16.1', n, 6)
    # what update() reads is what the freshness rule protects
    reads = {U.chain(n_)[1] for n_ in ast.walk(upd) if isinstance(n_, ast.Attribute) and isinstance(n_.ctx, ast.Load) and U.chain(n_) and U.chain(n_)[0] == 'self' and len(U.chain(n_)) >= 2}
    ctx.check({'rotation', 'rotationPrec', 'unrotated_cMatrix_4th', 'unrotated_cPrec_4th'} <= reads, 'R16.1', EF, 'StrainEnergy.update', upd,
              'update() computes the rotated tensors from both rotations and both unrotated stiffness tensors', f'update() no longer reads all of the rotations/stiffness tensors (reads {sorted(reads)})')


# ---------------------------------------------------------------------------------------------- R16.2
def _tables(repo):
    m = repo.module(LN)
    out = {}
    for s in m.tree.body:
        if isinstance(s, ast.Assign) and isinstance(s.targets[0], ast.Name) and s.targets[0].id in TOTALS and isinstance(s.value, ast.List):
            rows = []
            for e in s.value.elts:
                rows.append(ast.literal_eval(e))
            out[s.targets[0].id] = (s, rows)
    return out


def _repeat_count(x, cv=None):
    cv = cv or U.const_value
    try:
        if isinstance(x, ast.ListComp) and isinstance(x.generators[0].iter, ast.Call) and U.call_name(x.generators[0].iter) == 'range' \
                and len(x.generators) == 1 and not x.generators[0].ifs:
            return cv(x.generators[0].iter.args[0])
        if isinstance(x, ast.BinOp) and isinstance(x.op, ast.Mult):
            for lst, k in ((x.left, x.right), (x.right, x.left)):
                if isinstance(lst, ast.List) and len(lst.elts) == 1:
                    return cv(k)
        if isinstance(x, ast.Call) and U.call_name(x) == 'np.full' and x.args:
            return cv(x.args[0])
        if isinstance(x, ast.Call) and U.call_name(x) == 'np.repeat' and len(x.args) >= 2:
            return cv(x.args[1])
    except ValueError:
        return None
    return None


def _module_tables(tree):
    """module-level NAME = {str: const, ...} / (str, ...) literals"""
    out = {}
    for node in tree.body:
        if isinstance(node, ast.Assign) and len(node.targets) == 1 and isinstance(node.targets[0], ast.Name):
            v = node.value
            try:
                if isinstance(v, ast.Dict) and all(isinstance(k, ast.Constant) for k in v.keys):
                    out[node.targets[0].id] = {k.value: U.const_value(x) for k, x in zip(v.keys, v.values)}
                elif isinstance(v, (ast.Tuple, ast.List, ast.Set)) and v.elts and all(isinstance(e, ast.Constant) and isinstance(e.value, str) for e in v.elts):
                    out[node.targets[0].id] = {e.value: None for e in v.elts}
            except ValueError:
                pass
    return out


def _specialise(stmts, keys, kind, tables):
    """the statements of `stmts` executed when every expression in `keys` (source texts of the orbit-type selector) equals `kind`:
    tests of the selector against string literals / constant tables are decided, other conditionals contribute both arms"""
    def decide(t):
        if isinstance(t, ast.Compare) and len(t.ops) == 1 and U.src(t.left) in keys:
            c = t.comparators[0]
            if isinstance(t.ops[0], (ast.Eq, ast.NotEq)) and isinstance(c, ast.Constant) and isinstance(c.value, str):
                return (c.value == kind) == isinstance(t.ops[0], ast.Eq)
            if isinstance(t.ops[0], (ast.In, ast.NotIn)):
                members = None
                if isinstance(c, ast.Name) and c.id in tables:
                    members = set(tables[c.id])
                elif isinstance(c, (ast.Tuple, ast.List, ast.Set)) and all(isinstance(e, ast.Constant) for e in c.elts):
                    members = {e.value for e in c.elts}
                if members is not None:
                    return (kind in members) == isinstance(t.ops[0], ast.In)
        if isinstance(t, ast.BoolOp):
            vals = [decide(v) for v in t.values]
            if isinstance(t.op, ast.Or):
                return True if any(v is True for v in vals) else (False if all(v is False for v in vals) else None)
            return False if any(v is False for v in vals) else (True if all(v is True for v in vals) else None)
        if isinstance(t, ast.UnaryOp) and isinstance(t.op, ast.Not):
            d = decide(t.operand)
            return None if d is None else not d
        return None
    out = []
    for st in stmts:
        if isinstance(st, ast.If):
            d = decide(st.test)
            if d is True:
                out += _specialise(st.body, keys, kind, tables)
            elif d is False:
                out += _specialise(st.orelse, keys, kind, tables)
            else:
                out += _specialise(st.body, keys, kind, tables) + _specialise(st.orelse, keys, kind, tables)
        else:
            out.append(st)
    return out


def r162(repo, ctx):
    import sympy as sp
    tabs = _tables(repo)
    ctx.floor('R16.2', len(tabs), 3)
    lp = repo.func(LN, 'loadPoints')
    # multiplicities read from the generator: for each orbit type the loop body is specialised to that type and the number of
    # times the weight is appended is read off: weights = np.concatenate((weights, X)) with X = [w for _ in range(k)],
    # [w]*k, np.full(k, w) or np.repeat(w, k) (directly or through a local), k a literal or an entry of a constant table
    mult = {}
    branches = {}
    tables = _module_tables(repo.module(LN).tree)
    sel_tests = [s for s in ast.walk(lp) if isinstance(s, ast.If) and isinstance(s.test, ast.Compare) and len(s.test.ops) == 1 and isinstance(s.test.ops[0], ast.Eq)
                 and isinstance(s.test.comparators[0], ast.Constant) and isinstance(s.test.comparators[0].value, str)]
    keys = {U.src(s.test.left) for s in sel_tests}
    for s in sel_tests:
        branches[s.test.comparators[0].value] = s
    loops = [l for l in ast.walk(lp) if isinstance(l, (ast.For, ast.While)) and any(s_ in sel_tests for s_ in ast.walk(l))]
    body = loops[0].body if loops else []
    # the selector may be a local bound once in the loop body (nodeType = entry[0])
    for st in body:
        if isinstance(st, ast.Assign) and len(st.targets) == 1 and isinstance(st.targets[0], ast.Name) and st.targets[0].id in keys:
            keys.add(U.src(st.value))
    for kind in sorted(set(branches) | set(MULT)):
        path = _specialise(body, keys, kind, tables)

        def cv(e, kind=kind):
            if isinstance(e, ast.Subscript) and isinstance(e.value, ast.Name) and e.value.id in tables and U.src(e.slice) in keys:
                v = tables[e.value.id].get(kind)
                if v is None:
                    raise ValueError('no table entry')
                return v
            return U.const_value(e)
        local = {}
        total = None
        for st in path:
            if isinstance(st, ast.Assign) and len(st.targets) == 1 and isinstance(st.targets[0], ast.Name) and st.targets[0].id != 'weights':
                local[st.targets[0].id] = st.value
            if isinstance(st, ast.Assign) and isinstance(st.targets[0], ast.Name) and st.targets[0].id == 'weights' and isinstance(st.value, ast.Call) \
                    and U.call_name(st.value) in ('np.concatenate', 'np.append', 'np.hstack'):
                a = st.value.args
                parts = list(a[0].elts) if len(a) >= 1 and isinstance(a[0], (ast.Tuple, ast.List)) else list(a)
                for x in parts:
                    if isinstance(x, ast.Name) and x.id == 'weights':
                        continue
                    if isinstance(x, ast.Name) and x.id in local:
                        x = local[x.id]
                    k = _repeat_count(x, cv)
                    total = None if k is None else (total or 0) + k
                    if k is None:
                        break
        if total is not None:
            mult[kind] = total
    if not sel_tests:
        ctx.undecided('R16.2', LN, 'loadPoints', lp, 'the orbit generator does not select the orbit type by comparing it with string literals inside loadPoints (dispatch through a table of functions?): '
                      'multiplicities and literal orbits are not read off')
    elif set(mult) != set(MULT):
        # a branch whose repeat count could not be read off (weights built by an object / helper the normaliser left in place)
        ctx.undecided('R16.2', LN, 'loadPoints', lp, f'the weight repeat count was read off for {sorted(mult)} only (of {sorted(MULT)}): multiplicities not decided')
    else:
        ctx.check(mult == MULT, 'R16.2', LN, 'loadPoints', lp, f'orbit multiplicities in the generator are {MULT}', f'orbit multiplicities in the generator are {mult}, expected {MULT}', construct=f'multiplicities {mult}')
    for name, (node, rows) in tabs.items():
        wsum = sum(r[1] * MULT.get(r[0], 0) for r in rows)
        npts = sum(MULT.get(r[0], 0) for r in rows)
        ctx.check(abs(wsum - 1) < 1e-11, 'R16.2', LN, name, node, f'{name}: sum of weight * multiplicity = 1 (deviation {wsum - 1:.1e}): constants are integrated exactly',
                  f'{name}: weights do not sum to 1 (sum = {wsum!r})', construct=f'{name}: weight sum')
        ctx.check(npts == TOTALS[name], 'R16.2', LN, name, node, f'{name}: {npts} points, the documented count', f'{name}: {npts} points instead of the documented {TOTALS[name]}', construct=f'{name}: point count')
        # table contract of parametrised orbits
        badB = [r for r in rows if r[0] == 'B' and not (r[2] == [0.0, 0.0] and abs(r[3][0] + r[3][1] - math.pi / 2) < 1e-9)]
        ctx.check(not badB, 'R16.2', LN, name, node, f'{name}: every B entry is a pair of complementary polar angles in the x-z plane', f'{name}: {len(badB)} B entries are not complementary polar angles', construct=f'{name}: B entries')
        # C generator contract: which entry is mirrored
        cb = branches.get('C')
        if cb is not None:
            mirror_fixed = [n_ for n_ in ast.walk(cb) if isinstance(n_, ast.BinOp) and isinstance(n_.op, ast.Sub) and U.src(n_.left).replace(' ', '') == 'np.pi/2'
                            and isinstance(n_.right, ast.Subscript) and isinstance(n_.right.value, ast.Name) and n_.right.value.id == 'p' and U.is_const(n_.right.slice)]
            if mirror_fixed:
                k = U.const_value(mirror_fixed[0].right.slice)
                # a fixed index is only right if that entry is the off-diagonal one (phi != 45 deg) and the one of larger polar angle in every row
                viol = [r for r in rows if r[0] == 'C' and (abs(r[2][k] - math.pi / 4) < 1e-9 or r[3][k] < r[3][1 - k])]
                ctx.check(not viol, 'R16.2', LN, 'loadPoints', mirror_fixed[0],
                          f'{name}: the C-orbit generator mirrors the entry p[{k}], which is the off-diagonal one in every C row',
                          f'{name}: the C-orbit generator always mirrors p[{k}] about the 45 degree plane, but in {len(viol)} C rows that entry lies on the plane (or is not the lower point): '
                          f'{8 * len(viol)} points are duplicated and {8 * len(viol)} points of the orbit are missing, so the rule is not exact even for quadratics',
                          construct=f'C orbit: mirror index p[{k}] vs table {name}')
    # literal A orbits: exact evaluation of the closed generators
    want = {'A1': {(1, 0, 0), (-1, 0, 0), (0, 1, 0), (0, -1, 0), (0, 0, 1), (0, 0, -1)}}
    r2, r3 = sp.sqrt(2) / 2, sp.sqrt(3) / 3
    want['A2'] = {(a * r2, b * r2, 0) for a in (1, -1) for b in (1, -1)} | {(a * r2, 0, b * r2) for a in (1, -1) for b in (1, -1)} | {(0, a * r2, b * r2) for a in (1, -1) for b in (1, -1)}
    want['A3'] = {(a * r3, b * r3, c * r3) for a in (1, -1) for b in (1, -1) for c in (1, -1)}
    for kind in ('A1', 'A2', 'A3'):
        br = branches.get(kind)
        if br is None:
            ctx.undecided('R16.2', LN, 'loadPoints', lp, f'generator branch for {kind} not found')
            continue
        try:
            phis, thetas = _literal_orbit(br)
        except AnalysisError as e:
            ctx.undecided('R16.2', LN, 'loadPoints', br, f'{kind}: generator is not a closed literal expression: {e}')
            continue
        pts = set()
        for ph, th in zip(phis, thetas):
            v = tuple(sp.nsimplify(sp.simplify(c_)) for c_ in (sp.sin(th) * sp.cos(ph), sp.sin(th) * sp.sin(ph), sp.cos(th)))
            pts.add(v)
        ok = len(phis) == len(thetas) == MULT[kind] and {tuple(sp.simplify(c_) for c_ in p_) for p_ in pts} == {tuple(sp.simplify(sp.sympify(c_)) for c_ in w_) for w_ in want[kind]}
        ctx.check(ok, 'R16.2', LN, 'loadPoints', br, f'{kind} orbit: the {MULT[kind]} generated directions are exactly the octahedral orbit',
                  f'{kind} orbit: the generated directions are not the octahedral orbit of {"(1,1,0)/sqrt2" if kind == "A2" else "(1,1,1)/sqrt3" if kind == "A3" else "(1,0,0)"} '
                  f'({len(pts)} distinct directions, e.g. {sorted(map(str, pts))[:2]}): polynomials of low degree are not integrated exactly',
                  construct=f'{kind} orbit generator')


def _literal_orbit(branch):
    """evaluate the phi / theta lists of a closed (literal-only) orbit branch with exact sympy arithmetic"""
    import sympy as sp
    env = {}

    def ev(e):
        if isinstance(e, ast.Constant):
            return sp.Integer(e.value) if isinstance(e.value, int) else sp.Rational(repr(e.value))
        if isinstance(e, ast.Name):
            if e.id in env:
                return env[e.id]
            raise AnalysisError(f'free name {e.id}')
        if isinstance(e, ast.Attribute) and U.chain(e) == ('np', 'pi'):
            return sp.pi
        if isinstance(e, (ast.List, ast.Tuple)):
            return [ev(x) for x in e.elts]
        if isinstance(e, ast.UnaryOp) and isinstance(e.op, ast.USub):
            v = ev(e.operand)
            return [-x for x in v] if isinstance(v, list) else -v
        if isinstance(e, ast.BinOp):
            a, b = ev(e.left), ev(e.right)
            op = {ast.Mult: lambda x, y: x * y, ast.Div: lambda x, y: x / y, ast.Add: lambda x, y: x + y, ast.Sub: lambda x, y: x - y}.get(type(e.op))
            if op is None:
                raise AnalysisError('operator')
            if isinstance(a, list) and isinstance(b, list):
                return [op(x, y) for x, y in zip(a, b)]
            if isinstance(a, list):
                return [op(x, b) for x in a]
            if isinstance(b, list):
                return [op(a, y) for y in b]
            return op(a, b)
        if isinstance(e, ast.Call):
            nm = U.call_name(e)
            if nm == 'np.array':
                return ev(e.args[0])
            if nm == 'np.sqrt':
                return sp.sqrt(ev(e.args[0]))
            if nm == 'np.arccos':
                return sp.acos(ev(e.args[0]))
            if nm == 'np.arcsin':
                return sp.asin(ev(e.args[0]))
            if nm == 'np.arctan':
                return sp.atan(ev(e.args[0]))
            if nm == 'np.concatenate':
                out = []
                for x in e.args[0].elts:
                    v = ev(x)
                    out += v if isinstance(v, list) else [v]
                return out
        raise AnalysisError(U.src(e)[:40])
    phis, thetas = [], []
    for st in branch.body:
        if isinstance(st, ast.Assign) and isinstance(st.targets[0], ast.Name):
            nm = st.targets[0].id
            if nm in ('phi', 'theta'):
                v = st.value
                if not (isinstance(v, ast.Call) and U.call_name(v) == 'np.concatenate'):
                    raise AnalysisError('phi/theta not extended by np.concatenate')
                parts = v.args[0].elts
                new = []
                for x in parts[1:]:
                    r = ev(x)
                    new += r if isinstance(r, list) else [r]
                (phis if nm == 'phi' else thetas).extend(new)
            elif nm in ('w', 'weights'):
                continue
            else:
                env[nm] = ev(st.value)
    return phis, thetas


# ---------------------------------------------------------------------------------------------- R16.3
def r163(repo, ctx):
    import sympy as sp
    f = repo.func(EF, 'moduliToC')
    a, E0 = sp.symbols('a E0', positive=True)
    nu0 = 1 / (2 + a)                       # 0 < nu0 < 1/2
    truth = {'E': E0, 'nu': nu0, 'G': E0 / (2 * (1 + nu0)), 'lam': E0 * nu0 / ((1 + nu0) * (1 - 2 * nu0)),
             'K': E0 / (3 * (1 - 2 * nu0)), 'M': E0 * (1 - nu0) / ((1 + nu0) * (1 - 2 * nu0))}
    n = 0

    def leaves(stmts, given):
        for s in stmts:
            if isinstance(s, ast.If) and isinstance(s.test, ast.Name):
                yield from leaves_if(s, given)

    def leaves_if(s, given):
        g2 = given + [s.test.id]
        inner = [x for x in s.body if isinstance(x, ast.If)]
        if inner and len(g2) < 2:
            for x in inner:
                yield from leaves_if(x, g2)
        else:
            yield g2, s.body
        for o in s.orelse:
            if isinstance(o, ast.If) and isinstance(o.test, ast.Name):
                yield from leaves_if(o, given)
    for given, body in leaves(f.body, []):
        if len(given) != 2:
            continue
        n += 1
        env = {k: truth[k] for k in given}
        try:
            tr = ToSympy(env=env)
            for st in body:
                if isinstance(st, ast.Assign) and isinstance(st.targets[0], ast.Name):
                    tr.env[st.targets[0].id] = tr.tr(st.value)
            res = {k: tr.env.get(k) for k in ('E', 'nu', 'G')}
        except AnalysisError as e:
            ctx.undecided('R16.3', EF, 'moduliToC', body[0] if body else f, f'branch {given}: {e}')
            continue
        def norm(x):
            # perfect squares under a radical: factor the radicand so that sqrt(p**2) -> p for the positive ground truth
            x = x.replace(lambda t: t.is_Pow and t.exp == sp.Rational(1, 2), lambda t: sp.sqrt(sp.factor(t.base)))
            return sp.simplify(x)
        bad = []
        for k in ('E', 'nu', 'G'):
            if res[k] is None:
                bad.append(f'{k} is not computed')
            elif norm(res[k] - truth[k]) != 0:
                bad.append(f'{k} = {sp.simplify(res[k])} instead of {sp.simplify(truth[k])}')
        ctx.check(not bad, 'R16.3', EF, 'moduliToC', body[0] if body else f, f'moduli ({given[0]}, {given[1]}) -> (E, nu, G) reproduces the ground truth exactly',
                  f'conversion from ({given[0]}, {given[1]}) is wrong: {"; ".join(bad)[:160]}', construct=f'moduliToC[{given[0]},{given[1]}]')
    ctx.floor('R16.3', n, 15)
    # compliance matrix
    # (index, value) pairs of the stores into the compliance matrix s, written as tuple assignments or one by one
    cells = {}
    for st in ast.walk(f):
        if not isinstance(st, ast.Assign) or len(st.targets) != 1:
            continue
        pairs = []
        t0 = st.targets[0]
        if isinstance(t0, ast.Tuple) and isinstance(st.value, ast.Tuple) and len(t0.elts) == len(st.value.elts):
            pairs = list(zip(t0.elts, st.value.elts))
        elif isinstance(t0, ast.Subscript):
            pairs = [(t0, st.value)]
        for t, v in pairs:
            if isinstance(t, ast.Subscript) and isinstance(t.value, ast.Name) and t.value.id == 's':
                cells.setdefault(U.src(v), set()).add(U.src(t.slice).strip('()'))
    # values compared as rational functions of (E, G, nu), not as text: 1.0 / E, E ** -1, -(nu / E) are the same entries
    import sympy as sp
    Es, Gs, nus = sp.symbols('E G nu', positive=True)
    want = {sp.Integer(1) / Es: {'0, 0', '1, 1', '2, 2'}, sp.Integer(1) / Gs: {'3, 3', '4, 4', '5, 5'},
            -nus / Es: {'0, 1', '0, 2', '1, 0', '1, 2', '2, 0', '2, 1'}}
    got = {}
    for txt, idxs in cells.items():
        try:
            v = ToSympy(atoms=lambda e: {'E': Es, 'G': Gs, 'nu': nus}.get(e.id) if isinstance(e, ast.Name) else None, env={}).tr(ast.parse(txt, mode='eval').body)
        except (AnalysisError, SyntaxError):
            continue
        for w in want:
            if sp.simplify(v - w) == 0:
                got.setdefault(w, set()).update(idxs)
    s_ok = sum(got.get(w) == idx for w, idx in want.items())
    ctx.check(s_ok == 3, 'R16.3', EF, 'moduliToC', f, 'isotropic compliance: 1/E on the normal diagonal, 1/G on the shear diagonal, -nu/E off-diagonal', 'the isotropic compliance matrix is not assembled as 1/E, 1/G, -nu/E')


# ---------------------------------------------------------------------------------------------- R16.4
def r164(repo, ctx):
    f24 = repo.func(EF, 'convert2To4rankTensor')
    f42 = repo.func(EF, 'convert4To2rankTensor')
    m24 = m42 = None
    for s in ast.walk(f24):
        if isinstance(s, ast.Assign) and isinstance(s.targets[0], ast.Name) and s.targets[0].id == 'vMap' and isinstance(s.value, ast.Dict):
            m24 = {}
            for k, v in zip(s.value.keys, s.value.values):
                ks = frozenset(ast.literal_eval(k.args[0])) if isinstance(k, ast.Call) else None
                m24[ks] = ast.literal_eval(v)
    for s in ast.walk(f42):
        if isinstance(s, ast.Assign) and isinstance(s.targets[0], ast.Name) and s.targets[0].id == 'vMap':
            m42 = ast.literal_eval(s.value)
    ok = m24 is not None and m42 is not None and len(m42) == 6 and all(m24.get(frozenset(p)) == i for i, p in enumerate(m42)) and len(m24) == 6
    ctx.check(ok, 'R16.4', EF, 'convert4To2rankTensor', f42, 'the (i,j) <-> Voigt index tables of the two rank conversions are inverse to each other', f'rank conversion tables disagree: {m24} vs {m42}', construct='Voigt maps')
    fv2 = repo.func(EF, 'convertVecTo2rankTensor')
    f2v = repo.func(EF, 'convert2rankToVec')
    try:
        mat = [r for r in ast.walk(fv2) if isinstance(r, ast.Return)][0].value.args[0]
        grid = [[U.const_value(e.slice) for e in row.elts] for row in mat.elts]
        vec = [r for r in ast.walk(f2v) if isinstance(r, ast.Return)][0].value.args[0]
        pos = [tuple(U.const_value(x) for x in e.slice.elts) for e in vec.elts]
        ok = all(grid[i][j] == k and grid[j][i] == k for k, (i, j) in enumerate(pos)) and len(pos) == 6
    except Exception:
        ok = False
    ctx.check(ok, 'R16.4', EF, 'convert2rankToVec', f2v, 'vector <-> symmetric tensor maps are inverse tables', 'vector <-> tensor maps are not inverse to each other', construct='vector maps')


# ---------------------------------------------------------------------------------------------- R16.5
def _voigt_weight_names(repo):
    """module-level names of ElasticFactors bound to the shear-weight vector np.array([1, 1, 1, 2, 2, 2])"""
    out = set()
    for st in repo.module(EF).tree.body:
        if isinstance(st, ast.Assign) and isinstance(st.value, ast.Call) and (U.call_name(st.value) or '') == 'np.array' and st.value.args \
                and isinstance(st.value.args[0], (ast.List, ast.Tuple)) and [U.const_value(x) if U.is_const(x) else None for x in st.value.args[0].elts] == [1, 1, 1, 2, 2, 2]:
            out |= {t.id for t in st.targets if isinstance(t, ast.Name)}
    return out


def _operator_expr(repo, func, atom_of):
    import sympy as sp
    env = {}
    weights = _voigt_weight_names(repo)

    def tr(e):
        c = U.chain(e)
        a = atom_of(e)
        if a is not None:
            return a
        # the shear weights are bookkeeping of the 6x6 representation (decided by R16.10): identity at the operator level
        if isinstance(e, ast.Name) and e.id in weights:
            return sp.Integer(1)
        if isinstance(e, ast.Call) and (U.call_name(e) or '') == 'np.outer' and len(e.args) == 2 and all(isinstance(x, ast.Name) and (x.id in weights or env.get(x.id) == 1) for x in e.args):
            return sp.Integer(1)
        if isinstance(e, ast.Name):
            if e.id in env:
                return env[e.id]
            raise AnalysisError(f'free name {e.id}')
        if isinstance(e, ast.Constant):
            if isinstance(e.value, bool) or not isinstance(e.value, (int, float)):
                raise AnalysisError(f'non-numeric literal {e.value!r}')
            return sp.Rational(repr(e.value)) if isinstance(e.value, float) else sp.Integer(e.value)
        if isinstance(e, ast.UnaryOp) and isinstance(e.op, ast.USub):
            return -tr(e.operand)
        if isinstance(e, ast.BinOp):
            l, r = tr(e.left), tr(e.right)
            if isinstance(e.op, ast.Add):
                return l + r
            if isinstance(e.op, ast.Sub):
                return l - r
            if isinstance(e.op, ast.Mult):
                return l * r
            if isinstance(e.op, ast.Div):
                return l / r
        if isinstance(e, ast.Call):
            nm = U.call_name(e) or ''
            if nm in ('self._multiply', 'np.matmul') and len(e.args) == 2:
                return tr(e.args[0]) * tr(e.args[1])
            if nm in ('invert4rankTensor', 'np.linalg.inv'):
                return tr(e.args[0]) ** -1
            if nm in ('convert4To2rankTensor', 'convert2rankToVec'):
                return tr(e.args[0])
            if nm == 'np.eye':
                return sp.Integer(1)
            if nm == 'self._strainEnergy' and len(e.args) == 3:
                return sp.Rational(-1, 2) * tr(e.args[2]) * tr(e.args[1]) * tr(e.args[0])
            if nm == 'self.Sijmn':
                return sp.Symbol('S', commutative=False)
            if nm == 'np.prod':
                return sp.Symbol('r3')
        if isinstance(e, ast.Attribute) and c in (('np', 'pi'),):
            return sp.pi
        raise AnalysisError(f'not an operator expression: {U.src(e)[:50]}')
    result = None
    for st in U.body_without_docstring(func):
        if isinstance(st, ast.Assign) and isinstance(st.targets[0], ast.Name):
            if U.dead_callfree_store(func, st):
                continue
            env[st.targets[0].id] = tr(st.value)
        elif isinstance(st, ast.Return):
            result = tr(st.value)
    if result is None:
        raise AnalysisError('no return')
    return sp.expand(result)


def r165(repo, ctx):
    import sympy as sp
    Mx, Px, e = sp.Symbol('M', commutative=False), sp.Symbol('P', commutative=False), sp.Symbol('e', commutative=False)

    def atom_of(x):
        c = U.chain(x)
        if c in (('self', 'params', 'cMatrix_4th'), ('self', 'params', 'cMatrix_2nd')):
            return Mx
        if c in (('self', 'params', 'cPrec_4th'), ('self', 'params', 'cPrec_2nd')):
            return Px
        if c == ('self', 'params', 'eigenstrain'):
            return e
        return None
    n = 0
    for a, b in (('strainEnergyBohm', 'strainEnergyBohm2ndRank'), ('strainEnergyEllipsoid', 'strainEnergyEllipsoid2ndRank')):
        fa = repo.func(EF, f'EllipsoidalEnergyDescription.{a}')
        fb = repo.func(EF, f'EllipsoidalEnergyDescription.{b}')
        try:
            ea, eb = _operator_expr(repo, fa, atom_of), _operator_expr(repo, fb, atom_of)
        except AnalysisError as ex:
            ctx.undecided('R16.5', EF, f'EllipsoidalEnergyDescription.{a}', fa, f'not translatable to an operator expression: {ex}')
            continue
        n += 1
        ctx.check(sp.expand(ea - eb) == 0, 'R16.5', EF, f'EllipsoidalEnergyDescription.{a}', fa, f'{a} and {b} are the same operator expression (same order of the non-commuting tensors)',
                  f'{a} and {b} apply the tensors in a different order: {ea} vs {eb}; they agree only when the operators commute (proportional stiffness)', construct=f'{a} vs {b}')
    ctx.floor('R16.5', n, 2)
    comp = repo.func(EF, 'EllipsoidalEnergyDescription.computeStrainEnergy')
    ok = any(U.call_name(c) == 'self.strainEnergyBohm' for c in U.calls(comp))
    ctx.check(ok, 'R16.5', EF, 'EllipsoidalEnergyDescription.computeStrainEnergy', comp, 'the default energy routine is the general (different stiffness) fourth-rank routine', 'the default energy routine changed')


def _rotation_map(expr, rot, tensor, rank):
    """index bookkeeping of a tensor rotation written with nested np.tensordot or one np.einsum: list of
    (output axis, tensor axis, 'R' if the rotation matrix is used as rot[out, in] else 'RT'); None if not recognised"""
    if isinstance(expr, ast.Call) and U.call_name(expr) == 'np.einsum' and expr.args and isinstance(expr.args[0], ast.Constant) and isinstance(expr.args[0].value, str):
        spec = expr.args[0].value.replace(' ', '')
        if '->' not in spec:
            return None
        ins, outsub = spec.split('->')
        subs = ins.split(',')
        ops = expr.args[1:1 + len(subs)]
        if len(ops) != len(subs):
            return None
        tsub = [sb for sb, o in zip(subs, ops) if isinstance(o, ast.Name) and o.id == tensor]
        rsub = [sb for sb, o in zip(subs, ops) if isinstance(o, ast.Name) and o.id == rot]
        if len(tsub) != 1 or len(rsub) != rank or len(tsub[0]) != rank or len(outsub) != rank or len(rsub) + 1 != len(subs):
            return None
        out = []
        for sb in rsub:
            if len(sb) != 2:
                return None
            a, b = sb
            if a in outsub and b in tsub[0] and a not in tsub[0] and b not in outsub:
                out.append((outsub.index(a), tsub[0].index(b), 'R'))
            elif b in outsub and a in tsub[0] and b not in tsub[0] and a not in outsub:
                out.append((outsub.index(b), tsub[0].index(a), 'RT'))
            else:
                return None
        return out
    # nested tensordot(rot, X, axes=(ra, xa)): the new axis comes first, the contracted axis of X disappears
    axes = list(range(rank))         # current position -> original tensor axis (or ('out', k) once rotated)
    chain = []
    e = expr
    while isinstance(e, ast.Call) and U.call_name(e) == 'np.tensordot' and len(e.args) >= 2:
        ax = U.kwarg(e, 'axes') or (e.args[2] if len(e.args) > 2 else None)
        if not (isinstance(e.args[0], ast.Name) and e.args[0].id == rot and isinstance(ax, ast.Tuple) and len(ax.elts) == 2):
            return None
        try:
            chain.append((U.const_value(ax.elts[0]), U.const_value(ax.elts[1])))
        except ValueError:
            return None
        e = e.args[1]
    if not (isinstance(e, ast.Name) and e.id == tensor) or len(chain) != rank:
        return None
    out = []
    cur = [('in', k) for k in range(rank)]
    for ra, xa in reversed(chain):       # innermost first
        if not (0 <= xa < rank) or cur[xa][0] != 'in':
            return None
        src_axis = cur[xa][1]
        cur = [('out', src_axis, 'R' if ra == 1 else 'RT')] + [c for i, c in enumerate(cur) if i != xa]
    for pos, c in enumerate(cur):
        if c[0] != 'out':
            return None
        out.append((pos, c[1], c[2]))
    return out


def r168(repo, ctx):
    """the tensor rotations use the rotation matrix with the same orientation on every axis and keep the axis order"""
    n = 0
    for fn, rank in (('rotateRank2Tensor', 2), ('rotateRank4Tensor', 4)):
        f = repo.func(EF, fn)
        pn = U.params(f)
        rets = [r for r in ast.walk(f) if isinstance(r, ast.Return)]
        if len(rets) != 1 or len(pn) < 2:
            ctx.undecided('R16.8', EF, fn, f, 'expected a single return of the rotated tensor')
            continue
        from ..formula import single_defs as _sd, inline as _inl
        m = _rotation_map(_inl(rets[0].value, _sd(f)), pn[0], pn[1], rank)
        if m is None:
            ctx.undecided('R16.8', EF, fn, rets[0], 'rotation is neither nested np.tensordot(rot, ., axes) nor a single np.einsum over rot and the tensor')
            continue
        n += 1
        ok = sorted(m) == [(k, k, 'R') for k in range(rank)]
        ctx.check(ok, 'R16.8', EF, fn, rets[0], f'T\'_{{i..}} = prod_k rot[i_k, m_k] T_{{m..}}: every one of the {rank} axes is rotated by rot itself, axis order kept',
                  f'rotation does not apply rot[i, m] on every axis in place (output axis, tensor axis, orientation) = {sorted(m)}: an isotropic tensor is no longer invariant and energies depend on the crystal orientation',
                  construct=U.src(rets[0].value)[:140])
    ctx.floor('R16.8', n, 2)


def r167(repo, ctx):
    """T-SHARED: the class-level arrays of StrainEnergyParameters are shared by all instances until rebound: never written in place"""
    from .. import sharedstate as S
    shared = S.class_level_mutables(repo, {EF})
    ctx.floor('R16.7', len(shared), 7)
    hits = S.inplace_uses(repo, shared)
    for p_, q_, node, text in hits:
        ctx.violation('R16.7', p_, q_, node, f'{text}: the array is created in the class body of {shared[[a for a in shared if a in text][0]][0][1] if any(a in text for a in shared) else "a parameter class"} '
                      'and shared by every instance that has not rebound it, so configuring one object changes the others (and a later object starts from the modified value)',
                      construct=U.src(node)[:120])
    if not hits:
        ctx.ok('R16.7', EF, 'StrainEnergyParameters', 0, f'the {len(shared)} class-level arrays are only ever rebound on the instance, never modified in place', construct=f'shared: {sorted(shared)}')


def r169(repo, ctx, index):
    """scale invariance of the Eshelby machinery of an ellipsoid: Dijkl(radius, c4) is homogeneous of degree 0 in the radii
    (prod(r) / beta**3 under the integral), so the Eshelby tensor depends on the aspect ratios only and the strain energy is
    proportional to the volume.  Decided by degree inference over the expressions of Dijkl, sphInt and _beta."""
    from .. import homog as H
    from fractions import Fraction
    key = (EF, 'EllipsoidalEnergyDescription')
    if key not in index.classes:
        cands = [k for k in index.classes if k[0] == EF and 'Dijkl' in index.methods(k)]
        if not cands:
            raise AnchorMissing(f'class with Dijkl not found in {EF}')
        key = cands[0]
    methods = {}
    for k in reversed(index.mro(key)):
        if k in index.classes:
            methods.update(index.methods(k))
    f = methods.get('Dijkl')
    if f is None:
        raise AnchorMissing('Dijkl not found')
    pn = U.params(f)
    dg = H.Degrees(methods, inverse_methods=('_ohm_inverse', '_ohm_quickInverse', '_OhmGeneral'))
    try:
        d = dg.function(f, {pn[1]: Fraction(1), '__lengths__': {pn[1]: 3}})
    except H.Inhomogeneous as e:
        ctx.violation('R16.9', EF, f'{key[1]}.Dijkl', e.node, f'{U.src(e.node)[:80]} adds terms of degree {" and ".join(str(x) for x in e.degrees)} in the radii: the expression is not homogeneous, '
                      'so the Eshelby tensor depends on the absolute size and the strain energy is no longer proportional to the volume', construct=U.src(e.node)[:100])
        return
    except H.Unknown as e:
        ctx.undecided('R16.9', EF, f'{key[1]}.Dijkl', f, f'degree inference left its fragment: {e}')
        return
    ctx.check(d == 0, 'R16.9', EF, f'{key[1]}.Dijkl', f, f'Dijkl is homogeneous of degree 0 in the radii ({dg.sums} sums checked for equal degrees): the Eshelby tensor depends on aspect ratios only',
              f'Dijkl is homogeneous of degree {d} in the radii instead of 0: the strain energy does not scale with the volume', construct=f'Dijkl: degree {d}')


def r1610(repo, ctx):
    """6x6 / 6-vector forms of the elastic tensors: every contraction pairs one plain axis with one axis carrying the shear
    weights (1,1,1,2,2,2), the inverse of a plain 6x6 form is un-weighted before it is used as a plain form, and only plain
    forms are converted back to tensors.  Necessary for "the same whether computed with 6x6 or fourth-rank tensors" and for
    the homogeneous-inclusion limit (which goes through invert4rankTensor)."""
    from .. import voigt as V
    weights = _voigt_weight_names(repo)
    field_tags = {'cMatrix_2nd': ('p', 'p'), 'cPrec_2nd': ('p', 'p')}
    RELEVANT = V.TO_PLAIN_VEC | V.TO_PLAIN_MAT | V.NEED_PLAIN_VEC | V.NEED_PLAIN_MAT
    funcs = []
    for q, f in repo.functions(EF):
        names = {(U.call_name(c) or '').split('.')[-1] for c in U.calls(f)}
        uses_2nd = any(isinstance(n, ast.Attribute) and n.attr in field_tags and isinstance(n.ctx, ast.Load) for n in ast.walk(f))
        if f.name in RELEVANT:
            continue
        if names & RELEVANT or uses_2nd:
            funcs.append((q, f))
    ctx.floor('R16.10', len(funcs), 4)
    # first pass: argument tags at the call sites of the module's own functions
    site_tags = {}
    for q, f in funcs:
        tg = V.Tagger(weights, field_tags)
        try:
            tg.function(f)
        except (V.Unknown, V.Mismatch):
            pass
        for name, tags in tg.calls:
            site_tags.setdefault(name, []).append(tags)
    n_con = 0
    for q, f in funcs:
        pn = [p_ for p_ in U.params(f) if p_ != 'self']
        ptags = {}
        for tags in site_tags.get(f.name, []):
            for p_, t_ in zip(pn, tags):
                if t_ != V.SCALAR:
                    ptags[p_] = t_
        tg = V.Tagger(weights, field_tags)
        try:
            tg.function(f, ptags)
        except V.Mismatch as e:
            ctx.violation('R16.10', EF, q, e.node, f'{U.src(e.node)[:70]}: {e.msg}', construct=f'{q}: {U.src(e.node)[:60]}')
            continue
        except V.Unknown as e:
            ctx.undecided('R16.10', EF, q, f, f'weight typing left its fragment: {e}')
            continue
        n_con += tg.n_contractions
        ctx.ok('R16.10', EF, q, f, f'{tg.n_contractions} contraction(s) of 6x6 / 6-vector forms pair a plain axis with a weighted one; conversions back to tensors receive plain forms', construct=f'{q}: Voigt weights')
    ctx.analysed['scenarios'] += n_con


def check(repo, ctx, index, purity):
    ctx.explanation = EXPLANATION
    ctx.assumptions += ['exact trigonometric evaluation by sympy', 'positivity / scaling / rotation invariance / closed forms are numeric and not decided']
    r161(repo, ctx, index)
    r162(repo, ctx)
    r163(repo, ctx)
    r164(repo, ctx)
    r165(repo, ctx)
    r167(repo, ctx)
    r168(repo, ctx)
    r169(repo, ctx, index)
    r1610(repo, ctx)
